import RreModel.C12.Model
/-
C12, second part of the model — the aggregate / windowing entry points of the anchored files that `Model.lean` left out:
  `src/streaming/window.rs`      TimeWindow::sum as the fold the code performs (any f64 class), latest_timestamp, events_in_range,
                                 duration_ms, clear; WindowManager::total_event_count / latest_window / get_statistics
  `src/streaming/aggregator.rs`  calculate_std_dev (the VALUE, over abstract float operations), calculate_percentile for every
                                 percentile (the index is a parameter), StreamAnalytics::moving_average
  `src/streaming/operators.rs`   DataStream::{from_events, key_by, group_by, window, aggregate, reduce, count, len},
                                 KeyedStream::{count, keys, aggregate, reduce, window, flatten}, KeyedWindowedStream::{aggregate, reduce},
                                 GroupedStream::{aggregate, count, first, last}, WindowedStream::{aggregate, reduce, flatten}
  `src/streaming/event.rs`       get_numeric / get_string / get_boolean for every value class
Floats stay abstract: a sum is `foldl add zero` over the values in the order the code visits them (`FOps`); the driver
instantiates the operations with IEEE double arithmetic and only bit patterns cross the wire.
-/
namespace C12

/-! ## `f64 + f64` on the value classes of the `XV` cases; `TimeWindow::sum` as the code folds it -/

/-- `a + b` in IEEE double arithmetic on the classes of `XNum` (`lo`/`hi` = `∓f64::MAX`; an integer of the generated range is far
below half an ulp of `f64::MAX`, so `MAX + i = MAX`; `MAX + MAX` overflows to `+inf`; `MAX + (-MAX) = 0`) -/
def XNum.add : XNum → XNum → XNum
  | .nan, _ => .nan
  | _, .nan => .nan
  | .pinf, .ninf => .nan
  | .ninf, .pinf => .nan
  | .pinf, _ => .pinf
  | _, .pinf => .pinf
  | .ninf, _ => .ninf
  | _, .ninf => .ninf
  | .fin i, .fin j => .fin (i + j)
  | .hi, .hi => .pinf
  | .lo, .lo => .ninf
  | .hi, .lo => .fin 0
  | .lo, .hi => .fin 0
  | .hi, .fin _ => .hi
  | .fin _, .hi => .hi
  | .lo, .fin _ => .lo
  | .fin _, .lo => .lo

/-- `self.events.iter().filter_map(|e| e.get_numeric(field)).sum()`: a left fold from zero over the numeric values in the order
the deque holds them -/
def xSumFold (vs : List (Option XNum)) : XNum := (vs.filterMap id).foldl XNum.add (.fin 0)

/-! ## abstract float operations -/

/-- the f64 operations the aggregates use; nothing is assumed about them (no associativity, no exactness) -/
structure FOps (F : Type) where
  zero : F                   -- the start value of `Iterator::sum`
  ofInt : Int → F            -- the numeric view of an integer-valued field
  ofNat : Nat → F            -- `len as f64`
  add : F → F → F
  sub : F → F → F
  mul : F → F → F            -- `powi(2)` is `x * x`
  div : F → F → F
  sqrt : F → F

/-- `iter().sum::<f64>()` -/
def fsum {F : Type} (ops : FOps F) (vs : List F) : F := vs.foldl ops.add ops.zero

/-- `TimeWindow::sum` / `Aggregator` Sum / `operators::Sum` over abstract floats: the fold over the numeric values of exactly
the given events, in their order -/
def sumF {F : Type} (ops : FOps F) (es : List Ev) : F := fsum ops ((vals es).map ops.ofInt)

/-- `calculate_std_dev` on the collected values:
```
if values.len() < 2 { return None; }
let mean = values.iter().sum::<f64>() / values.len() as f64;
let variance = values.iter().map(|v| (v - mean).powi(2)).sum::<f64>() / values.len() as f64;
Some(variance.sqrt())
``` -/
def stdDevF {F : Type} (ops : FOps F) (vs : List F) : Option F :=
  if vs.length < 2 then none
  else
    let mean := ops.div (fsum ops vs) (ops.ofNat vs.length)
    some (ops.sqrt (ops.div (fsum ops (vs.map fun v => ops.mul (ops.sub v mean) (ops.sub v mean))) (ops.ofNat vs.length)))

/-- `AggregationType::StdDev` over one window -/
def aggStdDev {F : Type} (ops : FOps F) (es : List AEv) : Option F := stdDevF ops ((avals es).map ops.ofInt)

/-- `calculate_percentile` for ANY percentile: `idx n` stands for `(percentile / 100.0 * (n - 1) as f64).round() as usize`
(an inexact f64 product; `Model.pctIndex p` is its value for the quarters). `values.get(index)`: an index beyond the end
answers `None`. -/
def aggPercentileAt (idx : Nat → Nat) (es : List AEv) : Option Int :=
  if (avals es).isEmpty then none else (sortInts (avals es))[idx (avals es).length]?

/-! ## `StreamAnalytics::detect_anomalies` / `calculate_trend` over abstract floats -/

/-- the comparisons and constants the analytics use besides `FOps` -/
structure FCmp (F : Type) where
  abs : F → F
  gt : F → F → Bool          -- `a > b` (false when either is NaN)
  lt : F → F → Bool
  hundred : F
  five : F
  negFive : F

/-- `detect_anomalies(windows, field, threshold)`: with fewer than 3 windows, or fewer than 10 numeric values in all windows but
the last, nothing; otherwise mean and standard deviation (population) of exactly these historical values, folded in window
then arrival order, and the ids of the events of the LAST window whose z-score `|(v − mean) / std|` exceeds the threshold,
in arrival order -/
def detectAnomalies {F : Type} (ops : FOps F) (c : FCmp F) (thr : F) (ws : List (List AEv)) : List Nat :=
  if ws.length < 3 then []
  else
    let values := (avals (ws.take (ws.length - 1)).flatten).map ops.ofInt
    if values.length < 10 then []
    else
      let mean := ops.div (fsum ops values) (ops.ofNat values.length)
      let std := ops.sqrt (ops.div (fsum ops (values.map fun v => ops.mul (ops.sub v mean) (ops.sub v mean))) (ops.ofNat values.length))
      match ws.getLast? with
      | none => []
      | some cur => cur.filterMap fun e =>
          match e.v.numeric with
          | none => none
          | some v => if c.gt (c.abs (ops.div (ops.sub (ops.ofInt v) mean) std)) thr then some e.id else none

inductive Trend where
  | increasing | decreasing | stable
deriving Repr, DecidableEq

/-- `TimeWindow::average` over abstract floats -/
def avgF {F : Type} (ops : FOps F) (w : List AEv) : Option F :=
  if (avals w).isEmpty then none else some (ops.div (fsum ops ((avals w).map ops.ofInt)) (ops.ofNat (avals w).length))

/-- `calculate_trend(windows, field)`: the averages of the windows that have one, split in two halves (the first gets
`len / 2`), the change of the second half's mean against the first's in percent, compared with ±5 -/
def calcTrend {F : Type} (ops : FOps F) (c : FCmp F) (ws : List (List AEv)) : Trend :=
  if ws.length < 2 then .stable
  else
    let avgs := ws.filterMap (avgF ops)
    if avgs.length < 2 then .stable
    else
      let a := ops.div (fsum ops (avgs.take (avgs.length / 2))) (ops.ofNat (avgs.take (avgs.length / 2)).length)
      let b := ops.div (fsum ops (avgs.drop (avgs.length / 2))) (ops.ofNat (avgs.drop (avgs.length / 2)).length)
      let ch := ops.mul (ops.div (ops.sub b a) a) c.hundred
      if c.gt ch c.five then .increasing else if c.lt ch c.negFive then .decreasing else .stable

/-! ## `StreamAnalytics::moving_average`, `WindowManager` statistics, `TimeWindow` statistics -/

/-- `if windows.len() > k { &windows[windows.len() - k..] } else { windows }` -/
def lastN {α : Type} (k : Nat) (l : List α) : List α := if l.length > k then l.drop (l.length - k) else l

/-- `StreamAnalytics::moving_average(windows, field, k)`: the sum of the window sums over the number of EVENTS of the last `k`
windows (`w.count()`, not the number of numeric values: a non-numeric event lowers the average) -/
def movingAverage (div : Int → Nat → Nat) (ws : List (List Ev)) (k : Nat) : Option Nat :=
  if ws.isEmpty then none
  else if ((lastN k ws).map List.length).sum = 0 then none
  else some (div ((lastN k ws).map aggSum).sum ((lastN k ws).map List.length).sum)

/-- `WindowManager::total_event_count` -/
def WM.totalCount (m : WM) : Nat := (m.windows.map fun w => w.events.length).sum

/-- `WindowManager::aggregate_across_windows(f)`: the sum of `f` over the active windows (the harness passes `|w| w.sum(field)` and
`|w| w.count() as f64`) -/
def WM.across (m : WM) (f : TW → Int) : Int := (m.windows.map f).sum

structure WStats where
  totalWindows : Nat
  totalEvents : Nat
  oldest : Option Nat
  newest : Option Nat
  /-- `average_events_per_window` as a bit pattern (0 = the bit pattern of the literal `0.0` of the empty manager) -/
  avg : Nat
deriving Repr, DecidableEq

/-- `WindowManager::get_statistics` -/
def WM.stats (div : Int → Nat → Nat) (m : WM) : WStats :=
  { totalWindows := m.windows.length, totalEvents := m.totalCount,
    oldest := m.windows.head?.map (·.start), newest := m.windows.getLast?.map (·.start),
    avg := if m.windows.isEmpty then 0 else div (Int.ofNat m.totalCount) m.windows.length }

/-- `TimeWindow::latest_timestamp`: `events.iter().map(|e| e.metadata.timestamp).max()` -/
def TW.latestTs (w : TW) : Option Nat :=
  match w.events with
  | [] => none
  | e :: es => some (es.foldl (fun m x => max m x.ts) e.ts)

/-- `TimeWindow::events_in_range(start, end)`: half open -/
def TW.inRange (w : TW) (a b : Nat) : List Ev := w.events.filter fun x => decide (a ≤ x.ts) && decide (x.ts < b)

/-- `TimeWindow::clear` -/
def TW.clear (w : TW) : TW := { w with events := [] }

/-! ## `StreamAlphaNode::{event_count, window_stats, clear}` -/

/-- `window_duration_ms` of `window_stats` -/
def AWin.durMs : AWin → Option Nat
  | .none => Option.none
  | .sliding d => some d
  | .tumbling d => some d

structure AStats where
  count : Nat
  oldest : Option Nat
  newest : Option Nat
  durMs : Option Nat
deriving Repr, DecidableEq

/-- `window_stats`: the count, the timestamp at the front and at the back of the buffer (arrival order, not the least / greatest
timestamp), the configured duration -/
def Alpha.stats (a : Alpha) : AStats :=
  { count := a.events.length, oldest := a.events.head?.map (·.ts), newest := a.events.getLast?.map (·.ts), durMs := a.window.durMs }

/-- `clear` -/
def Alpha.clear (a : Alpha) : Alpha := { a with events := [] }

/-! ## operators.rs: keyed / grouped / windowed streams -/

/-- `DataStream::key_by` / `group_by`: `map.entry(key).or_default().push(event)` — an association list in the order the keys
first occur (the `HashMap`'s own order is not an observable) -/
def keyBy (k : Ev → Nat) (es : List Ev) : List (Nat × List Ev) := es.foldl (fun g e => addToGroup (k e) e g) []

/-- `WindowedStream::new(events, config)`; `none` = the division by zero of a tumbling window below 1 ms -/
def windowedStream (t : WType) (d cap : Nat) (es : List Ev) : Option (List TW) :=
  match t with
  | .tumbling => wsTumbling d cap es
  | .sliding => some (wsSliding .sliding d cap es)
  | .session => some (wsSliding .session d cap es)

/-- `Iterator::reduce` -/
def reduceL {α : Type} (f : α → α → α) : List α → Option α
  | [] => none
  | x :: xs => some (xs.foldl f x)

/-- `WindowedStream::aggregate(a)`: `a` sees exactly the events of each window, in the window's order -/
def wsAggregate {R : Type} (agg : List Ev → R) (ws : List TW) : List R := ws.map fun w => agg w.events

/-- `WindowedStream::reduce(f)` (`filter_map`: a window without events contributes nothing). `view` injects an event into the
carrier the reducer works on (in the code the carrier is `StreamEvent` itself) -/
def wsReduce {α : Type} (view : Ev → α) (f : α → α → α) (ws : List TW) : List α :=
  ws.filterMap fun w => reduceL f (w.events.map view)

/-- `WindowedStream::flatten` -/
def wsFlatten (ws : List TW) : List Ev := ws.flatMap (·.events)

/-- `KeyedStream::window(config)` followed by `KeyedWindowedStream::aggregate` / `reduce`: each key's events go through
`WindowedStream::new` on their own -/
def windowEach (t : WType) (d cap : Nat) : List (Nat × List Ev) → Option (List (Nat × List TW))
  | [] => some []
  | g :: gs =>
    match windowedStream t d cap g.2, windowEach t d cap gs with
    | some ws, some r => some ((g.1, ws) :: r)
    | _, _ => none

def keyedWindowed (k : Ev → Nat) (t : WType) (d cap : Nat) (es : List Ev) : Option (List (Nat × List TW)) :=
  windowEach t d cap (keyBy k es)

/-- the key selector of the harness reads the string field `k` with `get_string("k").unwrap_or("0")`: key `n` is stored as
`Value::String(n)`, key 0 as no field, key 9 as `Value::Integer(9)` — not a string, so it reads as absent -/
def keyView (k : Nat) : Nat := if k = 9 then 0 else k

/-! ## event.rs: `get_numeric` / `get_string` / `get_boolean` -/

/-- the classes of `Value` a field can hold (strings are those the harness writes: the decimal text of an integer) -/
inductive EVal where
  | number (x : XNum) | integer (i : Int) | string (i : Int) | boolean (b : Bool) | null | missing
deriving Repr, DecidableEq

/-- `get_numeric`: `Number(n) => Some(n)`, `Integer(i) => Some(i as f64)`, anything else / no such field `=> None` -/
def EVal.numeric : EVal → Option XNum
  | .number x => some x
  | .integer i => some (.fin i)
  | _ => none

/-- `get_string` -/
def EVal.str : EVal → Option Int
  | .string i => some i
  | _ => none

/-- `get_boolean` -/
def EVal.bool : EVal → Option Bool
  | .boolean b => some b
  | _ => none

end C12
