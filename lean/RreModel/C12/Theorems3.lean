import RreModel.C12.Lemmas
import RreModel.C12.Clear
/-
C12 — property theorems for windows reused after `clear()` (`Clear.lean`): every history of the component's operations
with `clear()` calls anywhere in between satisfies the spec, where each step after a clear is judged against the empty window.
-/
namespace C12

theorem tw_clear_inv {t d cap w} (h : TWInv t d cap w) : TWInv t d cap w.clear := ⟨h.1, h.2, h.3⟩

theorem tw_stepC_inv {t d cap w} (h : TWInv t d cap w) (op : COp TWOp) : TWInv t d cap (w.stepC op).1 := by
  cases op with
  | op x => exact tw_step_inv h x
  | clear => exact tw_clear_inv h

theorem tw_traceC_ok (div : Int → Nat → Nat) {t d cap} (ops : List (COp TWOp)) (w : TW) (o : TWObs)
    (ho : o.start = w.start ∧ o.stop = w.stop ∧ o.events = w.events)
    (h : TWInv t d cap w) : twRunOkC div t d cap o ops (twTraceC div w ops) = true := by
  induction ops generalizing w o with
  | nil => simp [twTraceC, twRunOkC]
  | cons op ops ih =>
    simp only [twTraceC, twRunOkC, Bool.and_eq_true]
    refine ⟨?_, ih _ _ ⟨rfl, rfl, rfl⟩ (tw_stepC_inv h op)⟩
    cases op with
    | op x => exact tw_step_ok div h o ho x
    | clear =>
      obtain ⟨e1, e2, _⟩ := ho
      have hag := obs_aggs_ok div true w.clear
      simp only [Bool.and_eq_true] at hag
      simp only [twStepOkC, twClearOk, TW.stepC, Bool.and_eq_true, beq_iff_eq]
      exact ⟨⟨⟨⟨⟨rfl, e1.symm⟩, e2.symm⟩, rfl⟩, hag.1⟩, hag.2⟩

/-- Every history of `add_event` / `record` / `clear` calls on a fresh `TimeWindow` satisfies the TimeWindow spec; a `clear`
leaves an empty window with the span where it was, and each later step is judged against what was offered SINCE the clear. -/
theorem tw_clear_model_meets_spec (div : Int → Nat → Nat) (t : WType) (d start cap : Nat) (ops : List (COp TWOp)) :
    twRunOkC div t d cap (twInitObs start d) ops (twTraceC div (TW.new t d start cap) ops) = true :=
  tw_traceC_ok div ops (TW.new t d start cap) (twInitObs start d) ⟨rfl, rfl, rfl⟩ (tw_new_inv t d start cap)

example : (twTraceC (fun _ _ => 0) (TW.new .sliding 5 0 2)
    [.op (.record ⟨0, 10, some 1⟩), .op (.record ⟨1, 12, some 2⟩), .clear, .op (.record ⟨2, 9, some 4⟩)]).map
      (fun o => (o.start, o.stop, o.events.map (·.id))) = [(5, 11, [0]), (7, 13, [0, 1]), (7, 13, []), (4, 10, [2])] := by
  decide

/-- A cleared window is the fresh window of the same configuration at the span the old one had reached: the rest of the history
runs exactly as on that one (nothing else of the past survives a `clear`). -/
theorem tw_clear_restarts (div : Int → Nat → Nat) (w : TW) (ops : List (COp TWOp)) :
    twTraceC div w (.clear :: ops)
      = w.clear.obs div true :: twTraceC div { TW.new w.wtype w.dur w.start w.cap with stop := w.stop } ops := rfl

/-- without clears the extended trace is the old one -/
theorem twTraceC_no_clear (div : Int → Nat → Nat) (w : TW) (ops : List TWOp) :
    twTraceC div w (ops.map .op) = twTrace div w ops := by
  induction ops generalizing w with
  | nil => rfl
  | cons op ops ih => simp only [List.map_cons, twTraceC, twTrace, TW.stepC, ih]

theorem an_traceC_ok (ops : List (COp ANOp)) (a : Alpha) (tr : List ANObs) (hv : a.window.valid)
    (h : anTraceC a ops = some tr) : anRunOkC a.window a.cap a.events ops tr = true := by
  induction ops generalizing a tr with
  | nil => simp [anTraceC] at h; subst h; simp [anRunOkC]
  | cons op ops ih =>
    cases op with
    | clear =>
      simp only [anTraceC] at h
      cases ht : anTraceC a.clear ops with
      | none => simp [ht] at h
      | some rest =>
        simp only [ht, Option.map_some, Option.some.injEq] at h
        subst h
        simp only [anRunOkC, Bool.and_eq_true]
        exact ⟨by simp, ih a.clear rest hv ht⟩
    | op op =>
      simp only [anTraceC] at h
      cases hp : a.process op.now op.pass op.e with
      | none => simp [hp] at h
      | some p =>
        obtain ⟨a', r⟩ := p
        simp only [hp] at h
        cases ht : anTraceC a' ops with
        | none => simp [ht] at h
        | some rest =>
          simp only [ht, Option.map_some, Option.some.injEq] at h
          subst h
          obtain ⟨h1, h2, h3⟩ := an_step_ok hv op hp
          simp only [anRunOkC, Bool.and_eq_true]
          refine ⟨h1, ?_⟩
          have := ih a' rest (h2 ▸ hv) ht
          rw [h2, h3] at this
          exact this

/-- Every history of `process_event` / `clear` calls on a `StreamAlphaNode` (no window, sliding, tumbling with a duration of at
least 1 ms) under any clock readings satisfies the node spec; after a `clear` the buffer is empty and later steps are judged
against what was accepted since. -/
theorem an_clear_model_meets_spec (w : AWin) (cap : Nat) (ops : List (COp ANOp)) (tr : List ANObs) (hv : w.valid)
    (h : anTraceC { window := w, cap := cap, events := [] } ops = some tr) : anRunOkC w cap [] ops tr = true :=
  an_traceC_ok ops { window := w, cap := cap, events := [] } tr hv h

theorem ans_traceC_ok (ops : List (COp ANOp)) (a : AlphaS) :
    ansRunOkC a.timeout a.cap a.last a.events ops (ansTraceC a ops) = true := by
  induction ops generalizing a with
  | nil => simp [ansTraceC, ansRunOkC]
  | cons op ops ih =>
    cases op with
    | clear =>
      simp only [ansTraceC, ansRunOkC, Bool.and_eq_true]
      exact ⟨by simp, ih a.clear⟩
    | op op =>
      obtain ⟨h1, h2, h3, h4⟩ := ans_step_ok a op
      simp only [ansTraceC, ansRunOkC, Bool.and_eq_true]
      refine ⟨h1, ?_⟩
      have := ih (a.process op.now op.pass op.e).1
      rw [h2, h3, h4] at this
      exact this

/-- The same for a node with a session window: after a `clear` there is no open session (the next event of the stream starts
one whatever its distance to the events before the clear). -/
theorem ans_clear_model_meets_spec (timeout cap : Nat) (ops : List (COp ANOp)) :
    ansRunOkC timeout cap none [] ops (ansTraceC { timeout := timeout, cap := cap, events := [], last := none } ops) = true :=
  ans_traceC_ok ops { timeout := timeout, cap := cap, events := [], last := none }

example : (ansTraceC { timeout := 5, cap := 10, events := [], last := none }
    [.op ⟨10, true, ⟨0, 10, none⟩⟩, .op ⟨12, true, ⟨1, 12, none⟩⟩, .clear, .op ⟨13, true, ⟨2, 13, none⟩⟩]).map
      (fun o => o.events.map (·.id)) = [[0], [0, 1], [], [2]] := by decide

end C12
