import RreModel.C11.EngineLemmas
import RreModel.C11.Theorems
import RreModel.C09.Theorems
import RreModel.C09.ExtTheorems
import RreModel.C09.HistTheorems
/-
C11 — history independence of `BackwardEngine` with the CONCRETE search inside (`RreModel/C11/Engine.lean`): for every
naming, initial rule set, configuration, every history (any length) of caller-side fact changes, `set_config`, `query` (plain
and NEGATED goals), `query_aggregate` (well-formed and rejected), KNOWLEDGE-BASE EDITS through `engine.knowledge_base()`
(`add_rule` / `remove_rule` / `set_rule_enabled` / `clear`) and `rebuild_index` on one engine, every call hands back what a
freshly built engine hands back on the same facts — built on the rule set as it is at that step, with the index as fresh as
the last `rebuild_index` made it, and the configuration in force: `C09.query` / `C09.queryNeg` on that step's enabled rules,
candidates (`C09.topCandsHist` / `C09.subCandsHist`), facts and configuration.

Which components of the memo key that needs, exactly: the knowledge-base VERSION, the QUERY and the FACTS (`KeyDet`).  Not
`max_solutions` (the only code that changes it without `set_config`, `query_aggregate`, switches memoisation off for its inner
query — fix e8cfd71 —, and `set_config` empties the cache), not strategy / `max_depth` (only `set_config` changes them), nothing
about the index (only `rebuild_index` changes it, and it empties the cache — fix 092f94f).  One witness per ingredient:
`key_needs_facts`, `key_needs_query`, `key_needs_kb_version` (F-C09g), `set_config_must_clear`, `rebuild_must_clear`,
`aggregate_needs_memo_off`.
-/
namespace C11
open C09 (Atom Rule Strategy Facts Naming QueryOut)

section generic
variable {Q K : Type} [DecidableEq K]

/-- **History independence, general form** (any search function of the rule state, any key that determines version, query and
facts, any set `P` of admissible enumerations of the candidate `HashSet`): along every history — knowledge-base edits and
`rebuild_index` included — whose `query` steps enumerate by some `ord ∈ P`, started on an engine whose cache satisfies the
invariant (a new engine does), every step satisfies `StepFresh` — a `query` hands back the verdict a fresh engine (present
rules, index as last built, configuration in force) gives on the same facts for some enumeration in `P`; when it searched,
for its own enumeration, with the fresh engine's facts; a hit leaves the facts alone; every other step (aggregates included)
does exactly what a fresh engine does. -/
theorem engine_history_fresh (S : Search Q) (nm : Naming) (nf : Nat) (key : Nat → Q → Nat → Facts → K) (P : Ord → Prop)
    (hk : KeyDet key) (h : List (Step Q)) (s : HState K) (he : EngCacheOK S key P s.1) (hO : OrdsIn P h) :
    HistoryFresh S nm nf key P s h := by
  induction h generalizing s with
  | nil => trivial
  | cons st rest ih =>
    have h1 := engineStep_ok S nm nf key P hk s he st (fun q ord hq => hO st (List.mem_cons_self ..) q ord hq)
    exact ⟨h1.1, ih _ h1.2 (fun st' hm => hO st' (List.mem_cons_of_mem _ hm))⟩

/-- the verdict of a step that satisfies `StepFresh` under the one enumeration `ord0` is the fresh engine's -/
theorem stepFresh_verdict (S : Search Q) (nm : Naming) (nf : Nat) (key : Nat → Q → Nat → Facts → K) (ord0 : Ord)
    (s : HState K) (st : Step Q) (hst : ∀ q ord, st = .query q ord → ord = ord0)
    (h : StepFresh S nm nf key (· = ord0) s st) :
    verdictOf (engineStep S nm nf key s st).2 = verdictOf (engineStep S nm nf key (s.1.fresh, s.2) st).2 := by
  obtain ⟨e, f⟩ := s
  cases st with
  | query q ord =>
    have ho := hst q ord rfl
    subst ho
    obtain ⟨⟨ord', hP, hv⟩, _, _⟩ := h
    subst hP
    simp only [engineStep, verdictOf, Option.map_some, Eng.fresh]
    rw [engineQuery_new]
    simpa [outOf] using hv
  | setFacts f' => exact congrArg verdictOf h
  | setConfig c => exact congrArg verdictOf h
  | aggregate q ord => exact congrArg verdictOf h
  | badAggregate => exact congrArg verdictOf h
  | kb op => exact congrArg verdictOf h
  | rebuild => exact congrArg verdictOf h

/-- **History independence as the list equation the harness checks**, general form: when the calls of a history
enumerate their candidates the same way (`ord0`, arbitrary), the verdicts of the long-lived engine are, call by call,
the verdicts of the fresh engines built along the way. -/
theorem engine_history_verdicts (S : Search Q) (nm : Naming) (nf : Nat) (key : Nat → Q → Nat → Facts → K) (ord0 : Ord)
    (hk : KeyDet key) (h : List (Step Q)) (s : HState K) (he : EngCacheOK S key (· = ord0) s.1) (hO : OrdsIn (· = ord0) h) :
    (runFrom S nm nf key s h).map verdictOf = (freshAlong S nm nf key s h).map verdictOf := by
  induction h generalizing s with
  | nil => rfl
  | cons st rest ih =>
    have hst : ∀ q ord, st = .query q ord → ord = ord0 := fun q ord hq => hO st (List.mem_cons_self ..) q ord hq
    have h1 := engineStep_ok S nm nf key (· = ord0) hk s he st hst
    simp only [runFrom, freshAlong, List.map_cons]
    rw [stepFresh_verdict S nm nf key ord0 s st hst h1.1]
    congr 1
    exact ih _ h1.2 (fun st' hm => hO st' (List.mem_cons_of_mem _ hm))

/-- the engine with memoisation on, run on facts-then-query pairs (no edit of the rule state `r` in between), IS the generic
cache model of `Model.lean` (its abstract `answer` instantiated with the search on `r` under the engine's configuration) — so
everything proved about that model (`key_collision_stale`) is about the engine -/
theorem engine_refines_cache_model (S : Search Q) (nm : Naming) (nf : Nat) (key : Nat → Q → Nat → Facts → K) (r : C09.Eng)
    (c : Config) (hc : c.memo = true) (ord : Ord) (h : List (Facts × Q)) (cache : List (K × Bool)) (f0 : Facts) :
    (runFrom S nm nf key (⟨r, c, cache⟩, f0) (pairSteps ord h)).filterMap verdictOf =
      answers true (fun q f => key r.kb.version q c.maxSol f) (fun q f => (S r c c.maxSol q ord f).provable) ⟨cache⟩ h := by
  induction h generalizing cache f0 with
  | nil => rfl
  | cons p rest ih =>
    obtain ⟨f, q⟩ := p
    simp only [pairSteps, runFrom, engineStep, answers, run, List.map_cons, List.filterMap_cons, verdictOf, Option.map_none,
      Option.map_some]
    cases hl : lookup cache (key r.kb.version q c.maxSol f) with
    | some b =>
      have hq := engineQuery_hit S nf key ⟨r, c, cache⟩ q ord f b (by simp [hc, hl])
      simp only [hq, query, hl, if_true]
      congr 1
      exact ih cache f
    | none =>
      have hq := engineQuery_miss S nf key ⟨r, c, cache⟩ q ord f (by simp [hc, hl])
      simp only [hq, query, hl, if_true, hc, outOf]
      congr 1
      exact ih _ _

/-- **The key hypothesis is necessary** (`key_collision_stale` carried over to the engine): whenever the key confuses two
(query, facts) pairs on which the search answers differently, the engine asked one and then the other hands back the first
verdict twice — not what fresh engines answer. -/
theorem engine_key_collision_stale (S : Search Q) (nm : Naming) (nf : Nat) (key : Nat → Q → Nat → Facts → K) (r : C09.Eng)
    (c : Config) (hc : c.memo = true) (ord : Ord) (q q' : Q) (f f' f0 : Facts)
    (hk : key r.kb.version q c.maxSol f = key r.kb.version q' c.maxSol f')
    (ha : (S r c c.maxSol q ord f).provable ≠ (S r c c.maxSol q' ord f').provable) :
    (runFrom S nm nf key (Eng.new r c, f0) (pairSteps ord [(f, q), (f', q')])).filterMap verdictOf
        = [(S r c c.maxSol q ord f).provable, (S r c c.maxSol q ord f).provable]
    ∧ (runFrom S nm nf key (Eng.new r c, f0) (pairSteps ord [(f, q), (f', q')])).filterMap verdictOf
        ≠ [(S r c c.maxSol q ord f).provable, (S r c c.maxSol q' ord f').provable] := by
  have hb := engine_refines_cache_model S nm nf key r c hc ord [(f, q), (f', q')] [] f0
  have hs := key_collision_stale (fun q f => key r.kb.version q c.maxSol f) (fun q f => (S r c c.maxSol q ord f).provable)
    q q' f f' hk ha
  unfold Eng.new
  rw [hb]
  exact ⟨hs.1, by simpa using hs.2⟩

end generic

/-! ### the engine of the code: `C09.query` / `C09.queryNeg` inside -/

/-- the driver's engine is the model's engine (`C09.query_eq_fast`, `C09.queryNeg_eq_fast`) -/
theorem codeSearch_eq_fast (nm : Naming) : codeSearch nm = fastSearch nm := by
  funext r c ms q ord f
  simp only [codeSearch, fastSearch, searchG]
  split
  · exact C09.queryNeg_eq_fast ..
  · exact C09.query_eq_fast ..

/-- what a freshly built engine answers IS the search of C09 on that step's rule state, configuration, candidate lists and
facts: `C09.query` for a plain goal (for the depth-first strategy: `C09.histQuery`), `C09.queryNeg` for `NOT <goal>` (the
pattern text looked up is then the whole query) -/
theorem fresh_query_is_C09_query {K : Type} [DecidableEq K] (nm : Naming) (r : C09.Eng) (nf : Nat)
    (key : Nat → GQ → Nat → Facts → K) (c : Config) (g : Atom) (ord : Ord) (f : Facts) :
    (engineStep (codeSearch nm) nm nf key (Eng.new r c, f) (.query ⟨g, false⟩ ord)).2 =
      some (outOf nf (C09.query (C09.enabledRules r.krules) c.strategy c.maxDepth c.maxSol (C09.subCandsHist nm r) g
        (ord ((C09.topCandsHist nm r (C09.patternOf nm g)).1.map (C09.remap r.krules))) (storeOf f)))
    ∧ (engineStep (codeSearch nm) nm nf key (Eng.new r c, f) (.query ⟨g, true⟩ ord)).2 =
      some (outOf nf (C09.queryNeg (C09.enabledRules r.krules) c.strategy c.maxDepth c.maxSol (C09.subCandsHist nm r) g
        (ord ((C09.topCandsHist nm r ("NOT " ++ C09.patternOf nm g)).1.map (C09.remap r.krules))) (storeOf f)))
    ∧ (c.strategy = .dfs →
      (engineStep (codeSearch nm) nm nf key (Eng.new r c, f) (.query ⟨g, false⟩ ord)).2 =
        some (outOf nf (C09.histQuery nm r c.maxDepth c.maxSol g ord (storeOf f)))) := by
  refine ⟨?_, ?_, ?_⟩
  · simp only [engineStep, engineQuery_new]
    rfl
  · simp only [engineStep, engineQuery_new]
    rfl
  · intro hs
    simp only [engineStep, engineQuery_new]
    simp only [codeSearch, searchG, topOf, patOf, C09.histQuery, hs]
    rfl

/-- **with a fresh index, the engine of the comparison is `BackwardEngine::with_config` on the present rule list**: the
search on a rule state whose index was built from the live rules (`C09.indexFresh`: no edit since construction or the last
`rebuild_index`) is the search on `C09.engNew` of those rules — only the version counter differs, which no search reads -/
theorem fresh_index_search_eq_new (nm : Naming) (r : C09.Eng) (h : C09.indexFresh nm r = true) :
    codeSearch nm r = codeSearch nm (C09.engNew nm r.kb.rules) := by
  have hidx : r.idx = C09.crulesN nm r.kb.rules := of_decide_eq_true h
  have hsub : C09.subCandsHist nm r = C09.subCandsHist nm (C09.engNew nm r.kb.rules) := by
    funext a; simp [C09.subCandsHist, C09.Eng.krules, C09.engNew]
  have hk : (C09.engNew nm r.kb.rules).krules = r.krules := rfl
  have htop : ∀ q, topOf nm (C09.engNew nm r.kb.rules) q = topOf nm r q := by
    intro q; simp [topOf, C09.topCandsHist, C09.engNew, C09.Eng.krules, hidx]
  funext c ms q ord f
  simp only [codeSearch, searchG, htop, hk, ← hsub]

theorem stateAfter_append {Q K : Type} [DecidableEq K] (S : Search Q) (nm : Naming) (nf : Nat) (key : Nat → Q → Nat → Facts → K)
    (s0 : HState K) (h h' : List (Step Q)) :
    stateAfter S nm nf key s0 (h ++ h') = stateAfter S nm nf key (stateAfter S nm nf key s0 h) h' := by
  induction h generalizing s0 with
  | nil => rfl
  | cons st rest ih => exact ih _

theorem query_after_rebuild {K : Type} [DecidableEq K] (nm : Naming) (nf : Nat) (key : Nat → GQ → Nat → Facts → K)
    (s1 : HState K) (q : GQ) (ord : Ord) :
    let s := (engineStep (codeSearch nm) nm nf key s1 .rebuild).1
    (engineStep (codeSearch nm) nm nf key s (.query q ord)).2 =
      (engineStep (codeSearch nm) nm nf key (Eng.new (C09.engNew nm s.1.rules.kb.rules) s.1.cfg, s.2) (.query q ord)).2 := by
  obtain ⟨e, f⟩ := s1
  simp only [engineStep, engineQuery_new]
  rw [fresh_index_search_eq_new nm _ (C09.rebuild_index_fresh nm e.rules)]
  rfl

/-- **after `rebuild_index` the engine answers its next query exactly like a newly constructed one**: whatever the history
before (edits, queries, reconfigurations), the call right after a `rebuild_index` hands back verdict, count, miss and facts
of `BackwardEngine::with_config(<the present rule list>, <the configuration in force>)` on the same facts -/
theorem after_rebuild_eq_new {K : Type} [DecidableEq K] (nm : Naming) (nf : Nat) (key : Nat → GQ → Nat → Facts → K)
    (s0 : HState K) (h : List (Step GQ)) (q : GQ) (ord : Ord) :
    let s := stateAfter (codeSearch nm) nm nf key s0 (h ++ [.rebuild])
    (engineStep (codeSearch nm) nm nf key s (.query q ord)).2 =
      (engineStep (codeSearch nm) nm nf key (Eng.new (C09.engNew nm s.1.rules.kb.rules) s.1.cfg, s.2) (.query q ord)).2 := by
  intro s
  have hs : s = (engineStep (codeSearch nm) nm nf key (stateAfter (codeSearch nm) nm nf key s0 h) .rebuild).1 := by
    show stateAfter (codeSearch nm) nm nf key s0 (h ++ [.rebuild]) = _
    rw [stateAfter_append]
    rfl
  rw [hs]
  exact query_after_rebuild nm nf key _ q ord

theorem keyDet_keyCode : KeyDet keyCode := by
  intro v q m f v' q' m' f' h
  simp only [keyCode, Prod.mk.injEq] at h
  exact ⟨h.1, h.2.1, h.2.2.2⟩

/-- `max_solutions` is not needed in the key -/
theorem keyDet_without_maxSol : KeyDet (fun (v : Nat) (q : GQ) (_ : Nat) (f : Facts) => (v, q, f)) := by
  intro v q m f v' q' m' f' h
  simp only [Prod.mk.injEq] at h
  exact h

/-- **History independence of the engine of the code.**  For every naming, initial rule state (any knowledge base, any index),
field universe, initial configuration and facts, every history of `setFacts` / `set_config` / `query` (plain or negated) /
`query_aggregate` / knowledge-base edit / `rebuild_index` steps whose calls enumerate the candidate `HashSet` alike: the
verdicts of ONE engine (memo key = kb version, query, `max_solutions`, facts; search = `C09.query` / `C09.queryNeg` on the
enabled live rules with `C09.topCandsHist` / `C09.subCandsHist`) are call by call the verdicts of freshly built engines —
built on the rule set as it is at that step, with the index as fresh as the last `rebuild_index` made it
(`fresh_query_is_C09_query`; right after a `rebuild_index`: `after_rebuild_eq_new`). -/
theorem engine_history_eq_fresh (nm : Naming) (r0 : C09.Eng) (nf : Nat) (c0 : Config) (f0 : Facts) (ord0 : Ord)
    (h : List (Step GQ)) (hO : OrdsIn (· = ord0) h) :
    (runFrom (codeSearch nm) nm nf keyCode (Eng.new r0 c0, f0) h).map verdictOf =
      (freshAlong (codeSearch nm) nm nf keyCode (Eng.new r0 c0, f0) h).map verdictOf :=
  engine_history_verdicts _ nm nf keyCode ord0 keyDet_keyCode h _ (engCacheOK_new _ _ _ r0 c0) hO

/-- … and when every call enumerates as it likes (any `P` containing the enumerations used): every verdict is a verdict
the search of C09 gives on that step's rule state / facts / configuration for an enumeration in `P` — "never an answer that a
fresh engine would not give" —, with the exact `StepFresh` clauses about the facts handed back. -/
theorem engine_history_admissible (nm : Naming) (r0 : C09.Eng) (nf : Nat) (c0 : Config) (f0 : Facts) (P : Ord → Prop)
    (h : List (Step GQ)) (hO : OrdsIn P h) :
    HistoryFresh (codeSearch nm) nm nf keyCode P (Eng.new r0 c0, f0) h :=
  engine_history_fresh _ nm nf keyCode P keyDet_keyCode h _ (engCacheOK_new _ _ _ r0 c0) hO

/-- the executable the driver runs computes the same histories -/
theorem engine_eq_fast {K : Type} [DecidableEq K] (nm : Naming) (nf : Nat) (key : Nat → GQ → Nat → Facts → K) (s : HState K)
    (h : List (Step GQ)) :
    runFrom (codeSearch nm) nm nf key s h = runFrom (fastSearch nm) nm nf key s h := by
  rw [codeSearch_eq_fast]

/-! ### witnesses: every ingredient is needed (kernel-evaluated on the search of the code) -/

def wNm : Naming := ⟨fun i => (["A", "B", "C", "D", "E", "F", "G", "Y"][i]?).getD "?", C09.ruleNameR⟩
def wCfg : Config := ⟨.dfs, 2, 1, true⟩
/-- one rule `G == 1 ⇒ F := true` (fields: 5 = F, 6 = G) -/
def wRule : Rule := { cond := .atom ⟨6, .eq, .num 1⟩, acts := [(5, .bool true)], more := [] }
/-- the engine built on that rule (`R0`) -/
def wEng : C09.Eng := C09.engNew wNm (namedRules [⟨wRule, true⟩])
/-- the engine built on no rule at all -/
def wEng0 : C09.Eng := C09.engNew wNm []
def wGoal : GQ := ⟨⟨5, .eq, .bool true⟩, false⟩
def wFacts : Facts := [(6, .num 1)]

/-- **a knowledge-base edit moves the version or changes nothing** (`KnowledgeBase::add_rule` / `remove_rule` /
`set_rule_enabled` / `clear`, `C09.kbStep`): the version never goes down, and an edit that leaves it where it was (a rejected
`add_rule` of an existing name, `remove_rule` / `set_rule_enabled` of an unknown one) left the rule list as it was — which is why
a memo entry rendered for the present version can be trusted and every other entry is dead -/
theorem kb_edit_moves_version_or_noop (kb : C09.Kb) (op : C09.KbOp) :
    kb.version ≤ (C09.kbStep kb op).version ∧ ((C09.kbStep kb op).version = kb.version → C09.kbStep kb op = kb) :=
  ⟨kbStep_version_le kb op, kbStep_version_eq kb op⟩

-- a rejected add (the name exists) and an effective one; `set_rule_enabled` with the flag it already has still counts
example : (C09.kbStep wEng.kb (.add 0 ⟨wRule, false⟩)).version = wEng.kb.version
    ∧ (C09.kbStep wEng.kb (.add 3 ⟨wRule, false⟩)).version = wEng.kb.version + 1
    ∧ (C09.kbStep wEng.kb (.enable 0 true)).version = wEng.kb.version + 1
    ∧ (C09.kbStep wEng.kb (.remove 5)).version = wEng.kb.version := by decide +kernel

/-- **The facts are needed in the key** (F-C11, a4f1d19): keyed by version, query and `max_solutions` only, `F == true` asked
on facts without `G` and again after `G = 1` was asserted is answered `false` twice; the fresh engine derives `F`. -/
theorem key_needs_facts :
    (runFrom (codeSearch wNm) wNm 8 (fun v q m _ => (v, q, m)) (Eng.new wEng wCfg, [])
        (pairSteps id [([], wGoal), (wFacts, wGoal)])).filterMap verdictOf = [false, false]
    ∧ (freshAlong (codeSearch wNm) wNm 8 (fun v q m _ => (v, q, m)) (Eng.new wEng wCfg, [])
        (pairSteps id [([], wGoal), (wFacts, wGoal)])).filterMap verdictOf = [false, true] := by
  decide +kernel

/-- **The query is needed in the key**: keyed by version, `max_solutions` and facts only, `F == false` asked after
`F == true` on the same facts is answered `true`; and so is `NOT F == true` asked after `F == true` on facts that hold `F`
(the negation is part of the query). -/
theorem key_needs_query :
    (runFrom (codeSearch wNm) wNm 8 (fun v _ m f => (v, m, f)) (Eng.new wEng wCfg, wFacts)
        [.query wGoal id, .setFacts wFacts, .query ⟨⟨5, .eq, .bool false⟩, false⟩ id]).filterMap verdictOf = [true, true]
    ∧ (freshAlong (codeSearch wNm) wNm 8 (fun v _ m f => (v, m, f)) (Eng.new wEng wCfg, wFacts)
        [.query wGoal id, .setFacts wFacts, .query ⟨⟨5, .eq, .bool false⟩, false⟩ id]).filterMap verdictOf = [true, false]
    ∧ (runFrom (codeSearch wNm) wNm 8 (fun v _ m f => (v, m, f)) (Eng.new wEng wCfg, [(5, .bool true)])
        [.query wGoal id, .query ⟨wGoal.atom, true⟩ id]).filterMap verdictOf = [true, true]
    ∧ (freshAlong (codeSearch wNm) wNm 8 (fun v _ m f => (v, m, f)) (Eng.new wEng wCfg, [(5, .bool true)])
        [.query wGoal id, .query ⟨wGoal.atom, true⟩ id]).filterMap verdictOf = [true, false] := by
  decide +kernel

/-- **The knowledge-base version is needed in the key** (F-C09g, 092f94f): keyed by query, `max_solutions` and facts only,
`F == true` asked on an engine without rules (not provable), then `add_rule(G == 1 ⇒ F := true)` through
`engine.knowledge_base()`, then the same query on the same facts: the engine answers `false` from its cache; a fresh engine
on the rule set as it is now — same stale (empty) index: the linear fallback finds the new rule — proves it.  With the
version in the key (`keyCode`) the second call searches and proves it too. -/
theorem key_needs_kb_version :
    let h : List (Step GQ) := [.query wGoal id, .kb (.add 0 ⟨wRule, true⟩), .query wGoal id]
    (runFrom (codeSearch wNm) wNm 8 (fun _ q m f => (q, m, f)) (Eng.new wEng0 wCfg, wFacts) h).filterMap verdictOf
        = [false, false]
    ∧ (freshAlong (codeSearch wNm) wNm 8 (fun _ q m f => (q, m, f)) (Eng.new wEng0 wCfg, wFacts) h).filterMap verdictOf
        = [false, true]
    ∧ (runFrom (codeSearch wNm) wNm 8 keyCode (Eng.new wEng0 wCfg, wFacts) h).filterMap verdictOf = [false, true] := by
  decide +kernel

/-- **`set_config` must empty the cache** (strategy and `max_depth` are not in the key): an engine that kept its cache
over `set_config(strategy := Iterative)` would answer `G == 1` — true in the facts, no rule concludes it — with the
depth-first verdict `true`; the iterative search of a fresh engine says `false` (no candidate rule). -/
theorem set_config_must_clear :
    let g : GQ := ⟨⟨6, .eq, .num 1⟩, false⟩
    let c' : Config := { wCfg with strategy := .iterative }
    let e1 := (engineQuery (codeSearch wNm) 8 keyCode (Eng.new wEng0 wCfg) g id wFacts).2
    (engineQuery (codeSearch wNm) 8 keyCode { e1 with cfg := c' } g id wFacts).1.verdict = true
    ∧ (engineQuery (codeSearch wNm) 8 keyCode (Eng.new wEng0 c') g id wFacts).1.verdict = false
    ∧ (engineStep (codeSearch wNm) wNm 8 keyCode (e1, wFacts) (.setConfig c')).1.1.cache = [] := by
  decide +kernel

/-- **`rebuild_index` must empty the cache** (nothing about the index is in the key; fix 092f94f): `R0: Y == true ⇒ F` is
replaced by `R2: G == 1 ⇒ F` (remove + add: the version moves twice); the stale index still answers `F` with the name `R0`,
which keeps the linear fallback off, so `F == true` is NOT provable — memoised under the present version.  `rebuild_index`
does not move the version: an engine that kept its cache across it would answer `false` again; the engine of the code
(cache emptied) and a fresh engine find `R2`. -/
theorem rebuild_must_clear :
    let r0 : C09.KRule := ⟨⟨.atom ⟨7, .eq, .bool true⟩, [(5, .bool true)], []⟩, true⟩
    let e0 : C09.Eng := C09.engNew wNm (namedRules [r0])
    let h : List (Step GQ) := [.kb (.remove 0), .kb (.add 2 ⟨wRule, true⟩), .query wGoal id]
    let s1 := stateAfter (codeSearch wNm) wNm 8 keyCode (Eng.new e0 wCfg, wFacts) h
    let kept : HState _ := ({ s1.1 with rules := C09.engStep wNm s1.1.rules .rebuild }, s1.2)
    (runFrom (codeSearch wNm) wNm 8 keyCode (Eng.new e0 wCfg, wFacts) h).filterMap verdictOf = [false]
    ∧ (engineStep (codeSearch wNm) wNm 8 keyCode kept (.query wGoal id)).2.map (fun o => (o.verdict, o.hit)) = some (false, true)
    ∧ (runFrom (codeSearch wNm) wNm 8 keyCode s1 [.rebuild, .query wGoal id]).filterMap
        (fun o => o.map fun x => (x.verdict, x.hit)) = [(true, false)]
    ∧ (engineStep (codeSearch wNm) wNm 8 keyCode (kept.1.fresh, kept.2) (.query wGoal id)).2.map (·.verdict) = some true := by
  decide +kernel

/-- **`query_aggregate` must not go through the cache** (F-C11b, e8cfd71): with memoisation left on and
`max_solutions = usize::MAX` for the inner query, the second `count(..)` on unchanged facts is a cache hit and counts 0
solutions; the engine of the code (and a fresh one) counts 1 both times. -/
theorem aggregate_needs_memo_off :
    let cMax : Config := { wCfg with maxSol := usizeMax }
    let r1 := engineQuery (codeSearch wNm) 8 keyCode (Eng.new wEng cMax) wGoal id wFacts
    let r2 := engineQuery (codeSearch wNm) 8 keyCode r1.2 wGoal id r1.1.after
    (r1.1.count, r2.1.count, r2.1.hit) = (1, 0, true)
    ∧ (runFrom (codeSearch wNm) wNm 8 keyCode (Eng.new wEng wCfg, wFacts) [.aggregate wGoal id, .aggregate wGoal id]).map
        (fun o => o.map (·.count)) = [some 1, some 1] := by
  decide +kernel

/-- what a hit does NOT do: derive.  `F == true` proven (facts now hold the derived `F`), the caller puts the old facts
back and asks again: the hit says `true` and leaves the facts without `F`; a fresh engine hands back `F = true` too.
(The property speaks of `provable`, which agrees; the facts handed back are history dependent in this way.) -/
theorem hit_skips_derivation :
    runFrom (codeSearch wNm) wNm 8 keyCode (Eng.new wEng wCfg, wFacts) [.query wGoal id, .setFacts wFacts, .query wGoal id]
      = [some ⟨true, 1, false, [(5, .bool true), (6, .num 1)]⟩, none, some ⟨true, 0, true, wFacts⟩]
    ∧ freshAlong (codeSearch wNm) wNm 8 keyCode (Eng.new wEng wCfg, wFacts) [.query wGoal id, .setFacts wFacts, .query wGoal id]
      = [some ⟨true, 1, false, [(5, .bool true), (6, .num 1)]⟩, none, some ⟨true, 1, false, [(5, .bool true), (6, .num 1)]⟩] := by
  decide +kernel

/-! ### non-vacuity -/

-- a history with a genuine hit (2nd call), a negated goal, a reconfiguration, aggregates, a rule disabled and enabled again
-- (the version moves: the verdict memoised before is not used), `rebuild_index`
example :
    (runFrom (codeSearch wNm) wNm 8 keyCode (Eng.new wEng wCfg, [])
      [.query wGoal id, .query wGoal id, .setFacts wFacts, .query wGoal id, .aggregate wGoal id,
       .setConfig { wCfg with strategy := .bfs }, .badAggregate, .query wGoal id,
       .setFacts wFacts, .kb (.enable 0 false), .query wGoal id, .query ⟨wGoal.atom, true⟩ id, .kb (.enable 0 true), .rebuild,
       .query wGoal id]).filterMap (fun o => o.map fun x => (x.verdict, x.hit))
      = [(false, false), (false, true), (true, false), (true, false), (true, false), (false, false), (false, false),
         (true, false)] := by
  decide +kernel
example : OrdsIn (· = id) [Step.query wGoal id, .setFacts wFacts, .kb .clear, .aggregate wGoal List.reverse, .rebuild,
    .query wGoal id] := by
  intro st hm q ord hq
  simp only [List.mem_cons, List.not_mem_nil, or_false] at hm
  rcases hm with h | h | h | h | h | h <;> subst h <;> cases hq <;> rfl
-- `engine_key_collision_stale` applies to `key_needs_facts`'s key
example : (fun (v : Nat) (q : GQ) (m : Nat) (_ : Facts) => (v, q, m)) wEng.kb.version wGoal 1 []
      = (fun v q m _ => (v, q, m)) wEng.kb.version wGoal 1 wFacts
    ∧ (codeSearch wNm wEng wCfg 1 wGoal id []).provable ≠ (codeSearch wNm wEng wCfg 1 wGoal id wFacts).provable := by
  decide +kernel
example : codeSearch wNm wEng wCfg 1 wGoal id wFacts = fastSearch wNm wEng wCfg 1 wGoal id wFacts := by rw [codeSearch_eq_fast]
-- `fresh_index_search_eq_new` / `after_rebuild_eq_new`: an edited engine whose index was rebuilt
example : C09.indexFresh wNm (C09.engStep wNm (C09.engStep wNm wEng0 (.kb (.add 0 ⟨wRule, true⟩))) .rebuild) = true
    ∧ C09.indexFresh wNm (C09.engStep wNm wEng0 (.kb (.add 0 ⟨wRule, true⟩))) = false := by decide +kernel

end C11
