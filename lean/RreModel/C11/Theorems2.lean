import RreModel.C11.EngineLemmas
import RreModel.C11.Theorems
import RreModel.C09.Theorems
/-
C11 — history independence of `BackwardEngine` with the CONCRETE search inside (`RreModel/C11/Engine.lean`): for every
rule set, every configuration, every history (any length) of caller-side fact changes, `set_config`, `query`,
`query_aggregate` (well-formed and rejected) on one engine, every call hands back what a freshly built engine with the
configuration in force hands back on the same facts: `C09.query` on that step's rules / facts / configuration.

Which components of the memo key that needs, exactly: the QUERY and the FACTS (`KeyDet`).  Not `max_solutions` (the only
code that changes it without `set_config`, `query_aggregate`, switches memoisation off for its inner query — fix e8cfd71 —,
and `set_config` empties the cache), not strategy / `max_depth` (only `set_config` changes them).  One witness per
ingredient: `key_needs_facts`, `key_needs_query`, `set_config_must_clear`, `aggregate_needs_memo_off`.
-/
namespace C11
open C09 (Atom Rule Strategy Facts Naming QueryOut)

section generic
variable {Q K : Type} [DecidableEq K]

/-- **History independence, general form** (any search function, any key that determines query and facts, any set `P`
of admissible enumerations of the candidate `HashSet`): along every history whose `query` steps enumerate by some
`ord ∈ P`, started on an engine whose cache satisfies the invariant (a new engine does), every step satisfies
`StepFresh` — a `query` hands back the verdict a fresh engine gives on the same facts under the configuration in force
for some enumeration in `P`; when it searched, for its own enumeration, with the fresh engine's facts; a hit leaves the
facts alone; every other step (aggregates included) does exactly what a fresh engine does. -/
theorem engine_history_fresh (S : Search Q) (nf : Nat) (key : Q → Nat → Facts → K) (P : Ord → Prop) (hk : KeyDet key)
    (h : List (Step Q)) (s : HState K) (he : EngCacheOK S key P s.1) (hO : OrdsIn P h) :
    HistoryFresh S nf key P s h := by
  induction h generalizing s with
  | nil => trivial
  | cons st rest ih =>
    have h1 := engineStep_ok S nf key P hk s he st (fun q ord hq => hO st (List.mem_cons_self ..) q ord hq)
    exact ⟨h1.1, ih _ h1.2 (fun st' hm => hO st' (List.mem_cons_of_mem _ hm))⟩

/-- the verdict of a step that satisfies `StepFresh` under the one enumeration `ord0` is the fresh engine's -/
theorem stepFresh_verdict (S : Search Q) (nf : Nat) (key : Q → Nat → Facts → K) (ord0 : Ord) (s : HState K) (st : Step Q)
    (hst : ∀ q ord, st = .query q ord → ord = ord0)
    (h : StepFresh S nf key (· = ord0) s st) :
    verdictOf (engineStep S nf key s st).2 = verdictOf (engineStep S nf key (Eng.new s.1.cfg, s.2) st).2 := by
  obtain ⟨e, f⟩ := s
  cases st with
  | query q ord =>
    have ho := hst q ord rfl
    subst ho
    obtain ⟨⟨ord', hP, hv⟩, _, _⟩ := h
    subst hP
    simp only [engineStep, verdictOf, Option.map_some]
    rw [engineQuery_new]
    simpa [outOf] using hv
  | setFacts f' => exact congrArg verdictOf h
  | setConfig c => exact congrArg verdictOf h
  | aggregate q ord => exact congrArg verdictOf h
  | badAggregate => exact congrArg verdictOf h

/-- **History independence as the list equation the harness checks**, general form: when the calls of a history
enumerate their candidates the same way (`ord0`, arbitrary), the verdicts of the long-lived engine are, call by call,
the verdicts of the fresh engines built along the way. -/
theorem engine_history_verdicts (S : Search Q) (nf : Nat) (key : Q → Nat → Facts → K) (ord0 : Ord) (hk : KeyDet key)
    (h : List (Step Q)) (s : HState K) (he : EngCacheOK S key (· = ord0) s.1) (hO : OrdsIn (· = ord0) h) :
    (runFrom S nf key s h).map verdictOf = (freshAlong S nf key s h).map verdictOf := by
  induction h generalizing s with
  | nil => rfl
  | cons st rest ih =>
    have hst : ∀ q ord, st = .query q ord → ord = ord0 := fun q ord hq => hO st (List.mem_cons_self ..) q ord hq
    have h1 := engineStep_ok S nf key (· = ord0) hk s he st hst
    simp only [runFrom, freshAlong, List.map_cons]
    rw [stepFresh_verdict S nf key ord0 s st hst h1.1]
    congr 1
    exact ih _ h1.2 (fun st' hm => hO st' (List.mem_cons_of_mem _ hm))

/-- the engine with memoisation on, run on facts-then-query pairs, IS the generic cache model of `Model.lean` (its
abstract `answer` instantiated with the search under the engine's configuration) — so everything proved about that model
(`key_collision_stale`) is about the engine -/
theorem engine_refines_cache_model (S : Search Q) (nf : Nat) (key : Q → Nat → Facts → K) (c : Config) (hc : c.memo = true)
    (ord : Ord) (h : List (Facts × Q)) (cache : List (K × Bool)) (f0 : Facts) :
    (runFrom S nf key (⟨c, cache⟩, f0) (pairSteps ord h)).filterMap verdictOf =
      answers true (fun q f => key q c.maxSol f) (fun q f => (S c c.maxSol q ord f).provable) ⟨cache⟩ h := by
  induction h generalizing cache f0 with
  | nil => rfl
  | cons p rest ih =>
    obtain ⟨f, q⟩ := p
    simp only [pairSteps, runFrom, engineStep, answers, run, List.map_cons, List.filterMap_cons, verdictOf, Option.map_none,
      Option.map_some]
    cases hl : lookup cache (key q c.maxSol f) with
    | some b =>
      have hq := engineQuery_hit S nf key ⟨c, cache⟩ q ord f b (by simp [hc, hl])
      simp only [hq, query, hl, if_true]
      congr 1
      exact ih cache f
    | none =>
      have hq := engineQuery_miss S nf key ⟨c, cache⟩ q ord f (by simp [hc, hl])
      simp only [hq, query, hl, if_true, hc, outOf]
      congr 1
      exact ih _ _

/-- **The key hypothesis is necessary** (`key_collision_stale` carried over to the engine): whenever the key confuses two
(query, facts) pairs on which the search answers differently, the engine asked one and then the other hands back the first
verdict twice — not what fresh engines answer. -/
theorem engine_key_collision_stale (S : Search Q) (nf : Nat) (key : Q → Nat → Facts → K) (c : Config) (hc : c.memo = true)
    (ord : Ord) (q q' : Q) (f f' f0 : Facts)
    (hk : key q c.maxSol f = key q' c.maxSol f')
    (ha : (S c c.maxSol q ord f).provable ≠ (S c c.maxSol q' ord f').provable) :
    (runFrom S nf key (Eng.new c, f0) (pairSteps ord [(f, q), (f', q')])).filterMap verdictOf
        = [(S c c.maxSol q ord f).provable, (S c c.maxSol q ord f).provable]
    ∧ (runFrom S nf key (Eng.new c, f0) (pairSteps ord [(f, q), (f', q')])).filterMap verdictOf
        ≠ [(S c c.maxSol q ord f).provable, (S c c.maxSol q' ord f').provable] := by
  have hb := engine_refines_cache_model S nf key c hc ord [(f, q), (f', q')] [] f0
  have hs := key_collision_stale (fun q f => key q c.maxSol f) (fun q f => (S c c.maxSol q ord f).provable) q q' f f' hk ha
  unfold Eng.new
  rw [hb]
  exact ⟨hs.1, by simpa using hs.2⟩

end generic

/-! ### the engine of the code: `C09.query` inside -/

/-- the driver's engine is the model's engine (`C09.query_eq_fast`) -/
theorem codeSearch_eq_fast (W : World) : codeSearch W = fastSearch W := by
  funext c ms g ord f
  exact C09.query_eq_fast ..

/-- what a freshly built engine answers IS `C09.query` on that step's rules, configuration, candidate lists and facts -/
theorem fresh_query_is_C09_query {K : Type} [DecidableEq K] (nm : Naming) (kb : List Rule) (nf : Nat)
    (key : Atom → Nat → Facts → K) (c : Config) (g : Atom) (ord : Ord) (f : Facts) :
    (engineStep (codeSearch (World.code nm kb nf)) nf key (Eng.new c, f) (.query g ord)).2 =
      some (outOf nf (C09.query kb c.strategy c.maxDepth c.maxSol (C09.subCandidates nm kb) g
        (ord (C09.topCandidates nm kb g)) (storeOf f))) := by
  simp only [engineStep, engineQuery_new]
  rfl

theorem keyDet_keyCode : KeyDet keyCode := by
  intro q m f q' m' f' h
  simp only [keyCode, Prod.mk.injEq] at h
  exact ⟨h.1, h.2.2⟩

/-- `max_solutions` is not needed in the key -/
theorem keyDet_without_maxSol : KeyDet (fun (q : Atom) (_ : Nat) (f : Facts) => (q, f)) := by
  intro q m f q' m' f' h
  simp only [Prod.mk.injEq] at h
  exact h

/-- **History independence of the engine of the code.**  For every naming, rule set, field universe, initial
configuration and facts, every history of `setFacts` / `set_config` / `query` / `query_aggregate` steps whose calls
enumerate the candidate `HashSet` alike: the verdicts of ONE engine (memo key = query, `max_solutions`, facts; candidate
lists and search = `C09.topCandidates`, `C09.subCandidates`, `C09.query`) are call by call the verdicts of freshly built
engines, i.e. (`fresh_query_is_C09_query`) of `C09.query` on that step's rules / facts / configuration. -/
theorem engine_history_eq_fresh (nm : Naming) (kb : List Rule) (nf : Nat) (c0 : Config) (f0 : Facts) (ord0 : Ord)
    (h : List (Step Atom)) (hO : OrdsIn (· = ord0) h) :
    (runFrom (codeSearch (World.code nm kb nf)) nf keyCode (Eng.new c0, f0) h).map verdictOf =
      (freshAlong (codeSearch (World.code nm kb nf)) nf keyCode (Eng.new c0, f0) h).map verdictOf :=
  engine_history_verdicts _ nf keyCode ord0 keyDet_keyCode h _ (engCacheOK_new _ _ _ c0) hO

/-- … and when every call enumerates as it likes (any `P` containing the enumerations used): every verdict is a verdict
`C09.query` gives on that step's rules / facts / configuration for an enumeration in `P` — "never an answer that a
fresh engine would not give" —, with the exact `StepFresh` clauses about the facts handed back. -/
theorem engine_history_admissible (nm : Naming) (kb : List Rule) (nf : Nat) (c0 : Config) (f0 : Facts) (P : Ord → Prop)
    (h : List (Step Atom)) (hO : OrdsIn P h) :
    HistoryFresh (codeSearch (World.code nm kb nf)) nf keyCode P (Eng.new c0, f0) h :=
  engine_history_fresh _ nf keyCode P keyDet_keyCode h _ (engCacheOK_new _ _ _ c0) hO

/-- the executable the driver runs computes the same histories -/
theorem engine_eq_fast {K : Type} [DecidableEq K] (W : World) (nf : Nat) (key : Atom → Nat → Facts → K) (s : HState K)
    (h : List (Step Atom)) :
    runFrom (codeSearch W) nf key s h = runFrom (fastSearch W) nf key s h := by
  rw [codeSearch_eq_fast]

/-! ### witnesses: every ingredient is needed (kernel-evaluated on the search of the code) -/

def wCfg : Config := ⟨.dfs, 2, 1, true⟩
/-- one rule `G == 1 ⇒ F := true` (fields: 5 = F, 6 = G), candidate for every goal -/
def wRule : Rule := { cond := .atom ⟨6, .eq, .num 1⟩, acts := [(5, .bool true)], more := [] }
def wWorld : World := ⟨[wRule], fun _ => [0], fun _ => [0], 8⟩
def wGoal : Atom := ⟨5, .eq, .bool true⟩
def wFacts : Facts := [(6, .num 1)]

/-- **The facts are needed in the key** (F-C11, a4f1d19): keyed by query and `max_solutions` only, `F == true` asked on
facts without `G` and again after `G = 1` was asserted is answered `false` twice; the fresh engine derives `F`. -/
theorem key_needs_facts :
    (runFrom (codeSearch wWorld) 8 (fun q m _ => (q, m)) (Eng.new wCfg, [])
        (pairSteps id [([], wGoal), (wFacts, wGoal)])).filterMap verdictOf = [false, false]
    ∧ (freshAlong (codeSearch wWorld) 8 (fun q m _ => (q, m)) (Eng.new wCfg, [])
        (pairSteps id [([], wGoal), (wFacts, wGoal)])).filterMap verdictOf = [false, true] := by
  decide

/-- **The query is needed in the key**: keyed by `max_solutions` and facts only, `F == false` asked after `F == true` on
the same facts is answered `true`. -/
theorem key_needs_query :
    (runFrom (codeSearch wWorld) 8 (fun _ m f => (m, f)) (Eng.new wCfg, wFacts)
        [.query wGoal id, .setFacts wFacts, .query ⟨5, .eq, .bool false⟩ id]).filterMap verdictOf = [true, true]
    ∧ (freshAlong (codeSearch wWorld) 8 (fun _ m f => (m, f)) (Eng.new wCfg, wFacts)
        [.query wGoal id, .setFacts wFacts, .query ⟨5, .eq, .bool false⟩ id]).filterMap verdictOf = [true, false] := by
  decide

/-- **`set_config` must empty the cache** (strategy and `max_depth` are not in the key): an engine that kept its cache
over `set_config(strategy := Iterative)` would answer `G == 1` — true in the facts, no rule concludes it — with the
depth-first verdict `true`; the iterative search of a fresh engine says `false` (no candidate rule). -/
theorem set_config_must_clear :
    let W : World := ⟨[], fun _ => [], fun _ => [], 8⟩
    let g : Atom := ⟨6, .eq, .num 1⟩
    let c' : Config := { wCfg with strategy := .iterative }
    let e1 := (engineQuery (codeSearch W) 8 keyCode (Eng.new wCfg) g id wFacts).2
    (engineQuery (codeSearch W) 8 keyCode { e1 with cfg := c' } g id wFacts).1.verdict = true
    ∧ (engineQuery (codeSearch W) 8 keyCode (Eng.new c') g id wFacts).1.verdict = false
    ∧ (engineStep (codeSearch W) 8 keyCode (e1, wFacts) (.setConfig c')).1.1.cache = [] := by
  decide

/-- **`query_aggregate` must not go through the cache** (F-C11b, e8cfd71): with memoisation left on and
`max_solutions = usize::MAX` for the inner query, the second `count(..)` on unchanged facts is a cache hit and counts 0
solutions; the engine of the code (and a fresh one) counts 1 both times. -/
theorem aggregate_needs_memo_off :
    let cMax : Config := { wCfg with maxSol := usizeMax }
    let r1 := engineQuery (codeSearch wWorld) 8 keyCode (Eng.new cMax) wGoal id wFacts
    let r2 := engineQuery (codeSearch wWorld) 8 keyCode r1.2 wGoal id r1.1.after
    (r1.1.count, r2.1.count, r2.1.hit) = (1, 0, true)
    ∧ (runFrom (codeSearch wWorld) 8 keyCode (Eng.new wCfg, wFacts) [.aggregate wGoal id, .aggregate wGoal id]).map
        (fun o => o.map (·.count)) = [some 1, some 1] := by
  decide

/-- what a hit does NOT do: derive.  `F == true` proven (facts now hold the derived `F`), the caller puts the old facts
back and asks again: the hit says `true` and leaves the facts without `F`; a fresh engine hands back `F = true` too.
(The property speaks of `provable`, which agrees; the facts handed back are history dependent in this way.) -/
theorem hit_skips_derivation :
    runFrom (codeSearch wWorld) 8 keyCode (Eng.new wCfg, wFacts) [.query wGoal id, .setFacts wFacts, .query wGoal id]
      = [some ⟨true, 1, false, [(5, .bool true), (6, .num 1)]⟩, none, some ⟨true, 0, true, wFacts⟩]
    ∧ freshAlong (codeSearch wWorld) 8 keyCode (Eng.new wCfg, wFacts) [.query wGoal id, .setFacts wFacts, .query wGoal id]
      = [some ⟨true, 1, false, [(5, .bool true), (6, .num 1)]⟩, none, some ⟨true, 1, false, [(5, .bool true), (6, .num 1)]⟩] := by
  decide

/-! ### non-vacuity -/

-- a history with a genuine hit (4th step), a reconfiguration and aggregates; the code's candidate computation inside
example :
    let W := World.code ⟨fun i => "F" ++ toString i, C09.ruleNameR⟩ wWorld.kb 8
    (runFrom (codeSearch W) 8 keyCode (Eng.new wCfg, [])
      [.query wGoal id, .query wGoal id, .setFacts wFacts, .query wGoal id, .aggregate wGoal id,
       .setConfig { wCfg with strategy := .bfs }, .badAggregate, .query wGoal id]).map (fun o => o.map fun x => (x.verdict, x.hit))
      = [some (false, false), some (false, true), none, some (true, false), some (true, false), none, none, some (true, false)] := by
  decide
example : OrdsIn (· = id) [Step.query wGoal id, .setFacts wFacts, .aggregate wGoal List.reverse, .query wGoal id] := by
  intro st hm q ord hq
  simp only [List.mem_cons, List.not_mem_nil, or_false] at hm
  rcases hm with h | h | h | h <;> subst h <;> cases hq <;> rfl
-- `engine_key_collision_stale` applies to `key_needs_facts`'s key
example : (fun (q : Atom) (m : Nat) (_ : Facts) => (q, m)) wGoal 1 [] = (fun q m _ => (q, m)) wGoal 1 wFacts
    ∧ (codeSearch wWorld wCfg 1 wGoal id []).provable ≠ (codeSearch wWorld wCfg 1 wGoal id wFacts).provable := by decide
example : codeSearch wWorld wCfg 1 wGoal id wFacts = fastSearch wWorld wCfg 1 wGoal id wFacts := by rw [codeSearch_eq_fast]

end C11
