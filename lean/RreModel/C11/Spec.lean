import RreModel.C11.Model
/-
C11 — the property over API-level observations: for the k-th query of a history the harness
observes the long-lived engine's verdict, the verdict of a freshly built engine on a copy of the
same facts, and whether the call was answered from the cache (`stats.goals_explored == 0`).
-/
namespace C11

structure Obs where
  key : String        -- query text + configuration + canonical facts before the call (what the fixed key renders)
  answer : Bool       -- `QueryResult.provable` of the long-lived engine
  fresh : Bool        -- `QueryResult.provable` of a fresh engine on a copy of the facts
  hit : Bool          -- answered without searching
deriving Repr, DecidableEq

/-- the property: every answer is the fresh engine's answer -/
def historyIndependent (os : List Obs) : Bool := os.all fun o => o.answer == o.fresh

/-- the tie: the cache model, run on the observed keys with the observed fresh verdicts as the
abstract `answer`, predicts the observed (answer, hit) of every call -/
def modelPredicts (memo : Bool) (os : List Obs) : Bool :=
  let answer : String → Unit → Bool := fun k _ => ((os.find? fun o => o.key == k).map (·.fresh)).getD false
  run memo (fun k (_ : Unit) => k) answer {} (os.map fun o => ((), o.key)) == os.map fun o => (o.answer, o.hit)

end C11
