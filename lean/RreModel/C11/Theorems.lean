import RreModel.C11.Lemmas
/-
C11 — "The answer to a backward-chaining query depends only on the rule set, the facts passed in
and the configuration: asking other queries first, or the same query earlier on different facts,
does not change it."  Stated over every history (any length) of (facts, query) pairs — the facts
of the k-th call are arbitrary, so every interleaving of asserts / changes / removals and every
modification made by earlier queries is covered — for every search function `answer`.
-/
namespace C11
variable {Q F K : Type} [DecidableEq K]

/-- **History independence.**  If the key determines the fresh answer (in particular if it
determines `(query, facts)`, as the fixed key does), then on an engine whose cache satisfies the
invariant (e.g. a new engine) the k-th answer of every history is the answer a freshly built
engine gives on the k-th (facts, query) pair. -/
theorem query_history_independent (memo : Bool) (key : Q → F → K) (answer : Q → F → Bool)
    (hinj : ∀ q f q' f', key q f = key q' f' → answer q f = answer q' f')
    (e : Engine K) (he : CacheOK key answer e) (h : List (F × Q)) :
    answers memo key answer e h = h.map (fun p => answer p.2 p.1) := by
  induction h generalizing e with
  | nil => rfl
  | cons p rest ih =>
    obtain ⟨f, q⟩ := p
    have hq := query_ok memo key answer e q f hinj he
    simp only [answers, run, List.map_cons] at ih ⊢
    rw [hq.1]
    congr 1
    exact ih _ hq.2

/-- the same for a key that is injective in `(query, facts)` and a new engine -/
theorem query_history_independent_injective (memo : Bool) (key : Q → F → K) (answer : Q → F → Bool)
    (hinj : ∀ q f q' f', key q f = key q' f' → q = q' ∧ f = f') (h : List (F × Q)) :
    answers memo key answer {} h = h.map (fun p => answer p.2 p.1) :=
  query_history_independent memo key answer
    (fun q f q' f' hk => by obtain ⟨h1, h2⟩ := hinj q f q' f' hk; subst h1; subst h2; rfl)
    {} (by intro k b hm; cases hm) h

/-- the cache invariant is kept along every history -/
theorem cache_invariant (memo : Bool) (key : Q → F → K) (answer : Q → F → Bool)
    (hinj : ∀ q f q' f', key q f = key q' f' → answer q f = answer q' f')
    (e : Engine K) (he : CacheOK key answer e) (q : Q) (f : F) :
    CacheOK key answer (query memo key answer e q f).2.2 :=
  (query_ok memo key answer e q f hinj he).2

/-- without memoisation the engine has no state at all -/
theorem no_memo_stateless (key : Q → F → K) (answer : Q → F → Bool) (e : Engine K) (q : Q) (f : F) :
    query false key answer e q f = (answer q f, false, e) := rfl

/-- full statement for an arbitrary key function -/
def query_history_independent_full : Prop :=
  ∀ (key : Nat → Bool → Nat) (answer : Nat → Bool → Bool) (h : List (Bool × Nat)),
    answers true key answer {} h = h.map (fun p => answer p.2 p.1)

/-- **The pre-fix key (query string alone) violates it** (F-C11): the same query first on facts
where it is not provable, then on facts where it is — the second call returns the first verdict. -/
theorem query_history_independent_counterexample : ¬ query_history_independent_full := by
  intro h
  have := h keyQueryOnly (fun _ f => f) [(false, 0), (true, 0)]
  revert this
  decide

/-- **The key hypothesis is necessary.**  Whenever two (query, facts) pairs whose fresh answers differ share a
key — a key built from a goal text without its `NOT`, a digest of the facts that is unchanged when values are
permuted among the names, a key cut to a fixed length — the history asking one and then the other returns the
first verdict twice, so it is not history independent. -/
theorem key_collision_stale (key : Q → F → K) (answer : Q → F → Bool) (q q' : Q) (f f' : F)
    (hk : key q f = key q' f') (ha : answer q f ≠ answer q' f') :
    answers true key answer {} [(f, q), (f', q')] = [answer q f, answer q f]
    ∧ answers true key answer {} [(f, q), (f', q')] ≠ [(f, q), (f', q')].map (fun p => answer p.2 p.1) := by
  have h : answers true key answer {} [(f, q), (f', q')] = [answer q f, answer q f] := by
    simp [answers, run, query, lookup, ← hk]
  refine ⟨h, ?_⟩
  rw [h]
  simp
  exact ha

/-! Instances of the collision: (1) queries are (negated?, atom) and the key keeps the atom only — `g` then `NOT g`
on the same facts; (2) the facts are the values of two names and the key is their sum — the same query after the
two values are swapped; (3) the facts are a list and the key keeps its first two entries — the same query after a
change to the third. -/
example : answers true (fun (q : Bool × Nat) (f : Bool) => (q.2, f)) (fun q f => q.1 != f) {}
    [(true, (false, 0)), (true, (true, 0))] = [true, true] := by decide
example : answers true (fun (_ : Nat) (f : Nat × Nat) => f.1 + f.2) (fun _ f => decide (f.1 > f.2)) {}
    [((3, 8), 0), ((8, 3), 0)] = [false, false] := by decide
example : answers true (fun (_ : Nat) (f : List Nat) => f.take 2) (fun _ f => f.drop 2 == [1]) {}
    [([0, 0, 0], 0), ([0, 0, 1], 0)] = [false, false] := by decide

/-! Non-vacuity: with the facts in the key the same history is answered correctly, the third call
is a genuine cache hit, and the hit returns the right verdict. -/
example : run true (fun (q : Nat) (f : Bool) => (q, f)) (fun _ f => f) {} [(false, 0), (true, 0), (false, 0)]
    = [(false, false), (true, false), (false, true)] := by decide
example : answers true (keyQueryOnly (F := Bool)) (fun (_ : Nat) f => f) {} [(false, 0), (true, 0)] = [false, false] := by decide

end C11
