/-
C11 — model of the memo cache of `BackwardEngine` (`src/backward/backward_engine.rs`
`query_with_rete_engine`: lookup before the search, store after it, when `enable_memoization`;
`src/backward/goal.rs` `GoalManager::{is_cached, cache_result}`, a `HashMap<String, bool>`).

The search itself is an abstract parameter `answer : Q → F → Bool` — what a freshly built engine
with the same rules and configuration answers for query `q` on facts `f` (its model is
`RreModel/C09/Model.lean`; nothing here depends on it).  The cache is an association list from
keys to verdicts (a `HashMap` insert/lookup).  `key : Q → F → K` is how an entry is keyed:

* fixed code (F-C11): `key q f = q ++ "\0" ++ max_solutions ++ "\0" ++ canonical rendering of f`
  — it determines `(q, f)`;
* pre-fix code: `key q f = q` — `keyQueryOnly`, for the counterexample.
-/
namespace C11

structure Engine (K : Type) where
  cache : List (K × Bool) := []

section
variable {Q F K : Type} [DecidableEq K]

def lookup (c : List (K × Bool)) (k : K) : Option Bool :=
  (c.find? (fun e => e.1 == k)).map (·.2)

/-- one call of `query`: `(answer, was it a cache hit, engine after)` -/
def query (memo : Bool) (key : Q → F → K) (answer : Q → F → Bool) (e : Engine K) (q : Q) (f : F) :
    Bool × Bool × Engine K :=
  if memo then
    match lookup e.cache (key q f) with
    | some b => (b, true, e)
    | none =>
      let b := answer q f
      (b, false, { cache := (key q f, b) :: e.cache })
  else (answer q f, false, e)

/-- a history of calls on one engine: the `k`-th element is (facts passed in, query) -/
def run (memo : Bool) (key : Q → F → K) (answer : Q → F → Bool) : Engine K → List (F × Q) → List (Bool × Bool)
  | _, [] => []
  | e, (f, q) :: rest =>
    let r := query memo key answer e q f
    (r.1, r.2.1) :: run memo key answer r.2.2 rest

/-- the answers only -/
def answers (memo : Bool) (key : Q → F → K) (answer : Q → F → Bool) (e : Engine K) (h : List (F × Q)) : List Bool :=
  (run memo key answer e h).map (·.1)

/-- cache invariant: every entry equals the fresh answer for every (query, facts) with its key -/
def CacheOK (key : Q → F → K) (answer : Q → F → Bool) (e : Engine K) : Prop :=
  ∀ k b, (k, b) ∈ e.cache → ∀ q f, key q f = k → answer q f = b

end

/-- pre-fix key: the query string alone -/
def keyQueryOnly {Q F : Type} : Q → F → Q := fun q _ => q

end C11
