import RreModel.C11.Spec
namespace C11
variable {Q F K : Type} [DecidableEq K]

theorem lookup_some_mem {c : List (K × Bool)} {k : K} {b : Bool} (h : lookup c k = some b) : (k, b) ∈ c := by
  unfold lookup at h
  cases hf : c.find? (fun e => e.1 == k) with
  | none => simp [hf] at h
  | some e =>
    simp [hf] at h
    have hm := List.mem_of_find?_eq_some hf
    have hk := List.find?_some hf
    simp at hk
    obtain ⟨e1, e2⟩ := e
    simp at h hk
    subst h; subst hk
    exact hm

/-- one call: the answer is the fresh answer and the invariant is kept -/
theorem query_ok (memo : Bool) (key : Q → F → K) (answer : Q → F → Bool) (e : Engine K) (q : Q) (f : F)
    (hinj : ∀ q f q' f', key q f = key q' f' → answer q f = answer q' f')
    (h : CacheOK key answer e) :
    (query memo key answer e q f).1 = answer q f ∧ CacheOK key answer (query memo key answer e q f).2.2 := by
  unfold query
  cases memo with
  | false => exact ⟨rfl, h⟩
  | true =>
    simp only [if_true]
    cases hl : lookup e.cache (key q f) with
    | some b =>
      simp only
      exact ⟨(h _ _ (lookup_some_mem hl) q f rfl).symm, h⟩
    | none =>
      simp only
      refine ⟨trivial, ?_⟩
      intro k b hm q' f' hk
      simp only [List.mem_cons] at hm
      cases hm with
      | inl heq =>
        cases heq
        exact hinj _ _ _ _ hk
      | inr hm => exact h k b hm q' f' hk

end C11
