import RreModel.C09.Candidates
import RreModel.C09.Spec
import RreModel.C11.Model
/-
C11 — `BackwardEngine` as a state machine over a whole history, with the CONCRETE search of C09 inside.

What lives on between two calls on one `BackwardEngine` (`src/backward/backward_engine.rs`):

* `knowledge_base : Arc<KnowledgeBase>` and `conclusion_index` (built once by `ConclusionIndex::from_rules(&kb.get_rules())`
  in `new` / `with_config`) — constant over the histories of this property (the rule set is not changed), so the
  candidate lists are a function of the goal: `World.top`, `World.sub` (`World.code` = the code's computation,
  `C09.topCandidates` / `C09.subCandidates`, C16's index model inside);
* `config` — replaced by `set_config`; `query_aggregate` changes `max_solutions` and `enable_memoization` for the
  duration of its inner `query` and puts both back (fixes e8cfd71 / 7aeb869), also when the inner query fails;
* `goal_manager.proven_cache : HashMap<String, bool>` — read and written by `query_with_rete_engine` when
  `enable_memoization`; `set_config` installs `GoalManager::new(..)`, i.e. an empty cache;
* nothing else: the search objects (`DepthFirstSearch` …, their `solutions`, `goals_explored`, and — with a RETE engine
  attached — their proof graph, `proof_graph::new_shared()` in `new_with_engine`) are created inside every call of
  `query_with_rete_engine` and dropped at its end; `QueryStats` are returned, not kept.

The memo key (`memo_key`, fix a4f1d19) is `query text ++ "\0" ++ max_solutions ++ "\0" ++ Debug of the facts sorted by
name`: here `key : Q → Nat → Facts → K`.  Strategy and `max_depth` are NOT in the key.

The order in which the top-level candidates are tried comes out of a `HashSet` and may differ from call to call:
every `query` step carries the enumeration `ord` its call happens to use (`ord cands` = the list in the order tried).
-/
namespace C11
open C09 (Atom Rule Strategy Facts Naming QueryOut)

/-- `BackwardConfig` -/
structure Config where
  strategy : Strategy
  maxDepth : Nat
  maxSol : Nat
  memo : Bool
deriving DecidableEq

/-- how one call enumerates the `HashSet` of top-level candidates -/
abbrev Ord := List Nat → List Nat

/-- `usize::MAX` (what `query_aggregate` sets `max_solutions` to) -/
def usizeMax : Nat := 18446744073709551615

/-- the caller's `Facts` as the store the search works on (no undo frame open) -/
def storeOf (l : Facts) : C09.Store := ⟨C09.dataOf l, []⟩

/-- `get_all_facts()` over the field universe `0 … nf-1`, sorted by field -/
def factsOfData (nf : Nat) (d : C09.Data) : Facts :=
  (List.range nf).filterMap fun k => (d k).map fun v => (k, v)

/-- what a search is for the engine: configuration, the `max_solutions` in force, the query, the enumeration of the
top-level candidates, the caller's facts ↦ `(provable, facts afterwards, #solutions)` -/
abbrev Search (Q : Type) := Config → Nat → Q → Ord → Facts → QueryOut

/-- the constant part of an engine: rules, candidate lists, field universe of the caller's facts -/
structure World where
  kb : List Rule
  top : Atom → List Nat
  sub : Atom → List Nat
  nf : Nat

/-- the candidate lists the code computes (`find_candidate_rules` on the index built at construction;
`rule_could_prove_pattern` over `kb.get_rules()`) -/
def World.code (nm : Naming) (kb : List Rule) (nf : Nat) : World :=
  ⟨kb, C09.topCandidates nm kb, C09.subCandidates nm kb, nf⟩

/-- **the search of the code**: the `match self.config.strategy` of `query_with_rete_engine` = `C09.query` -/
def codeSearch (W : World) : Search Atom := fun c ms g ord f =>
  C09.query W.kb c.strategy c.maxDepth ms W.sub g (ord (W.top g)) (storeOf f)

/-- the same with the driver's rollback device (`C09.query_eq_fast`: equal) -/
def fastSearch (W : World) : Search Atom := fun c ms g ord f =>
  C09.queryFast W.kb c.strategy c.maxDepth ms W.sub g (ord (W.top g)) (storeOf f)

/-- `BackwardEngine`: what changes over its life -/
structure Eng (K : Type) where
  cfg : Config
  cache : List (K × Bool)

/-- `BackwardEngine::with_config` / what `set_config` leaves: the configuration and an empty `GoalManager` -/
def Eng.new {K : Type} (c : Config) : Eng K := ⟨c, []⟩

/-- what a call hands back -/
structure Out where
  /-- `QueryResult.provable` (for an aggregate: of its inner query) -/
  verdict : Bool
  /-- `solutions.len()` — what `count(..)` returns for an aggregate; 0 for a call answered from the cache -/
  count : Nat
  /-- answered from the cache, without searching (`stats.goals_explored == 0`) -/
  hit : Bool
  /-- the caller's facts after the call -/
  after : Facts
deriving DecidableEq

section
variable {Q K : Type} [DecidableEq K]

/-- the result of an actual search as the caller sees it -/
def outOf (nf : Nat) (o : QueryOut) : Out := ⟨o.provable, o.nsol, false, factsOfData nf o.store.data⟩

/-- `BackwardEngine::query` (= `query_with_rete_engine(.., None)`): key, lookup when memoising — a hit returns the stored
verdict and leaves the caller's facts alone —, else the search with the configured `max_solutions`, and the verdict
stored under the key when memoising -/
def engineQuery (S : Search Q) (nf : Nat) (key : Q → Nat → Facts → K) (e : Eng K) (q : Q) (ord : Ord) (f : Facts) :
    Out × Eng K :=
  let k := key q e.cfg.maxSol f
  match (if e.cfg.memo then lookup e.cache k else none) with
  | some b => (⟨b, 0, true, f⟩, e)
  | none =>
    let o := S e.cfg e.cfg.maxSol q ord f
    (outOf nf o, if e.cfg.memo then { e with cache := (k, o.provable) :: e.cache } else e)

/-- `BackwardEngine::query_aggregate` with a well-formed query text: `max_solutions := usize::MAX`,
`enable_memoization := false`, the inner `query` (so: neither a lookup nor a store), both settings put back -/
def engineAggregate (S : Search Q) (nf : Nat) (e : Eng K) (q : Q) (ord : Ord) (f : Facts) : Out × Eng K :=
  (outOf nf (S e.cfg usizeMax q ord f), e)

/-- one step of a history on one engine and the caller's facts -/
inductive Step (Q : Type) where
  /-- the caller asserts / changes / removes facts: the new content -/
  | setFacts (f : Facts)
  /-- `set_config` -/
  | setConfig (c : Config)
  /-- `query` -/
  | query (q : Q) (ord : Ord)
  /-- `query_aggregate("count(?x) WHERE <q>")` -/
  | aggregate (q : Q) (ord : Ord)
  /-- `query_aggregate` with a text that is rejected (by `parse_aggregate_query`, or by the parser of the inner
  query after the settings were switched): `Err`, every setting is put back (fix 7aeb869), no search ran -/
  | badAggregate

/-- state of a history: the engine and the caller's facts -/
abbrev HState (K : Type) := Eng K × Facts

def engineStep (S : Search Q) (nf : Nat) (key : Q → Nat → Facts → K) : HState K → Step Q → HState K × Option Out
  | (e, _), .setFacts f' => ((e, f'), none)
  | (_, f), .setConfig c => ((Eng.new c, f), none)
  | (e, f), .query q ord =>
    let r := engineQuery S nf key e q ord f
    ((r.2, r.1.after), some r.1)
  | (e, f), .aggregate q ord =>
    let r := engineAggregate S nf e q ord f
    ((r.2, r.1.after), some r.1)
  | s, .badAggregate => (s, none)

/-- what the calls of a history hand back, in order -/
def runFrom (S : Search Q) (nf : Nat) (key : Q → Nat → Facts → K) : HState K → List (Step Q) → List (Option Out)
  | _, [] => []
  | s, st :: rest =>
    let r := engineStep S nf key s st
    r.2 :: runFrom S nf key r.1 rest

/-- **the comparison the harness makes**: before every step a FRESHLY BUILT engine (same rules, the configuration in
force) performs the same step on a copy of the caller's facts; the history itself goes on with the long-lived engine -/
def freshAlong (S : Search Q) (nf : Nat) (key : Q → Nat → Facts → K) : HState K → List (Step Q) → List (Option Out)
  | _, [] => []
  | s, st :: rest =>
    (engineStep S nf key (Eng.new s.1.cfg, s.2) st).2 :: freshAlong S nf key (engineStep S nf key s st).1 rest

def verdictOf : Option Out → Option Bool := fun o => o.map (·.verdict)

/-- cache invariant: every stored verdict is what the search answers for SOME query / facts rendered by its key, under
the engine's present configuration and one of the admissible enumerations `P` -/
def EngCacheOK (S : Search Q) (key : Q → Nat → Facts → K) (P : Ord → Prop) (e : Eng K) : Prop :=
  ∀ k b, (k, b) ∈ e.cache → ∃ q f ord, P ord ∧ k = key q e.cfg.maxSol f ∧ b = (S e.cfg e.cfg.maxSol q ord f).provable

/-- the key determines the query and the facts (it need NOT determine `max_solutions`: see `engine_history_eq_fresh`) -/
def KeyDet (key : Q → Nat → Facts → K) : Prop :=
  ∀ q m f q' m' f', key q m f = key q' m' f' → q = q' ∧ f = f'

/-- every `query` step of the history enumerates its candidates by an `ord` satisfying `P` -/
def OrdsIn (P : Ord → Prop) (h : List (Step Q)) : Prop :=
  ∀ st ∈ h, ∀ q ord, st = .query q ord → P ord

/-- what history independence says about one step in state `(e, f)`: a `query` hands back a verdict that a fresh engine
with the configuration in force gives on these facts under an admissible enumeration — its own enumeration when it
actually searched, and then the facts handed back are the fresh engine's too; a hit leaves the facts alone —; every
other step does exactly what it does on a fresh engine -/
def StepFresh (S : Search Q) (nf : Nat) (key : Q → Nat → Facts → K) (P : Ord → Prop) (s : HState K) : Step Q → Prop
  | .query q ord =>
    let out := (engineQuery S nf key s.1 q ord s.2).1
    (∃ ord', P ord' ∧ out.verdict = (S s.1.cfg s.1.cfg.maxSol q ord' s.2).provable) ∧
    (out.hit = false → out = (engineQuery S nf key (Eng.new s.1.cfg) q ord s.2).1) ∧
    (out.hit = true → out.after = s.2)
  | st => (engineStep S nf key s st).2 = (engineStep S nf key (Eng.new s.1.cfg, s.2) st).2

/-- … about every step of a history -/
def HistoryFresh (S : Search Q) (nf : Nat) (key : Q → Nat → Facts → K) (P : Ord → Prop) : HState K → List (Step Q) → Prop
  | _, [] => True
  | s, st :: rest => StepFresh S nf key P s st ∧ HistoryFresh S nf key P (engineStep S nf key s st).1 rest

/-- the facts-then-query histories of the generic cache model (`RreModel/C11/Model.lean`) as steps -/
def pairSteps (ord : Ord) : List (Facts × Q) → List (Step Q)
  | [] => []
  | (f, q) :: rest => .setFacts f :: .query q ord :: pairSteps ord rest

end

/-- the key of the tie, by components (that the code's TEXT determines them — the query text the atom, the `Debug`
rendering the sorted facts — stays an assumption about `format!`) -/
def keyCode : Atom → Nat → Facts → Atom × Nat × Facts := fun q m f => (q, m, f)

end C11
