import RreModel.C09.Candidates
import RreModel.C09.Spec
import RreModel.C09.Hist
import RreModel.C11.Model
/-
C11 — `BackwardEngine` as a state machine over a whole history, with the CONCRETE search of C09 inside.

What lives on between two calls on one `BackwardEngine` (`src/backward/backward_engine.rs`):

* `knowledge_base : Arc<KnowledgeBase>` — edited through `engine.knowledge_base()` (`add_rule` / `remove_rule` /
  `set_rule_enabled` / `clear`; every edit that changes something increments `version`) — and `conclusion_index`, built by
  `ConclusionIndex::from_rules(&kb.get_rules())` in `new` / `with_config` / `rebuild_index` and by nothing else: the state
  `C09.Eng` of `RreModel/C09/Hist.lean` (`Eng.rules`; steps `.kb op` / `.rebuild` = `C09.engStep`).  The search of a call runs
  on the rule state AS IT IS at that call: enabled live rules, top-level candidates from the (possibly stale) index
  (`C09.topCandsHist`), sub-goal candidates from the live rules (`C09.subCandsHist`);
* `config` — replaced by `set_config`; `query_aggregate` changes `max_solutions` and `enable_memoization` for the
  duration of its inner `query` and puts both back (fixes e8cfd71 / 7aeb869), also when the inner query fails;
* `goal_manager.proven_cache : HashMap<String, bool>` — read and written by `query_with_rete_engine` when
  `enable_memoization`; `set_config` installs `GoalManager::new(..)`, i.e. an empty cache; `rebuild_index` empties it
  (`goal_manager.clear()`, fix 092f94f);
* nothing else: the search objects (`DepthFirstSearch` …, their `solutions`, `goals_explored`, and — with a RETE engine
  attached — their proof graph, `proof_graph::new_shared()` in `new_with_engine`) are created inside every call of
  `query_with_rete_engine` and dropped at its end; `QueryStats` are returned, not kept.

The memo key (`memo_key`, fixes a4f1d19, 092f94f) is `query text ++ "\0" ++ max_solutions ++ "\0" ++ kb.version() ++ "\0" ++
Debug of the facts sorted by name`: here `key : Nat → Q → Nat → Facts → K` (first argument: the knowledge-base version).
Strategy and `max_depth` are NOT in the key, nor is anything about the index.

A query is an atom or its negation `NOT <atom>` (`GQ`; the search of a negated goal is `C09.queryNeg`, `RreModel/C09/Ext.lean`).

The order in which the top-level candidates are tried comes out of a `HashSet` and may differ from call to call:
every `query` step carries the enumeration `ord` its call happens to use (`ord cands` = the list in the order tried).
-/
namespace C11
open C09 (Atom Rule Strategy Facts Naming QueryOut)

/-- `BackwardConfig` -/
structure Config where
  strategy : Strategy
  maxDepth : Nat
  maxSol : Nat
  memo : Bool
deriving DecidableEq

/-- how one call enumerates the `HashSet` of top-level candidates -/
abbrev Ord := List Nat → List Nat

/-- `usize::MAX` (what `query_aggregate` sets `max_solutions` to) -/
def usizeMax : Nat := 18446744073709551615

/-- the caller's `Facts` as the store the search works on (no undo frame open) -/
def storeOf (l : Facts) : C09.Store := ⟨C09.dataOf l, []⟩

/-- `get_all_facts()` over the field universe `0 … nf-1`, sorted by field -/
def factsOfData (nf : Nat) (d : C09.Data) : Facts :=
  (List.range nf).filterMap fun k => (d k).map fun v => (k, v)

/-- what a search is for the engine: the rule state (knowledge base + the rule list the index was last built from),
configuration, the `max_solutions` in force, the query, the enumeration of the top-level candidates, the caller's facts ↦
`(provable, facts afterwards, #solutions)` -/
abbrev Search (Q : Type) := C09.Eng → Config → Nat → Q → Ord → Facts → QueryOut

/-- a query text the C09 grammar has: `<atom>` or `NOT <atom>` -/
structure GQ where
  atom : Atom
  neg : Bool
deriving DecidableEq

/-- the pattern text `find_candidate_rules` looks up: the whole query (`"NOT A == true"` for a negated goal) -/
def patOf (nm : Naming) (q : GQ) : String := if q.neg then "NOT " ++ C09.patternOf nm q.atom else C09.patternOf nm q.atom

/-- the top-level candidates of a call on rule state `r` — positions among the enabled live rules — and whether they come out of
the index (a `HashSet`: any order) or out of the linear fallback (`kb.get_rules()` order) -/
def topOf (nm : Naming) (r : C09.Eng) (q : GQ) : List Nat × Bool :=
  let t := C09.topCandsHist nm r (patOf nm q)
  (t.1.map (C09.remap r.krules), t.2)

/-- the search on rule state `r` with the rollback device `rb` -/
def searchG (rb : C09.Rb) (nm : Naming) : Search GQ := fun r c ms q ord f =>
  if q.neg then
    C09.queryNegG rb (C09.enabledRules r.krules) c.strategy c.maxDepth ms (C09.subCandsHist nm r) q.atom
      (ord (topOf nm r q).1) (storeOf f)
  else
    C09.queryG rb (C09.enabledRules r.krules) c.strategy c.maxDepth ms (C09.subCandsHist nm r) q.atom
      (ord (topOf nm r q).1) (storeOf f)

/-- **the search of the code**: the `match self.config.strategy` of `query_with_rete_engine` = `C09.query` / `C09.queryNeg` on
the enabled live rules, with the candidates `find_candidate_rules` gets from the index as it was last built
(`C09.topCandsHist`) and `rule_could_prove_pattern` from the live rules (`C09.subCandsHist`) -/
def codeSearch (nm : Naming) : Search GQ := searchG C09.rbCode nm

/-- the same with the driver's rollback device (`C09.query_eq_fast`, `C09.queryNeg_eq_fast`: equal) -/
def fastSearch (nm : Naming) : Search GQ := searchG C09.rbSaved nm

/-- `BackwardEngine`: what changes over its life -/
structure Eng (K : Type) where
  /-- knowledge base (rules in `get_rules()` order, `version`) and the rule list the conclusion index was last built from -/
  rules : C09.Eng
  cfg : Config
  cache : List (K × Bool)

/-- `BackwardEngine::with_config` / what `set_config` and `rebuild_index` leave of the memo state: an empty `GoalManager` -/
def Eng.new {K : Type} (r : C09.Eng) (c : Config) : Eng K := ⟨r, c, []⟩

/-- the engine of the fresh-engine comparison: built on the rule set as it is now, its index as fresh as the last
`rebuild_index` (or the construction) made it, the configuration in force, nothing memoised -/
def Eng.fresh {K : Type} (e : Eng K) : Eng K := Eng.new e.rules e.cfg

/-- what a call hands back -/
structure Out where
  /-- `QueryResult.provable` (for an aggregate: of its inner query) -/
  verdict : Bool
  /-- `solutions.len()` — what `count(..)` returns for an aggregate; 0 for a call answered from the cache -/
  count : Nat
  /-- answered from the cache, without searching (`stats.goals_explored == 0`) -/
  hit : Bool
  /-- the caller's facts after the call -/
  after : Facts
deriving DecidableEq

section
variable {Q K : Type} [DecidableEq K]

/-- the result of an actual search as the caller sees it -/
def outOf (nf : Nat) (o : QueryOut) : Out := ⟨o.provable, o.nsol, false, factsOfData nf o.store.data⟩

/-- `BackwardEngine::query` (= `query_with_rete_engine(.., None)`): key, lookup when memoising — a hit returns the stored
verdict and leaves the caller's facts alone —, else the search with the configured `max_solutions`, and the verdict
stored under the key when memoising -/
def engineQuery (S : Search Q) (nf : Nat) (key : Nat → Q → Nat → Facts → K) (e : Eng K) (q : Q) (ord : Ord) (f : Facts) :
    Out × Eng K :=
  let k := key e.rules.kb.version q e.cfg.maxSol f
  match (if e.cfg.memo then lookup e.cache k else none) with
  | some b => (⟨b, 0, true, f⟩, e)
  | none =>
    let o := S e.rules e.cfg e.cfg.maxSol q ord f
    (outOf nf o, if e.cfg.memo then { e with cache := (k, o.provable) :: e.cache } else e)

/-- `BackwardEngine::query_aggregate` with a well-formed query text: `max_solutions := usize::MAX`,
`enable_memoization := false`, the inner `query` (so: neither a lookup nor a store), both settings put back -/
def engineAggregate (S : Search Q) (nf : Nat) (e : Eng K) (q : Q) (ord : Ord) (f : Facts) : Out × Eng K :=
  (outOf nf (S e.rules e.cfg usizeMax q ord f), e)

/-- one step of a history on one engine and the caller's facts -/
inductive Step (Q : Type) where
  /-- the caller asserts / changes / removes facts: the new content -/
  | setFacts (f : Facts)
  /-- `set_config` -/
  | setConfig (c : Config)
  /-- `query` -/
  | query (q : Q) (ord : Ord)
  /-- `query_aggregate("count(?x) WHERE <q>")` -/
  | aggregate (q : Q) (ord : Ord)
  /-- `query_aggregate` with a text that is rejected (by `parse_aggregate_query`, or by the parser of the inner
  query after the settings were switched): `Err`, every setting is put back (fix 7aeb869), no search ran -/
  | badAggregate
  /-- an edit through `engine.knowledge_base()`: `add_rule` / `remove_rule` / `set_rule_enabled` / `clear`
  (`C09.kbStep`: the version moves iff something changes); index and memo cache are NOT touched -/
  | kb (op : C09.KbOp)
  /-- `rebuild_index`: the index is built from the live rules, the memo cache emptied (fix 092f94f) -/
  | rebuild

/-- state of a history: the engine and the caller's facts -/
abbrev HState (K : Type) := Eng K × Facts

def engineStep (S : Search Q) (nm : Naming) (nf : Nat) (key : Nat → Q → Nat → Facts → K) :
    HState K → Step Q → HState K × Option Out
  | (e, _), .setFacts f' => ((e, f'), none)
  | (e, f), .setConfig c => ((Eng.new e.rules c, f), none)
  | (e, f), .query q ord =>
    let r := engineQuery S nf key e q ord f
    ((r.2, r.1.after), some r.1)
  | (e, f), .aggregate q ord =>
    let r := engineAggregate S nf e q ord f
    ((r.2, r.1.after), some r.1)
  | s, .badAggregate => (s, none)
  | (e, f), .kb op => (({ e with rules := C09.engStep nm e.rules (.kb op) }, f), none)
  | (e, f), .rebuild => ((Eng.new (C09.engStep nm e.rules .rebuild) e.cfg, f), none)

/-- the state a history leaves -/
def stateAfter (S : Search Q) (nm : Naming) (nf : Nat) (key : Nat → Q → Nat → Facts → K) : HState K → List (Step Q) → HState K
  | s, [] => s
  | s, st :: rest => stateAfter S nm nf key (engineStep S nm nf key s st).1 rest

/-- what the calls of a history hand back, in order -/
def runFrom (S : Search Q) (nm : Naming) (nf : Nat) (key : Nat → Q → Nat → Facts → K) :
    HState K → List (Step Q) → List (Option Out)
  | _, [] => []
  | s, st :: rest =>
    let r := engineStep S nm nf key s st
    r.2 :: runFrom S nm nf key r.1 rest

/-- **the comparison the harness makes**: before every step a FRESHLY BUILT engine (`Eng.fresh`: the rule set as it is
at that step, the index as fresh as the last `rebuild_index` made it, the configuration in force) performs the same step
on a copy of the caller's facts; the history itself goes on with the long-lived engine -/
def freshAlong (S : Search Q) (nm : Naming) (nf : Nat) (key : Nat → Q → Nat → Facts → K) :
    HState K → List (Step Q) → List (Option Out)
  | _, [] => []
  | s, st :: rest =>
    (engineStep S nm nf key (s.1.fresh, s.2) st).2 :: freshAlong S nm nf key (engineStep S nm nf key s st).1 rest

def verdictOf : Option Out → Option Bool := fun o => o.map (·.verdict)

/-- cache invariant: every stored verdict sits under a key rendered for SOME knowledge-base version `v` not above the present
one, some query and facts; an entry rendered for the PRESENT version holds what the search answers for that query / facts on
the present rule state, under the engine's present configuration and one of the admissible enumerations `P` (entries of
earlier versions are dead: no key rendered from now on equals theirs) -/
def EngCacheOK (S : Search Q) (key : Nat → Q → Nat → Facts → K) (P : Ord → Prop) (e : Eng K) : Prop :=
  ∀ k b, (k, b) ∈ e.cache → ∃ v q f ord, P ord ∧ k = key v q e.cfg.maxSol f ∧ v ≤ e.rules.kb.version ∧
    (v = e.rules.kb.version → b = (S e.rules e.cfg e.cfg.maxSol q ord f).provable)

/-- the key determines the knowledge-base version, the query and the facts (it need NOT determine `max_solutions`: see
`engine_history_eq_fresh`) -/
def KeyDet (key : Nat → Q → Nat → Facts → K) : Prop :=
  ∀ v q m f v' q' m' f', key v q m f = key v' q' m' f' → v = v' ∧ q = q' ∧ f = f'

/-- every `query` step of the history enumerates its candidates by an `ord` satisfying `P` -/
def OrdsIn (P : Ord → Prop) (h : List (Step Q)) : Prop :=
  ∀ st ∈ h, ∀ q ord, st = .query q ord → P ord

/-- what history independence says about one step in state `(e, f)`: a `query` hands back a verdict that a fresh engine
(`Eng.fresh`: present rules, index and configuration) gives on these facts under an admissible enumeration — its own
enumeration when it actually searched, and then the facts handed back are the fresh engine's too; a hit leaves the facts
alone —; every other step does exactly what it does on a fresh engine -/
def StepFresh (S : Search Q) (nm : Naming) (nf : Nat) (key : Nat → Q → Nat → Facts → K) (P : Ord → Prop) (s : HState K) :
    Step Q → Prop
  | .query q ord =>
    let out := (engineQuery S nf key s.1 q ord s.2).1
    (∃ ord', P ord' ∧ out.verdict = (S s.1.rules s.1.cfg s.1.cfg.maxSol q ord' s.2).provable) ∧
    (out.hit = false → out = (engineQuery S nf key s.1.fresh q ord s.2).1) ∧
    (out.hit = true → out.after = s.2)
  | st => (engineStep S nm nf key s st).2 = (engineStep S nm nf key (s.1.fresh, s.2) st).2

/-- … about every step of a history -/
def HistoryFresh (S : Search Q) (nm : Naming) (nf : Nat) (key : Nat → Q → Nat → Facts → K) (P : Ord → Prop) :
    HState K → List (Step Q) → Prop
  | _, [] => True
  | s, st :: rest => StepFresh S nm nf key P s st ∧ HistoryFresh S nm nf key P (engineStep S nm nf key s st).1 rest

/-- the facts-then-query histories of the generic cache model (`RreModel/C11/Model.lean`) as steps -/
def pairSteps (ord : Ord) : List (Facts × Q) → List (Step Q)
  | [] => []
  | (f, q) :: rest => .setFacts f :: .query q ord :: pairSteps ord rest

end

/-- the key of the tie, by components (that the code's TEXT determines them — the query text the atom, the `Debug`
rendering the sorted facts — stays an assumption about `format!`) -/
def keyCode : Nat → GQ → Nat → Facts → Nat × GQ × Nat × Facts := fun v q m f => (v, q, m, f)

/-- rules named by position, all enabled: what `build_engine` of the harness registers (`R<i>`) -/
def namedRules (ks : List C09.KRule) : List C09.NRule := (List.range ks.length).zip ks |>.map fun p => ⟨p.1, p.2⟩

end C11
