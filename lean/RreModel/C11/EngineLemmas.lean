import RreModel.C11.Engine
import RreModel.C11.Lemmas
/-
C11 — lemmas about the engine state machine (`RreModel/C11/Engine.lean`): one call keeps the cache invariant and hands
back what a fresh engine hands back.
-/
namespace C11
open C09 (Atom Rule Strategy Facts Naming QueryOut)
variable {Q K : Type} [DecidableEq K]

theorem lookup_nil (k : K) : lookup ([] : List (K × Bool)) k = none := rfl

/-- a fresh engine always searches -/
theorem engineQuery_new (S : Search Q) (nf : Nat) (key : Q → Nat → Facts → K) (c : Config) (q : Q) (ord : Ord) (f : Facts) :
    (engineQuery S nf key (Eng.new c) q ord f).1 = outOf nf (S c c.maxSol q ord f) := by
  unfold engineQuery
  cases hm : c.memo <;> simp [Eng.new, hm, lookup_nil]

omit [DecidableEq K] in
theorem engCacheOK_new (S : Search Q) (key : Q → Nat → Facts → K) (P : Ord → Prop) (c : Config) :
    EngCacheOK S key P (Eng.new c) := by
  intro k b hm
  cases hm

/-- the result of `engineQuery`, by cases of the lookup -/
theorem engineQuery_hit (S : Search Q) (nf : Nat) (key : Q → Nat → Facts → K) (e : Eng K) (q : Q) (ord : Ord) (f : Facts)
    (b : Bool) (h : (if e.cfg.memo then lookup e.cache (key q e.cfg.maxSol f) else none) = some b) :
    engineQuery S nf key e q ord f = (⟨b, 0, true, f⟩, e) := by
  unfold engineQuery
  simp only [h]

theorem engineQuery_miss (S : Search Q) (nf : Nat) (key : Q → Nat → Facts → K) (e : Eng K) (q : Q) (ord : Ord) (f : Facts)
    (h : (if e.cfg.memo then lookup e.cache (key q e.cfg.maxSol f) else none) = none) :
    engineQuery S nf key e q ord f =
      (outOf nf (S e.cfg e.cfg.maxSol q ord f),
       if e.cfg.memo then { e with cache := (key q e.cfg.maxSol f, (S e.cfg e.cfg.maxSol q ord f).provable) :: e.cache } else e) := by
  unfold engineQuery
  simp only [h]

/-- one `query`: fresh answer, invariant kept -/
theorem engineQuery_ok (S : Search Q) (nf : Nat) (key : Q → Nat → Facts → K) (P : Ord → Prop) (hk : KeyDet key)
    (e : Eng K) (he : EngCacheOK S key P e) (q : Q) (ord : Ord) (hP : P ord) (f : Facts) :
    StepFresh S nf key P (e, f) (.query q ord) ∧ EngCacheOK S key P (engineQuery S nf key e q ord f).2
      ∧ (engineQuery S nf key e q ord f).2.cfg = e.cfg := by
  cases h : (if e.cfg.memo then lookup e.cache (key q e.cfg.maxSol f) else none) with
  | some b =>
    have hq := engineQuery_hit S nf key e q ord f b h
    have hmemo : e.cfg.memo = true := by
      cases hm : e.cfg.memo
      · simp [hm] at h
      · rfl
    rw [hmemo] at h
    simp only [if_true] at h
    obtain ⟨q', f', ord', hP', hkey, hb⟩ := he _ _ (lookup_some_mem h)
    obtain ⟨h1, h2⟩ := hk _ _ _ _ _ _ hkey
    subst h1; subst h2
    refine ⟨?_, ?_, ?_⟩
    · simp only [StepFresh, hq]
      refine ⟨⟨ord', hP', hb⟩, ?_, ?_⟩
      · intro hc; cases hc
      · intro _; trivial
    · rw [hq]; exact he
    · rw [hq]
  | none =>
    have hq := engineQuery_miss S nf key e q ord f h
    refine ⟨?_, ?_, ?_⟩
    · simp only [StepFresh, hq, engineQuery_new]
      refine ⟨⟨ord, hP, rfl⟩, ?_, ?_⟩
      · intro _; trivial
      · intro hc; simp [outOf] at hc
    · rw [hq]
      cases hm : e.cfg.memo with
      | false => simpa [hm] using he
      | true =>
        simp only [if_true]
        intro k b hmem
        simp only [List.mem_cons] at hmem
        cases hmem with
        | inl heq =>
          cases heq
          exact ⟨q, f, ord, hP, rfl, rfl⟩
        | inr hmem => exact he k b hmem
    · rw [hq]
      cases hm : e.cfg.memo <;> simp

/-- one step of any kind -/
theorem engineStep_ok (S : Search Q) (nf : Nat) (key : Q → Nat → Facts → K) (P : Ord → Prop) (hk : KeyDet key)
    (s : HState K) (he : EngCacheOK S key P s.1) (st : Step Q) (hP : ∀ q ord, st = .query q ord → P ord) :
    StepFresh S nf key P s st ∧ EngCacheOK S key P (engineStep S nf key s st).1.1 := by
  obtain ⟨e, f⟩ := s
  cases st with
  | setFacts f' => exact ⟨rfl, he⟩
  | setConfig c => exact ⟨rfl, engCacheOK_new S key P c⟩
  | query q ord =>
    have h := engineQuery_ok S nf key P hk e he q ord (hP q ord rfl) f
    exact ⟨h.1, h.2.1⟩
  | aggregate q ord => exact ⟨rfl, he⟩
  | badAggregate => exact ⟨rfl, he⟩

end C11
