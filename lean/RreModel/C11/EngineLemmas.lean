import RreModel.C11.Engine
import RreModel.C11.Lemmas
/-
C11 — lemmas about the engine state machine (`RreModel/C11/Engine.lean`): one call keeps the cache invariant and hands
back what a fresh engine hands back; knowledge-base edits move the version or change nothing.
-/
namespace C11
open C09 (Atom Rule Strategy Facts Naming QueryOut)
variable {Q K : Type} [DecidableEq K]

theorem lookup_nil (k : K) : lookup ([] : List (K × Bool)) k = none := rfl

/-- `KnowledgeBase` edits never lower the version … -/
theorem kbStep_version_le (kb : C09.Kb) (op : C09.KbOp) : kb.version ≤ (C09.kbStep kb op).version := by
  cases op <;> simp only [C09.kbStep] <;> (try split) <;> simp

/-- … and an edit that leaves the version where it was changed nothing (rejected `add_rule` of an existing name,
`remove_rule` / `set_rule_enabled` of an unknown one) -/
theorem kbStep_version_eq (kb : C09.Kb) (op : C09.KbOp) (h : (C09.kbStep kb op).version = kb.version) :
    C09.kbStep kb op = kb := by
  cases op <;> simp only [C09.kbStep] at h ⊢ <;> (try split at h) <;> simp_all

/-- a fresh engine always searches -/
theorem engineQuery_new (S : Search Q) (nf : Nat) (key : Nat → Q → Nat → Facts → K) (r : C09.Eng) (c : Config) (q : Q)
    (ord : Ord) (f : Facts) :
    (engineQuery S nf key (Eng.new r c) q ord f).1 = outOf nf (S r c c.maxSol q ord f) := by
  unfold engineQuery
  cases hm : c.memo <;> simp [Eng.new, hm, lookup_nil]

omit [DecidableEq K] in
theorem engCacheOK_new (S : Search Q) (key : Nat → Q → Nat → Facts → K) (P : Ord → Prop) (r : C09.Eng) (c : Config) :
    EngCacheOK S key P (Eng.new r c) := by
  intro k b hm
  cases hm

/-- the result of `engineQuery`, by cases of the lookup -/
theorem engineQuery_hit (S : Search Q) (nf : Nat) (key : Nat → Q → Nat → Facts → K) (e : Eng K) (q : Q) (ord : Ord) (f : Facts)
    (b : Bool) (h : (if e.cfg.memo then lookup e.cache (key e.rules.kb.version q e.cfg.maxSol f) else none) = some b) :
    engineQuery S nf key e q ord f = (⟨b, 0, true, f⟩, e) := by
  unfold engineQuery
  simp only [h]

theorem engineQuery_miss (S : Search Q) (nf : Nat) (key : Nat → Q → Nat → Facts → K) (e : Eng K) (q : Q) (ord : Ord) (f : Facts)
    (h : (if e.cfg.memo then lookup e.cache (key e.rules.kb.version q e.cfg.maxSol f) else none) = none) :
    engineQuery S nf key e q ord f =
      (outOf nf (S e.rules e.cfg e.cfg.maxSol q ord f),
       if e.cfg.memo then
         { e with cache := (key e.rules.kb.version q e.cfg.maxSol f, (S e.rules e.cfg e.cfg.maxSol q ord f).provable) :: e.cache }
       else e) := by
  unfold engineQuery
  simp only [h]

/-- one `query`: fresh answer, invariant kept -/
theorem engineQuery_ok (S : Search Q) (nm : Naming) (nf : Nat) (key : Nat → Q → Nat → Facts → K) (P : Ord → Prop)
    (hk : KeyDet key) (e : Eng K) (he : EngCacheOK S key P e) (q : Q) (ord : Ord) (hP : P ord) (f : Facts) :
    StepFresh S nm nf key P (e, f) (.query q ord) ∧ EngCacheOK S key P (engineQuery S nf key e q ord f).2
      ∧ (engineQuery S nf key e q ord f).2.cfg = e.cfg ∧ (engineQuery S nf key e q ord f).2.rules = e.rules := by
  cases h : (if e.cfg.memo then lookup e.cache (key e.rules.kb.version q e.cfg.maxSol f) else none) with
  | some b =>
    have hq := engineQuery_hit S nf key e q ord f b h
    have hmemo : e.cfg.memo = true := by
      cases hm : e.cfg.memo
      · simp [hm] at h
      · rfl
    rw [hmemo] at h
    simp only [if_true] at h
    obtain ⟨v', q', f', ord', hP', hkey, _, hb⟩ := he _ _ (lookup_some_mem h)
    obtain ⟨h0, h1, h2⟩ := hk _ _ _ _ _ _ _ _ hkey
    subst h0; subst h1; subst h2
    refine ⟨?_, ?_, ?_, ?_⟩
    · simp only [StepFresh, hq]
      refine ⟨⟨ord', hP', hb rfl⟩, ?_, ?_⟩
      · intro hc; cases hc
      · intro _; trivial
    · rw [hq]; exact he
    · rw [hq]
    · rw [hq]
  | none =>
    have hq := engineQuery_miss S nf key e q ord f h
    refine ⟨?_, ?_, ?_, ?_⟩
    · simp only [StepFresh, hq, Eng.fresh, engineQuery_new]
      refine ⟨⟨ord, hP, rfl⟩, ?_, ?_⟩
      · intro _; trivial
      · intro hc; simp [outOf] at hc
    · rw [hq]
      cases hm : e.cfg.memo with
      | false => simpa [hm] using he
      | true =>
        simp only [if_true]
        intro k b hmem
        simp only [List.mem_cons] at hmem
        cases hmem with
        | inl heq =>
          cases heq
          exact ⟨e.rules.kb.version, q, f, ord, hP, rfl, Nat.le_refl _, fun _ => rfl⟩
        | inr hmem => exact he k b hmem
    · rw [hq]
      cases hm : e.cfg.memo <;> simp
    · rw [hq]
      cases hm : e.cfg.memo <;> simp

omit [DecidableEq K] in
/-- a knowledge-base edit keeps the invariant: the version moved (every entry is dead) or nothing changed -/
theorem engCacheOK_kb (S : Search Q) (nm : Naming) (key : Nat → Q → Nat → Facts → K) (P : Ord → Prop) (e : Eng K)
    (he : EngCacheOK S key P e) (op : C09.KbOp) :
    EngCacheOK S key P { e with rules := C09.engStep nm e.rules (.kb op) } := by
  intro k b hm
  obtain ⟨v, q, f, ord, hP, hkey, hle, hb⟩ := he k b hm
  have hle' := kbStep_version_le e.rules.kb op
  refine ⟨v, q, f, ord, hP, hkey, Nat.le_trans hle hle', ?_⟩
  intro hv
  simp only [C09.engStep] at hv ⊢
  have hsame : (C09.kbStep e.rules.kb op).version = e.rules.kb.version := by omega
  have hkb := kbStep_version_eq e.rules.kb op hsame
  rw [hkb]
  exact hb (by omega)

/-- one step of any kind -/
theorem engineStep_ok (S : Search Q) (nm : Naming) (nf : Nat) (key : Nat → Q → Nat → Facts → K) (P : Ord → Prop)
    (hk : KeyDet key) (s : HState K) (he : EngCacheOK S key P s.1) (st : Step Q)
    (hP : ∀ q ord, st = .query q ord → P ord) :
    StepFresh S nm nf key P s st ∧ EngCacheOK S key P (engineStep S nm nf key s st).1.1 := by
  obtain ⟨e, f⟩ := s
  cases st with
  | setFacts f' => exact ⟨rfl, he⟩
  | setConfig c => exact ⟨rfl, engCacheOK_new S key P _ c⟩
  | query q ord =>
    have h := engineQuery_ok S nm nf key P hk e he q ord (hP q ord rfl) f
    exact ⟨h.1, h.2.1⟩
  | aggregate q ord => exact ⟨rfl, he⟩
  | badAggregate => exact ⟨rfl, he⟩
  | kb op => exact ⟨rfl, engCacheOK_kb S nm key P e he op⟩
  | rebuild => exact ⟨rfl, engCacheOK_new S key P _ _⟩

end C11
