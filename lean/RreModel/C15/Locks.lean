/-
C15 (schedules) — lock programs of the `KnowledgeBase` methods and a small abstract interleaving
semantics. A method is "acquire l₁ … acquire lₙ (in program order); body; release everything":
the Rust guards are `let` bindings that live to the end of the function.
The table of the real methods is *generated from the source text* (Generated/KbLocks.lean).
-/
namespace C15.Locks

inductive Mode where
  | read | write
deriving DecidableEq, Repr

/-- one acquisition; `lock` = rank of the field in the declaration order of `struct KnowledgeBase`
(rules = 0 < rule_index = 1 < version = 2); `toEnd` = bound by a `let` at function-body level (held to the
end of the method) as opposed to a temporary guard released at the end of its statement -/
structure Acq where
  lock : Nat
  mode : Mode
  toEnd : Bool := true
deriving DecidableEq, Repr

/-- one row of the generated table -/
structure Method where
  name : String
  acqs : List Acq            -- textual order, nested `self.m()` calls inlined
  earlyRelease : Bool        -- an explicit `drop(guard)` or a guard bound in an inner block
  composite : Bool := false  -- takes no lock itself: a sequence of complete calls of other methods (each atomic on its own)
deriving DecidableEq, Repr

/-- strictly increasing lock ranks -/
def increasing : List Nat → Bool
  | [] => true
  | [_] => true
  | a :: b :: rest => a < b && increasing (b :: rest)

def Method.ordered (m : Method) : Bool := increasing (m.acqs.map (·.lock))

def Method.isMutator (m : Method) : Bool := m.acqs.any (fun a => a.mode == .write)

/-- a mutator's first acquisition is the write lock of rank 0 (`rules`), held to the end -/
def Method.writeFirst (m : Method) : Bool :=
  !m.isMutator || m.acqs.head? == some { lock := 0, mode := .write, toEnd := true }

/-- two-phase: nothing is acquired after a release — every guard is held to the end, except that
the last acquisition may be a temporary -/
def twoPhaseAcqs : List Acq → Bool
  | [] => true
  | [_] => true
  | a :: b :: rest => a.toEnd && twoPhaseAcqs (b :: rest)

def Method.twoPhase (m : Method) : Bool := m.composite || (!m.earlyRelease && twoPhaseAcqs m.acqs)

/-! ### interleaving semantics -/

structure Thread where
  held : List Acq
  todo : List Acq
  done : Bool
deriving DecidableEq, Repr

def Thread.start (prog : List Acq) : Thread := { held := [], todo := prog, done := false }

/-- `RwLock` admission: an acquisition is compatible with the other threads when every guard they
hold on the same lock is a read guard and the request is a read too -/
def rwCompatible (a : Acq) (others : List Thread) : Prop :=
  ∀ u ∈ others, ∀ h ∈ u.held, h.lock = a.lock → h.mode = .read ∧ a.mode = .read

/-- steps of one thread, given an admission policy `pol` (which may be stricter than
`rwCompatible`, e.g. writer preference: it sees the request and all the other threads) -/
inductive TStep (pol : Acq → List Thread → Prop) (others : List Thread) : Thread → Thread → Prop where
  | acquire (held : List Acq) (a : Acq) (rest : List Acq) :
      pol a others → TStep pol others ⟨held, a :: rest, false⟩ ⟨held ++ [a], rest, false⟩
  | finish (held : List Acq) : TStep pol others ⟨held, [], false⟩ ⟨[], [], true⟩

inductive Step (pol : Acq → List Thread → Prop) : List Thread → List Thread → Prop where
  | mk (pre post : List Thread) (t t' : Thread) :
      TStep pol (pre ++ post) t t' → Step pol (pre ++ t :: post) (pre ++ t' :: post)

inductive Reach (pol : Acq → List Thread → Prop) : List Thread → List Thread → Prop where
  | refl (s : List Thread) : Reach pol s s
  | tail {s s' s'' : List Thread} : Reach pol s s' → Step pol s' s'' → Reach pol s s''

/-- some thread has not finished and no thread can move -/
def Deadlock (pol : Acq → List Thread → Prop) (s : List Thread) : Prop :=
  (∃ t ∈ s, t.done = false) ∧ ¬ ∃ s', Step pol s s'

/-- the only thing assumed of the admission policy: a lock that nobody holds is granted to one of
the threads waiting for it (true of plain `RwLock` compatibility and of any queueing /
writer-preferring implementation) -/
def Fair (pol : Acq → List Thread → Prop) : Prop :=
  ∀ (s : List Thread) (L : Nat),
    (∀ u ∈ s, ∀ h ∈ u.held, h.lock ≠ L) →
    (∃ t ∈ s, t.done = false ∧ ∃ a rest, t.todo = a :: rest ∧ a.lock = L) →
    ∃ pre post held a rest, s = pre ++ ⟨held, a :: rest, false⟩ :: post ∧ a.lock = L ∧ pol a (pre ++ post)

/-- every thread's held-then-pending lock ranks are strictly increasing; finished threads hold nothing -/
def WF (s : List Thread) : Prop :=
  ∀ t ∈ s, ((t.held ++ t.todo).map (·.lock)).Pairwise (· < ·) ∧ (t.done = true → t.held = [] ∧ t.todo = [])

end C15.Locks
