import RreModel.C15.Spec
/-
C15 — helper lemmas: the stable insertion sort (sorted, permutation, stable, commutes with
filters and salience-preserving maps), the name→position index, and the simulation between
the model (`KB`) and the abstract specification (`Spec`).
-/
namespace C15

/-! ### the stable descending sort -/

/-- descending by `key` (non-strict) -/
def SortedDesc {α : Type} (key : α → Int) (l : List α) : Prop := l.Pairwise (fun a b => key b ≤ key a)

theorem insertDesc_perm {α : Type} (key : α → Int) (x : α) (l : List α) :
    (insertDesc key x l).Perm (x :: l) := by
  induction l with
  | nil => exact List.Perm.refl _
  | cons y ys ih =>
    unfold insertDesc
    split
    · exact List.Perm.refl _
    · exact (List.Perm.cons y ih).trans (List.Perm.swap x y ys)

theorem foldl_insertDesc_perm {α : Type} (key : α → Int) (l acc : List α) :
    (l.foldl (fun acc x => insertDesc key x acc) acc).Perm (acc ++ l) := by
  induction l generalizing acc with
  | nil => simp
  | cons x xs ih =>
    simp only [List.foldl_cons]
    refine (ih _).trans ?_
    have h1 : (insertDesc key x acc ++ xs).Perm ((x :: acc) ++ xs) :=
      List.Perm.append_right xs (insertDesc_perm key x acc)
    refine h1.trans ?_
    simpa using (List.perm_middle (a := x) (l₁ := acc) (l₂ := xs)).symm

theorem sortDesc_perm {α : Type} (key : α → Int) (l : List α) : (sortDesc key l).Perm l := by
  simpa [sortDesc] using foldl_insertDesc_perm key l []

theorem mem_insertDesc {α : Type} (key : α → Int) (x y : α) (l : List α) :
    y ∈ insertDesc key x l ↔ y = x ∨ y ∈ l := by
  rw [(insertDesc_perm key x l).mem_iff]; simp

theorem insertDesc_sorted {α : Type} (key : α → Int) (x : α) (l : List α) (h : SortedDesc key l) :
    SortedDesc key (insertDesc key x l) := by
  induction l with
  | nil => simp [insertDesc, SortedDesc]
  | cons y ys ih =>
    unfold insertDesc
    have hy := List.pairwise_cons.1 h
    split
    · rename_i hlt
      refine List.pairwise_cons.2 ⟨?_, h⟩
      intro z hz
      rcases List.mem_cons.1 hz with rfl | hz
      · omega
      · have := hy.1 z hz; omega
    · rename_i hge
      refine List.pairwise_cons.2 ⟨?_, ih hy.2⟩
      intro z hz
      rcases (mem_insertDesc key x z ys).1 hz with rfl | hz
      · omega
      · exact hy.1 z hz

theorem foldl_insertDesc_sorted {α : Type} (key : α → Int) (l acc : List α) (h : SortedDesc key acc) :
    SortedDesc key (l.foldl (fun acc x => insertDesc key x acc) acc) := by
  induction l generalizing acc with
  | nil => exact h
  | cons x xs ih => exact ih _ (insertDesc_sorted key x acc h)

theorem sortDesc_sorted {α : Type} (key : α → Int) (l : List α) : SortedDesc key (sortDesc key l) :=
  foldl_insertDesc_sorted key l [] List.Pairwise.nil

theorem insertDesc_of_all_ge {α : Type} (key : α → Int) (x : α) (l : List α)
    (h : ∀ y ∈ l, key x ≤ key y) : insertDesc key x l = l ++ [x] := by
  induction l with
  | nil => rfl
  | cons y ys ih =>
    unfold insertDesc
    have hy := h y (by simp)
    rw [if_neg (by omega)]
    rw [ih (fun z hz => h z (by simp [hz]))]
    rfl

theorem foldl_insertDesc_of_sorted {α : Type} (key : α → Int) (l acc : List α)
    (h : SortedDesc key (acc ++ l)) : l.foldl (fun acc x => insertDesc key x acc) acc = acc ++ l := by
  induction l generalizing acc with
  | nil => simp
  | cons x xs ih =>
    simp only [List.foldl_cons]
    have hp := List.pairwise_append.1 h
    have hx : insertDesc key x acc = acc ++ [x] :=
      insertDesc_of_all_ge key x acc (fun y hy => hp.2.2 y hy x (by simp))
    rw [hx, ih (acc ++ [x]) (by simpa [SortedDesc, List.append_assoc] using h)]
    simp

/-- sorting a sorted list changes nothing -/
theorem sortDesc_of_sorted {α : Type} (key : α → Int) (l : List α) (h : SortedDesc key l) :
    sortDesc key l = l := by
  simpa [sortDesc] using foldl_insertDesc_of_sorted key l [] (by simpa using h)

theorem sortDesc_append_singleton {α : Type} (key : α → Int) (l : List α) (x : α) :
    sortDesc key (l ++ [x]) = insertDesc key x (sortDesc key l) := by
  simp [sortDesc, List.foldl_append]

theorem insertDesc_cons {α : Type} (key : α → Int) (x y : α) (ys : List α) :
    insertDesc key x (y :: ys) = if key y < key x then x :: y :: ys else y :: insertDesc key x ys := rfl

theorem insertDesc_of_all_lt {α : Type} (key : α → Int) (x : α) (l : List α)
    (h : ∀ y ∈ l, key y < key x) : insertDesc key x l = x :: l := by
  cases l with
  | nil => rfl
  | cons y ys => unfold insertDesc; rw [if_pos (h y (by simp))]

/-- on a sorted list, insertion commutes with filtering -/
theorem insertDesc_filter {α : Type} (key : α → Int) (q : α → Bool) (x : α) (l : List α)
    (hs : SortedDesc key l) :
    (insertDesc key x l).filter q = if q x then insertDesc key x (l.filter q) else l.filter q := by
  induction l with
  | nil => cases hq : q x <;> simp [insertDesc, hq]
  | cons y ys ih =>
    have hy := List.pairwise_cons.1 hs
    by_cases hlt : key y < key x
    · have hall : ∀ z ∈ (y :: ys).filter q, key z < key x := by
        intro z hz
        have hz' := (List.mem_filter.1 hz).1
        rcases List.mem_cons.1 hz' with rfl | hz'
        · exact hlt
        · have := hy.1 z hz'; omega
      rw [insertDesc_cons, if_pos hlt, insertDesc_of_all_lt key x _ hall]
      cases hqx : q x <;> simp [List.filter_cons, hqx]
    · rw [insertDesc_cons, if_neg hlt]
      have ih' := ih hy.2
      cases hqx : q x <;> cases hqy : q y <;> simp [List.filter_cons, hqx, hqy, insertDesc_cons, hlt, ih']

theorem foldl_insertDesc_filter {α : Type} (key : α → Int) (q : α → Bool) (l acc : List α)
    (hs : SortedDesc key acc) :
    (l.foldl (fun acc x => insertDesc key x acc) acc).filter q =
      (l.filter q).foldl (fun acc x => insertDesc key x acc) (acc.filter q) := by
  induction l generalizing acc with
  | nil => simp
  | cons x xs ih =>
    simp only [List.foldl_cons]
    rw [ih _ (insertDesc_sorted key x acc hs), insertDesc_filter key q x acc hs]
    cases hqx : q x <;> simp [List.filter_cons, hqx]

/-- filtering commutes with the stable sort -/
theorem sortDesc_filter {α : Type} (key : α → Int) (q : α → Bool) (l : List α) :
    (sortDesc key l).filter q = sortDesc key (l.filter q) := by
  simpa [sortDesc] using foldl_insertDesc_filter key q l [] List.Pairwise.nil

theorem insertDesc_map {α : Type} (key : α → Int) (f : α → α) (hf : ∀ a, key (f a) = key a) (x : α) (l : List α) :
    (insertDesc key x l).map f = insertDesc key (f x) (l.map f) := by
  induction l with
  | nil => rfl
  | cons y ys ih =>
    simp only [insertDesc, List.map_cons, hf]
    split <;> simp [ih]

theorem foldl_insertDesc_map {α : Type} (key : α → Int) (f : α → α) (hf : ∀ a, key (f a) = key a) (l acc : List α) :
    (l.foldl (fun acc x => insertDesc key x acc) acc).map f =
      (l.map f).foldl (fun acc x => insertDesc key x acc) (acc.map f) := by
  induction l generalizing acc with
  | nil => simp
  | cons x xs ih => simp only [List.foldl_cons, List.map_cons]; rw [ih, insertDesc_map key f hf]

/-- a key-preserving map commutes with the stable sort -/
theorem sortDesc_map {α : Type} (key : α → Int) (f : α → α) (hf : ∀ a, key (f a) = key a) (l : List α) :
    (sortDesc key l).map f = sortDesc key (l.map f) := by
  simpa [sortDesc] using foldl_insertDesc_map key f hf l []

/-- **stability**: the elements of any one key keep their original relative order -/
theorem sortDesc_stable {α : Type} (key : α → Int) (l : List α) (s : Int) :
    (sortDesc key l).filter (fun a => key a == s) = l.filter (fun a => key a == s) := by
  rw [sortDesc_filter]
  apply sortDesc_of_sorted
  unfold SortedDesc
  rw [List.pairwise_iff_forall_sublist]
  intro a b hab
  have ha := hab.subset (List.mem_cons_self)
  have hb := hab.subset (List.mem_cons_of_mem _ List.mem_cons_self)
  have ha' := (List.mem_filter.1 ha).2
  have hb' := (List.mem_filter.1 hb).2
  simp only [beq_iff_eq] at ha' hb'
  omega

/-! ### positions and the name → position index -/

/-- position of the first rule named `n` -/
def posOf (n : Nat) : List Rule → Option Nat
  | [] => none
  | r :: rs => if r.name = n then some 0 else (posOf n rs).map (· + 1)

def names (l : List Rule) : List Nat := l.map (·.name)

theorem posOf_eq_none {n : Nat} {l : List Rule} : posOf n l = none ↔ n ∉ names l := by
  induction l with
  | nil => simp [posOf, names]
  | cons r rs ih =>
    simp only [posOf, names, List.map_cons, List.mem_cons, not_or]
    by_cases h : r.name = n
    · simp [h]
    · simp only [if_neg h, Option.map_eq_none_iff, ih, names]
      constructor
      · intro h'; exact ⟨fun e => h e.symm, h'⟩
      · intro h'; exact h'.2

theorem posOf_some {n p : Nat} {l : List Rule} (h : posOf n l = some p) :
    ∃ r, l[p]? = some r ∧ r.name = n := by
  induction l generalizing p with
  | nil => simp [posOf] at h
  | cons r rs ih =>
    simp only [posOf] at h
    by_cases hn : r.name = n
    · simp only [if_pos hn, Option.some.injEq] at h; subst h; exact ⟨r, by simp, hn⟩
    · simp only [if_neg hn, Option.map_eq_some_iff] at h
      obtain ⟨q, hq, rfl⟩ := h
      obtain ⟨r', hr', hn'⟩ := ih hq
      exact ⟨r', by simpa using hr', hn'⟩

/-- with distinct names, the index of a stored rule is its position -/
theorem posOf_of_getElem {p : Nat} {r : Rule} {l : List Rule} (hnd : (names l).Nodup)
    (h : l[p]? = some r) : posOf r.name l = some p := by
  induction l generalizing p with
  | nil => simp at h
  | cons x xs ih =>
    simp only [names, List.map_cons, List.nodup_cons] at hnd
    cases p with
    | zero => simp at h; subst h; simp [posOf]
    | succ p =>
      simp at h
      have hmem : r ∈ xs := List.mem_of_getElem? h
      have hne : x.name ≠ r.name := fun e => hnd.1 (e ▸ List.mem_map.2 ⟨r, hmem, rfl⟩)
      simp [posOf, hne, ih hnd.2 h]

theorem posOf_find {n : Nat} {l : List Rule} :
    (match posOf n l with | some p => l[p]? | none => none) = l.find? (fun r => r.name == n) := by
  induction l with
  | nil => simp [posOf]
  | cons r rs ih =>
    by_cases hn : r.name = n
    · simp [posOf, hn, List.find?_cons]
    · have hb : (r.name == n) = false := by simp [hn]
      simp only [posOf, if_neg hn, List.find?_cons, hb]
      rw [← ih]
      cases posOf n rs <;> simp

theorem eraseIdx_posOf {n p : Nat} {l : List Rule} (hnd : (names l).Nodup) (h : posOf n l = some p) :
    l.eraseIdx p = l.filter (fun r => r.name != n) := by
  induction l generalizing p with
  | nil => simp [posOf] at h
  | cons x xs ih =>
    simp only [names, List.map_cons, List.nodup_cons] at hnd
    simp only [posOf] at h
    by_cases hn : x.name = n
    · simp only [if_pos hn, Option.some.injEq] at h; subst h
      have : ∀ a ∈ xs, (a.name != n) = true := by
        intro a ha
        simp only [bne_iff_ne, ne_eq]
        intro e
        exact hnd.1 (List.mem_map.2 ⟨a, ha, by rw [e, hn]⟩)
      simp [List.filter_cons, hn, List.filter_eq_self.2 this]
    · simp only [if_neg hn, Option.map_eq_some_iff] at h
      obtain ⟨q, hq, rfl⟩ := h
      simp [List.filter_cons, hn, ih hnd.2 hq]

theorem set_posOf {n p : Nat} {b : Bool} {r : Rule} {l : List Rule} (hnd : (names l).Nodup)
    (h : posOf n l = some p) (hr : l[p]? = some r) :
    l.set p { r with enabled := b } = l.map (setEn n b) := by
  induction l generalizing p with
  | nil => simp [posOf] at h
  | cons x xs ih =>
    simp only [names, List.map_cons, List.nodup_cons] at hnd
    simp only [posOf] at h
    by_cases hn : x.name = n
    · simp only [if_pos hn, Option.some.injEq] at h; subst h
      simp at hr; subst hr
      have h1 : ∀ a ∈ xs, setEn n b a = id a := by
        intro a ha
        simp only [setEn, id]
        rw [if_neg]
        intro e
        exact hnd.1 (List.mem_map.2 ⟨a, ha, by rw [e, hn]⟩)
      have : xs.map (setEn n b) = xs := by rw [List.map_congr_left h1, List.map_id]
      simp [setEn, hn, this]
    · simp only [if_neg hn, Option.map_eq_some_iff] at h
      obtain ⟨q, hq, rfl⟩ := h
      simp at hr
      simp [setEn, hn, ih hnd.2 hq hr]

/-! ### the HashMap model -/

theorem idxGet_filter_ne (m : Index) (k n : Nat) :
    idxGet (m.filter (fun p => !decide (p.1 = k))) n = if n = k then none else idxGet m n := by
  induction m with
  | nil => simp [idxGet]
  | cons p rest ih =>
    obtain ⟨k', v⟩ := p
    by_cases h1 : k' = k
    · subst h1
      by_cases h2 : n = k'
      · subst h2; simp [List.filter_cons, ih]
      · have h2' : ¬ k' = n := fun e => h2 e.symm
        simp [List.filter_cons, ih, idxGet, h2, h2']
    · by_cases h2 : k' = n
      · subst h2; simp [List.filter_cons, idxGet, h1]
      · simp [List.filter_cons, idxGet, h1, h2, ih]

theorem idxGet_idxInsert (m : Index) (k v n : Nat) :
    idxGet (idxInsert m k v) n = if k = n then some v else idxGet m n := by
  by_cases h : k = n
  · simp [idxInsert, idxGet, h]
  · have h' : ¬ n = k := fun e => h e.symm
    simp [idxInsert, idxGet, h, h', idxGet_filter_ne]

theorem idxGet_rebuildFrom (rs : List Rule) (pos : Nat) (m : Index) (n : Nat) (hnd : (names rs).Nodup) :
    idxGet (rebuildFrom pos rs m) n =
      match posOf n rs with
      | some p => some (pos + p)
      | none => idxGet m n := by
  induction rs generalizing pos m with
  | nil => simp [rebuildFrom, posOf]
  | cons r rs ih =>
    simp only [names, List.map_cons, List.nodup_cons] at hnd
    simp only [rebuildFrom, posOf]
    rw [ih (pos + 1) _ hnd.2]
    by_cases hn : r.name = n
    · have : posOf n rs = none := posOf_eq_none.2 (hn ▸ hnd.1)
      simp [hn, this, idxGet_idxInsert]
    · simp only [if_neg hn, idxGet_idxInsert]
      cases posOf n rs with
      | none => simp
      | some q => simp; omega

theorem idxGet_rebuild (rs : List Rule) (n : Nat) (hnd : (names rs).Nodup) :
    idxGet (rebuild rs) n = posOf n rs := by
  rw [rebuild, idxGet_rebuildFrom rs 0 [] n hnd]
  cases posOf n rs <;> simp [idxGet]

theorem idxKeys_rebuildFrom (rs : List Rule) (pos : Nat) (m : Index) (hnd : (names rs).Nodup)
    (hdis : ∀ r ∈ rs, r.name ∉ idxKeys m) :
    idxKeys (rebuildFrom pos rs m) = (names rs).reverse ++ idxKeys m := by
  induction rs generalizing pos m with
  | nil => simp [rebuildFrom, names]
  | cons r rs ih =>
    simp only [names, List.map_cons, List.nodup_cons] at hnd
    have hr : r.name ∉ idxKeys m := hdis r (by simp)
    have hfil : m.filter (fun p => !decide (p.1 = r.name)) = m := by
      rw [List.filter_eq_self]
      intro p hp
      simp only [Bool.not_eq_eq_eq_not, Bool.not_true, decide_eq_false_iff_not]
      intro e
      exact hr (List.mem_map.2 ⟨p, hp, e⟩)
    have hkeys : idxKeys (idxInsert m r.name pos) = r.name :: idxKeys m := by
      simp [idxInsert, idxKeys, hfil]
    simp only [rebuildFrom]
    rw [ih (pos + 1) _ hnd.2, hkeys]
    · simp [names]
    · intro r' hr'
      rw [hkeys]
      simp only [List.mem_cons, not_or]
      refine ⟨?_, hdis r' (by simp [hr'])⟩
      intro e
      exact hnd.1 (e ▸ List.mem_map.2 ⟨r', hr', rfl⟩)

theorem idxKeys_rebuild (rs : List Rule) (hnd : (names rs).Nodup) :
    (idxKeys (rebuild rs)).Perm (names rs) := by
  rw [rebuild, idxKeys_rebuildFrom rs 0 [] hnd (by simp [idxKeys])]
  simpa [idxKeys] using List.reverse_perm (names rs)

/-! ### the simulation relation -/

/-- the model state `kb` represents the abstract state `a` -/
structure Rel (kb : KB) (a : Spec) : Prop where
  rules : kb.rules = a.listing
  version : kb.version = a.version
  nodup : (names a.rules).Nodup
  index : ∀ n, idxGet kb.index n = posOf n kb.rules
  keys : (idxKeys kb.index).Perm (names kb.rules)

theorem names_listing_perm (a : Spec) : (names a.listing).Perm (names a.rules) :=
  (sortDesc_perm _ a.rules).map _

theorem Rel.nodupC {kb a} (h : Rel kb a) : (names kb.rules).Nodup := by
  rw [h.rules]; exact (names_listing_perm a).nodup_iff.2 h.nodup

theorem Rel.perm {kb a} (h : Rel kb a) : kb.rules.Perm a.rules := by
  rw [h.rules]; exact sortDesc_perm _ _

theorem Rel.sortedC {kb a} (h : Rel kb a) : SortedDesc (·.salience) kb.rules := by
  rw [h.rules]; exact sortDesc_sorted _ _

theorem Rel.mem_names {kb a} (h : Rel kb a) (n : Nat) : n ∈ names kb.rules ↔ n ∈ names a.rules := by
  rw [h.rules]; exact (names_listing_perm a).mem_iff

theorem has_iff (a : Spec) (n : Nat) : a.has n = true ↔ n ∈ names a.rules := by
  simp [Spec.has, names]

theorem Rel.get_none {kb a} (h : Rel kb a) {n : Nat} (hg : idxGet kb.index n = none) : a.has n = false := by
  rw [h.index, posOf_eq_none, h.mem_names, ← has_iff] at hg
  simpa using hg

theorem Rel.get_some {kb a} (h : Rel kb a) {n p : Nat} (hg : idxGet kb.index n = some p) :
    a.has n = true ∧ posOf n kb.rules = some p := by
  rw [h.index] at hg
  refine ⟨?_, hg⟩
  rw [has_iff, ← h.mem_names]
  obtain ⟨r, hr, hn⟩ := posOf_some hg
  exact List.mem_map.2 ⟨r, List.mem_of_getElem? hr, hn⟩

/-- a rebuilt state over a freshly sorted vector represents the abstract state it was sorted from -/
theorem rel_rebuilt (rs : List Rule) (v : Nat) (hnd : (names rs).Nodup) :
    Rel { rules := sortDesc (·.salience) rs, index := rebuild (sortDesc (·.salience) rs), version := v }
        { rules := rs, version := v } := by
  have hnd' : (names (sortDesc (·.salience) rs)).Nodup :=
    ((sortDesc_perm _ rs).map _).nodup_iff.2 hnd
  exact ⟨rfl, rfl, hnd, fun n => idxGet_rebuild _ n hnd', idxKeys_rebuild _ hnd'⟩

theorem rel_init : Rel KB.init Spec.init :=
  ⟨rfl, rfl, by simp [Spec.init, names], fun n => by simp [KB.init, idxGet, posOf], by simp [KB.init, idxKeys, names]⟩

/-! ### one step of the simulation, method by method -/

theorem names_append (l : List Rule) (r : Rule) : names (l ++ [r]) = names l ++ [r.name] := by
  simp [names]

theorem sim_add {kb a} (h : Rel kb a) (r : Rule) :
    Rel (addRule kb r).1 (specStep a (.add r)).1 ∧ (addRule kb r).2 = (specStep a (.add r)).2 := by
  unfold addRule
  cases hg : idxGet kb.index r.name with
  | some p =>
    have hh := (h.get_some hg).1
    simp only [specStep, hh, if_true]
    exact ⟨h, by first | rfl | trivial⟩
  | none =>
    have hh := h.get_none hg
    simp only [specStep, hh]
    have hrules : sortDesc (·.salience) (kb.rules ++ [r]) = sortDesc (·.salience) (a.rules ++ [r]) := by
      rw [sortDesc_append_singleton, sortDesc_of_sorted _ _ h.sortedC, h.rules, Spec.listing,
        ← sortDesc_append_singleton]
    have hnd : (names (a.rules ++ [r])).Nodup := by
      rw [names_append, List.nodup_append]
      refine ⟨h.nodup, by simp, ?_⟩
      intro x hx y hy
      simp only [List.mem_singleton] at hy
      subst hy
      intro e; subst e
      have := (has_iff a r.name).2 hx
      rw [hh] at this; cases this
    simp only [hrules, h.version]
    exact ⟨rel_rebuilt _ _ hnd, by simp⟩

theorem names_filter_nodup (l : List Rule) (q : Rule → Bool) (h : (names l).Nodup) :
    (names (l.filter q)).Nodup :=
  List.Nodup.sublist (List.Sublist.map _ List.filter_sublist) h

theorem sim_remove {kb a} (h : Rel kb a) (n : Nat) :
    Rel (removeRule kb n).1 (specStep a (.remove n)).1 ∧ (removeRule kb n).2 = (specStep a (.remove n)).2 := by
  unfold removeRule
  cases hg : idxGet kb.index n with
  | none =>
    have hh := h.get_none hg
    simp only [specStep, hh]
    exact ⟨h, by simp⟩
  | some p =>
    obtain ⟨hh, hp⟩ := h.get_some hg
    simp only [specStep, hh, if_true]
    have hrules : kb.rules.eraseIdx p = sortDesc (·.salience) (a.rules.filter (fun r => r.name != n)) := by
      rw [eraseIdx_posOf h.nodupC hp, h.rules, Spec.listing, sortDesc_filter]
    simp only [hrules, h.version]
    exact ⟨rel_rebuilt _ _ (names_filter_nodup _ _ h.nodup), by first | rfl | trivial⟩

theorem setEn_name (n : Nat) (b : Bool) (r : Rule) : (setEn n b r).name = r.name := by
  unfold setEn; split <;> rfl

theorem setEn_salience (n : Nat) (b : Bool) (r : Rule) : (setEn n b r).salience = r.salience := by
  unfold setEn; split <;> rfl

theorem names_map_setEn (n : Nat) (b : Bool) (l : List Rule) : names (l.map (setEn n b)) = names l := by
  simp [names, List.map_map, Function.comp_def, setEn_name]

theorem posOf_map_setEn (n : Nat) (b : Bool) (m : Nat) (l : List Rule) :
    posOf m (l.map (setEn n b)) = posOf m l := by
  induction l with
  | nil => rfl
  | cons r rs ih => simp [posOf, setEn_name, ih]

theorem sim_setEnabled {kb a} (h : Rel kb a) (n : Nat) (b : Bool) :
    Rel (setEnabled kb n b).1 (specStep a (.setEnabled n b)).1 ∧
      (setEnabled kb n b).2 = (specStep a (.setEnabled n b)).2 := by
  unfold setEnabled
  cases hg : idxGet kb.index n with
  | none =>
    have hh := h.get_none hg
    simp only [specStep, hh]
    exact ⟨h, by simp⟩
  | some p =>
    obtain ⟨hh, hp⟩ := h.get_some hg
    obtain ⟨r, hr, _⟩ := posOf_some hp
    simp only [specStep, hh, if_true, setAt, hr]
    have hrules : kb.rules.set p { r with enabled := b } = sortDesc (·.salience) (a.rules.map (setEn n b)) := by
      rw [set_posOf h.nodupC hp hr, h.rules, Spec.listing, sortDesc_map _ _ (setEn_salience n b)]
    refine ⟨⟨?_, ?_, ?_, ?_, ?_⟩, by first | rfl | trivial⟩
    · exact hrules
    · simp [h.version]
    · simpa [names_map_setEn] using h.nodup
    · intro m
      show idxGet kb.index m = posOf m (kb.rules.set p { r with enabled := b })
      rw [set_posOf h.nodupC hp hr, posOf_map_setEn, h.index]
    · show (idxKeys kb.index).Perm (names (kb.rules.set p { r with enabled := b }))
      rw [set_posOf h.nodupC hp hr, names_map_setEn]
      exact h.keys

theorem sim_clear {kb a} (h : Rel kb a) :
    Rel (clear kb).1 (specStep a .clear).1 ∧ (clear kb).2 = (specStep a .clear).2 := by
  refine ⟨⟨rfl, ?_, ?_, ?_, ?_⟩, rfl⟩
  · simp [clear, specStep, h.version]
  · simp [specStep, names]
  · intro n; simp [clear, idxGet, posOf]
  · simp [clear, idxKeys, names]

/-! observers -/

theorem unique_name {l : List Rule} (hnd : (names l).Nodup) {x y : Rule} (hx : x ∈ l) (hy : y ∈ l)
    (e : x.name = y.name) : x = y := by
  induction l with
  | nil => cases hx
  | cons z zs ih =>
    simp only [names, List.map_cons, List.nodup_cons] at hnd
    rcases List.mem_cons.1 hx with rfl | hx' <;> rcases List.mem_cons.1 hy with rfl | hy'
    · rfl
    · exact absurd (List.mem_map.2 ⟨y, hy', e.symm⟩) hnd.1
    · exact absurd (List.mem_map.2 ⟨x, hx', e⟩) hnd.1
    · exact ih hnd.2 hx' hy'

theorem find_perm {l₁ l₂ : List Rule} (hp : l₁.Perm l₂) (hnd : (names l₁).Nodup) (n : Nat) :
    l₁.find? (fun r => r.name == n) = l₂.find? (fun r => r.name == n) := by
  cases h1 : l₁.find? (fun r => r.name == n) with
  | none =>
    symm
    rw [List.find?_eq_none] at h1 ⊢
    intro x hx
    exact h1 x (hp.mem_iff.2 hx)
  | some x =>
    have hx := List.mem_of_find?_eq_some h1
    have hxn := List.find?_some h1
    cases h2 : l₂.find? (fun r => r.name == n) with
    | none =>
      rw [List.find?_eq_none] at h2
      exact absurd hxn (h2 x (hp.mem_iff.1 hx))
    | some y =>
      have hy := hp.mem_iff.2 (List.mem_of_find?_eq_some h2)
      have hyn := List.find?_some h2
      simp only [beq_iff_eq] at hxn hyn
      rw [unique_name hnd hx hy (hxn.trans hyn.symm)]

theorem sim_getRule {kb a} (h : Rel kb a) (n : Nat) : getRule kb n = a.lookup n := by
  unfold getRule Spec.lookup
  rw [h.index]
  have := @posOf_find n kb.rules
  rw [find_perm h.perm h.nodupC n] at this
  rw [← this]
  cases posOf n kb.rules <;> rfl

theorem zipIdx_sorted (l : List Rule) (k : Nat) (h : SortedDesc (·.salience) l) :
    SortedDesc (fun (p : Rule × Nat) => p.1.salience) (l.zipIdx k) := by
  induction l generalizing k with
  | nil => simp [SortedDesc]
  | cons x xs ih =>
    have hx := List.pairwise_cons.1 h
    rw [List.zipIdx_cons]
    refine List.pairwise_cons.2 ⟨?_, ih (k + 1) hx.2⟩
    intro y hy
    obtain ⟨r, i⟩ := y
    have hm := (List.mem_zipIdx hy).2.2
    exact hx.1 r (hm ▸ List.getElem_mem _)

theorem bySalience_sorted {kb : KB} (h : SortedDesc (·.salience) kb.rules) :
    bySalience kb = List.range kb.rules.length := by
  unfold bySalience
  rw [sortDesc_of_sorted _ _ (zipIdx_sorted kb.rules 0 h), List.range_eq_range']
  exact List.zipIdx_map_snd 0 kb.rules

theorem Rel.length {kb a} (h : Rel kb a) : kb.rules.length = a.rules.length := by
  rw [h.rules]; exact (sortDesc_perm _ a.rules).length_eq

theorem sim_stats {kb a} (h : Rel kb a) : getStats kb = a.stats := by
  have hc : kb.rules.countP (·.enabled) = a.rules.countP (·.enabled) := by
    rw [h.rules]; exact (sortDesc_perm _ a.rules).countP_eq _
  simp only [getStats, Spec.stats]
  rw [hc, h.length, h.version, h.rules]

theorem agrees_of_eq {x y : Out} (e : x = y) : Out.agrees x y = true := by
  subst e
  cases x with
  | names ns => exact List.isPerm_iff.2 (List.Perm.refl _)
  | _ => simp [Out.agrees]

/-- **forward simulation**: every public method maps related states to related states and returns
what the specification returns (rule names as a multiset — HashMap order is unspecified) -/
theorem sim_step {kb a} (h : Rel kb a) (op : Op) :
    Rel (step kb op).1 (specStep a op).1 ∧ Out.agrees (step kb op).2 (specStep a op).2 = true := by
  cases op with
  | add r => exact ⟨(sim_add h r).1, agrees_of_eq (sim_add h r).2⟩
  | remove n => exact ⟨(sim_remove h n).1, agrees_of_eq (sim_remove h n).2⟩
  | setEnabled n b => exact ⟨(sim_setEnabled h n b).1, agrees_of_eq (sim_setEnabled h n b).2⟩
  | clear => exact ⟨(sim_clear h).1, agrees_of_eq (sim_clear h).2⟩
  | getRule n => exact ⟨h, agrees_of_eq (by simp [step, specStep, sim_getRule h n])⟩
  | getRules => exact ⟨h, agrees_of_eq (by simp [step, specStep, getRules, h.rules])⟩
  | getRuleNames =>
    refine ⟨h, ?_⟩
    simp only [step, specStep, Out.agrees, getRuleNames, List.isPerm_iff]
    exact h.keys.trans (h.perm.map _)
  | ruleCount => exact ⟨h, agrees_of_eq (by simp [step, specStep, ruleCount, h.length])⟩
  | bySalience =>
    exact ⟨h, agrees_of_eq (by simp [step, specStep, bySalience_sorted h.sortedC, h.length])⟩
  | byIndex i => exact ⟨h, agrees_of_eq (by simp [step, specStep, byIndex, h.rules])⟩
  | version => exact ⟨h, agrees_of_eq (by simp [step, specStep, h.version])⟩
  | stats => exact ⟨h, agrees_of_eq (by simp [step, specStep, sim_stats h])⟩

/-! ### whole histories -/

theorem rel_run (ops : List Op) : Rel (run ops) (specRun ops) := by
  suffices h : ∀ kb a, Rel kb a →
      Rel (ops.foldl (fun kb op => (step kb op).1) kb) (ops.foldl (fun a op => (specStep a op).1) a) from
    h _ _ rel_init
  induction ops with
  | nil => intro kb a h; exact h
  | cons op ops ih => intro kb a h; exact ih _ _ (sim_step h op).1

theorem outs_agree {kb a} (h : Rel kb a) (ops : List Op) :
    outsAgree (outs kb ops) (specOuts a ops) := by
  induction ops generalizing kb a with
  | nil => trivial
  | cons op ops ih => exact ⟨(sim_step h op).2, ih (sim_step h op).1⟩

theorem run_append (ops : List Op) (op : Op) : run (ops ++ [op]) = (step (run ops) op).1 := by
  simp [run, List.foldl_append]

theorem specRun_append (ops : List Op) (op : Op) : specRun (ops ++ [op]) = (specStep (specRun ops) op).1 := by
  simp [specRun, List.foldl_append]

/-- the version moves exactly on a successful change -/
theorem spec_version_step (a : Spec) (op : Op) :
    (specStep a op).1.version = if Out.changed op (specStep a op).2 then a.version + 1 else a.version := by
  cases op <;> simp [specStep, Out.changed]
  all_goals (split <;> simp [Out.changed])

theorem version_step {kb a} (h : Rel kb a) (op : Op) :
    (step kb op).1.version = if Out.changed op (specStep a op).2 then kb.version + 1 else kb.version := by
  rw [(sim_step h op).1.version, spec_version_step, h.version]

theorem snap_ok {kb a} (h : Rel kb a) (K : Nat) : snapOk K a kb.version (observe K kb) = true := by
  have hb : bySalience kb = List.range a.rules.length := by rw [bySalience_sorted h.sortedC, h.length]
  have hlen : a.listing.length = a.rules.length := (sortDesc_perm _ a.rules).length_eq
  have h1 : (List.range a.rules.length).map (fun i => (byIndex kb i).map (·.tag))
      = (sortDesc (·.salience) a.rules).map (fun r => some r.tag) := by
    rw [← hlen]
    simp only [byIndex, h.rules, Spec.listing]
    apply List.ext_getElem
    · simp
    · intro i hi1 hi2
      simp at hi1
      simp [hi1]
  have h2 : byIndex kb a.rules.length = none := by
    simp [byIndex, h.rules, ← hlen]
  have hlook : (List.range K).map (getRule kb) = (List.range K).map a.lookup :=
    List.map_congr_left (fun n _ => sim_getRule h n)
  have hnames : (getRuleNames kb).isPerm (a.rules.map (·.name)) = true :=
    List.isPerm_iff.2 (h.keys.trans (h.perm.map _))
  simp only [snapOk, observe, hb, hlook, hnames, getRules, ruleCount, sim_stats h, h.length, h1, h2,
    Spec.listing, h.rules, beq_self_eq_true, Bool.and_self, Bool.and_true, Option.map_none]
  simp [Spec.stats, h.version]
  have hlen' : (sortDesc (fun (x : Rule) => x.salience) a.rules).length = a.rules.length := hlen
  exact ⟨hlen', by rw [hlen']; exact h2⟩

theorem trace_ok (K : Nat) (full : Bool) (ops : List Op) {kb a} (h : Rel kb a) :
    runOk K a kb.version ops (trace K full kb ops) = true := by
  induction ops generalizing kb a with
  | nil => rfl
  | cons op ops ih =>
    have hs := sim_step h op
    simp only [trace, runOk, Bool.and_eq_true]
    refine ⟨?_, ih hs.1⟩
    simp only [stepOk, Bool.and_eq_true]
    refine ⟨⟨hs.2, ?_⟩, ?_⟩
    · rw [version_step h op]
      split <;> simp
    · split
      · rename_i s hsn
        split at hsn
        · cases hsn; exact snap_ok hs.1 K
        · cases hsn
      · rfl

/-! ### lookups follow the history -/

theorem find_append_singleton (l : List Rule) (r : Rule) (n : Nat) :
    (l ++ [r]).find? (fun x => x.name == n) =
      match l.find? (fun x => x.name == n) with
      | some c => some c
      | none => if r.name = n then some r else none := by
  rw [List.find?_append]
  cases l.find? (fun x => x.name == n) <;> simp [List.find?_cons]
  split <;> simp_all

theorem find_filter_ne (l : List Rule) (m n : Nat) :
    (l.filter (fun r => r.name != m)).find? (fun x => x.name == n) =
      if m = n then none else l.find? (fun x => x.name == n) := by
  induction l with
  | nil => simp
  | cons x xs ih =>
    by_cases h1 : x.name = m <;> by_cases h2 : x.name = n <;> by_cases h3 : m = n <;>
      simp_all [List.filter_cons, List.find?_cons]

theorem find_map_setEn (l : List Rule) (m n : Nat) (b : Bool) :
    (l.map (setEn m b)).find? (fun x => x.name == n) =
      if m = n then (l.find? (fun x => x.name == n)).map (fun r => { r with enabled := b })
      else l.find? (fun x => x.name == n) := by
  induction l with
  | nil => simp
  | cons x xs ih =>
    simp only [List.map_cons, List.find?_cons, setEn_name]
    by_cases h2 : x.name = n
    · have hb : (x.name == n) = true := by simp [h2]
      simp only [hb]
      by_cases h3 : m = n
      · subst h3; simp [setEn, h2]
      · have : ¬ x.name = m := fun e => h3 (e.symm.trans h2)
        simp [setEn, h3, this]
    · have hb : (x.name == n) = false := by simp [h2]
      simp only [hb]
      exact ih

theorem spec_lookup_step (a : Spec) (n : Nat) (op : Op) :
    (specStep a op).1.lookup n = latestStep n (a.lookup n) op := by
  cases op with
  | add r =>
    simp only [specStep, latestStep]
    by_cases hh : a.has r.name = true
    · simp only [hh, if_true]
      by_cases hn : r.name = n
      · simp only [hn, if_true]
        have : ∃ c, a.lookup n = some c := by
          rw [has_iff, names, List.mem_map] at hh
          obtain ⟨x, hx, hxn⟩ := hh
          cases hl : a.lookup n with
          | some c => exact ⟨c, rfl⟩
          | none =>
            simp only [Spec.lookup, List.find?_eq_none] at hl
            exact absurd (by simp [hxn, hn]) (hl x hx)
        obtain ⟨c, hc⟩ := this
        simp [hc]
      · simp [hn]
    · have hh' : a.has r.name = false := by simpa using hh
      simp only [hh', Bool.false_eq_true, if_false, Spec.lookup, find_append_singleton]
      by_cases hn : r.name = n
      · simp only [hn, if_true]
        cases a.rules.find? (fun x => x.name == n) <;> rfl
      · simp only [if_neg hn]
        cases a.rules.find? (fun x => x.name == n) <;> rfl
  | remove m =>
    simp only [specStep, latestStep]
    by_cases hh : a.has m = true
    · simp only [hh, if_true, Spec.lookup, find_filter_ne]
    · have hh' : a.has m = false := by simpa using hh
      simp only [hh', Bool.false_eq_true, if_false]
      by_cases hn : m = n
      · subst hn
        simp only [if_true]
        have : m ∉ names a.rules := fun hm => by rw [(has_iff a m).2 hm] at hh'; cases hh'
        simp only [Spec.lookup, List.find?_eq_none, beq_iff_eq]
        intro x hx e
        exact this (List.mem_map.2 ⟨x, hx, e⟩)
      · simp [hn]
  | setEnabled m b =>
    simp only [specStep, latestStep]
    by_cases hh : a.has m = true
    · simp only [hh, if_true, Spec.lookup, find_map_setEn]
    · have hh' : a.has m = false := by simpa using hh
      simp only [hh', Bool.false_eq_true, if_false]
      by_cases hn : m = n
      · subst hn
        have : m ∉ names a.rules := fun hm => by rw [(has_iff a m).2 hm] at hh'; cases hh'
        have hl : a.lookup m = none := by
          simp only [Spec.lookup, List.find?_eq_none, beq_iff_eq]
          intro x hx e
          exact this (List.mem_map.2 ⟨x, hx, e⟩)
        simp [hl]
      · simp [hn]
  | clear => simp [specStep, latestStep, Spec.lookup]
  | _ => simp [specStep, latestStep]

theorem spec_lookup_run (ops : List Op) (n : Nat) : (specRun ops).lookup n = latest n ops := by
  suffices h : ∀ a, (ops.foldl (fun a op => (specStep a op).1) a).lookup n = ops.foldl (latestStep n) (a.lookup n) by
    simpa [specRun, latest, Spec.init, Spec.lookup] using h Spec.init
  induction ops with
  | nil => intro a; rfl
  | cons op ops ih => intro a; simp only [List.foldl_cons]; rw [ih, spec_lookup_step]

/-! ### linearization search -/

theorem linSearch_sound_aux (fuel : Nat) (pending : List Event) (kb : KB)
    (h : linSearch fuel pending kb = true) :
    ∃ l : List Event, l.Perm pending ∧ RespectsRealTime l ∧ Replays kb l := by
  induction fuel generalizing pending kb with
  | zero =>
    simp only [linSearch, List.isEmpty_iff] at h
    subst h
    exact ⟨[], List.Perm.refl _, List.Pairwise.nil, trivial⟩
  | succ fuel ih =>
    simp only [linSearch, Bool.or_eq_true, List.isEmpty_iff, List.any_eq_true, Bool.and_eq_true] at h
    rcases h with h | ⟨e, he, ⟨hmin, hag⟩, hrec⟩
    · subst h
      exact ⟨[], List.Perm.refl _, List.Pairwise.nil, trivial⟩
    · obtain ⟨l, hp, hrt, hrep⟩ := ih _ _ hrec
      refine ⟨e :: l, ?_, ?_, ⟨hag, hrep⟩⟩
      · exact (List.Perm.cons e hp).trans (List.perm_cons_erase he).symm
      · refine List.pairwise_cons.2 ⟨?_, hrt⟩
        intro f hf
        have hf' : f ∈ pending := List.mem_of_mem_erase (hp.mem_iff.1 hf)
        simp only [minimal, List.all_eq_true, Bool.not_eq_eq_eq_not, Bool.not_true, decide_eq_false_iff_not] at hmin
        exact hmin f hf'

end C15
