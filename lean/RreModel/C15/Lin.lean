import RreModel.C15.Model
import RreModel.C15.Spec
import RreModel.C15.Locks
/-
C15 (schedules, WITH DATA) — an abstract concurrent machine for `KnowledgeBase`.

Shared state = the three protected components (`rules`, `rule_index`, `version`: one `KB` value),
each behind its own `RwLock` (lock rank 0 / 1 / 2 as in the generated table). A thread executes ONE
public method call `ops i`; its lock program `prog (ops i)` is the row of the lock table. The steps
of a thread are the atomic actions

  invoke · acquire* · (read k)* · BODY · (write k v)* · (release h)* · return

interleaved arbitrarily with the steps of every other thread:

* `acquire`  — the next lock of the program, granted only if the admission predicate allows it (the
               only thing assumed of it: it implies `RwLock` compatibility with the guards of the
               other threads — a writer excludes everybody, readers exclude writers);
* `read k`   — copies component `k` of the SHARED state into the thread's private view; allowed at any
               moment (and any number of times) while the thread holds lock `k` in some mode and has
               not run its body — a thread never sees a component it holds no guard for;
* `body`     — once every lock of the program is held and every held component has been read: a purely
               LOCAL computation, `Model.step` applied to the private view (which contains junk in the
               components that were not read); it fixes the call's result and the values to be written;
* `write k v`— after the body, overwrites the shared component `k` with an ARBITRARY value `v`, any number
               of times, while `k` is held in write mode (intermediate states of a mutation: a cleared,
               half-rebuilt index …);
* `release h`— after the body, in any order; a write guard may be released only when the shared component
               has the value the body computed for it (the last write installed the final value);
* `return`   — when nothing is held; the response carries the result fixed by the body.

So reads happen as early as the lock allows and writes as late as it allows; nothing of a call's effect
is atomic except the individual copy of one component. No Mathlib.
-/
namespace C15.Lin
open C15 C15.Locks

/-! ### components -/

/-- `a` and `b` have the same component `k` (rank of the lock that protects it) -/
def agreeOn : Nat → KB → KB → Prop
  | 0, a, b => a.rules = b.rules
  | 1, a, b => a.index = b.index
  | 2, a, b => a.version = b.version
  | _, _, _ => True

instance (k : Nat) (a b : KB) : Decidable (agreeOn k a b) := by
  unfold agreeOn; split <;> infer_instance

/-- `dst` with its component `k` overwritten by that of `src` -/
def put : Nat → KB → KB → KB
  | 0, s, d => { d with rules := s.rules }
  | 1, s, d => { d with index := s.index }
  | 2, s, d => { d with version := s.version }
  | _, _, d => d

/-! ### footprints: a lock program against the sequential step function -/

/-- the guards `held` cover component `k` in some mode / in write mode -/
def Holds (held : List Acq) (k : Nat) : Prop := ∃ h ∈ held, h.lock = k
def WHolds (held : List Acq) (k : Nat) : Prop := ∃ h ∈ held, h.lock = k ∧ h.mode = .write

/-- **Well-formedness of a lock program against `Model.step`** (semantic form): with exactly the
guards `held`,
* `dep`   — the result of the call and the new values of the write-held components are determined by the
            held components alone (the method reads only what it holds);
* `frame` — every component that is not held in write mode is left unchanged (it writes only what it
            holds in write mode). -/
structure FootprintOk (held : List Acq) (op : Op) : Prop where
  dep : ∀ a b : KB, (∀ k, Holds held k → agreeOn k a b) →
    (step a op).2 = (step b op).2 ∧ ∀ k, WHolds held k → agreeOn k (step a op).1 (step b op).1
  frame : ∀ (a : KB) (k : Nat), ¬ WHolds held k → agreeOn k (step a op).1 a

/-- constructor names of `Op` (a method without its arguments) -/
inductive OpKind where
  | add | remove | setEnabled | clear | getRule | getRules | getRuleNames | ruleCount | bySalience
  | byIndex | version | stats
deriving DecidableEq, Repr

def kindOf : Op → OpKind
  | .add _ => .add
  | .remove _ => .remove
  | .setEnabled _ _ => .setEnabled
  | .clear => .clear
  | .getRule _ => .getRule
  | .getRules => .getRules
  | .getRuleNames => .getRuleNames
  | .ruleCount => .ruleCount
  | .bySalience => .bySalience
  | .byIndex _ => .byIndex
  | .version => .version
  | .stats => .stats

def OpKind.all : List OpKind :=
  [.add, .remove, .setEnabled, .clear, .getRule, .getRules, .getRuleNames, .ruleCount, .bySalience,
   .byIndex, .version, .stats]

/-- **declared footprint** of each method of the sequential model: the components its `Model.step`
clause reads (`.read`) or may change (`.write`), by lock rank. Proved sufficient for `FootprintOk` in
LinLemmas.lean (`need_sound`) and shown necessary on witnesses in Theorems.lean. -/
def need : OpKind → List (Nat × Mode)
  | .add => [(0, .write), (1, .write), (2, .write)]
  | .remove => [(0, .write), (1, .write), (2, .write)]
  | .setEnabled => [(0, .write), (1, .read), (2, .write)]
  | .clear => [(0, .write), (1, .write), (2, .write)]
  | .getRule => [(0, .read), (1, .read)]
  | .getRules => [(0, .read)]
  | .getRuleNames => [(1, .read)]
  | .ruleCount => [(0, .read)]
  | .bySalience => [(0, .read)]
  | .byIndex => [(0, .read)]
  | .version => [(2, .read)]
  | .stats => [(0, .read), (2, .read)]

/-- decidable check: the guards `held` grant everything the footprint `nd` asks for -/
def covers (held : List Acq) (nd : List (Nat × Mode)) : Bool :=
  nd.all (fun p => held.any (fun h => h.lock == p.1 && (p.2 == .read || h.mode == .write)))

/-- the Rust method that `Op` constructor stands for -/
def methodName : OpKind → String
  | .add => "add_rule"
  | .remove => "remove_rule"
  | .setEnabled => "set_rule_enabled"
  | .clear => "clear"
  | .getRule => "get_rule"
  | .getRules => "get_rules"
  | .getRuleNames => "get_rule_names"
  | .ruleCount => "rule_count"
  | .bySalience => "get_rules_by_salience"
  | .byIndex => "get_rule_by_index"
  | .version => "version"
  | .stats => "get_statistics"

/-- further methods of the table that read the components a modelled one reads: `get_rules_snapshot` is the textual
twin of `get_rules`; `clone` copies the rules vector under ONE read guard on `rules` (the re-adding goes to the locks of
the NEW object, which no other thread can see yet) — the footprint of `get_rules`; `export_to_grl` renders the rules
vector and the version under a read guard on `rules` and a temporary one on `version` — the footprint of `get_statistics` -/
def aliases : List (String × OpKind) :=
  [("get_rules_snapshot", .getRules), ("clone", .getRules), ("export_to_grl", .stats)]

/-- a row may be read as "acquire everything (in the listed order), then the body, then release":
it takes its locks itself, drops nothing early, and only its LAST acquisition may be a temporary
guard (so that every guard is alive at the moment the last one has been taken), and what it holds at
that moment covers the declared footprint of the method -/
def rowOk (m : Method) (k : OpKind) : Bool :=
  !m.composite && !m.earlyRelease && twoPhaseAcqs m.acqs && covers m.acqs (need k)

def findRow (tbl : List Method) (name : String) : Option Method := tbl.find? (fun m => m.name == name)

/-- the lock program of a method according to a table: the acquisitions of its row -/
def progOfTbl (tbl : List Method) (k : OpKind) : List Acq :=
  match findRow tbl (methodName k) with
  | some m => m.acqs
  | none => []


/-- the check of the generated table: every modelled method (and every alias) has a row, and the row is `rowOk` -/
def tableFootprintsOk (tbl : List Method) : Bool :=
  (OpKind.all.map (fun k => (methodName k, k)) ++ aliases).all
    (fun p => match findRow tbl p.1 with
      | some m => rowOk m p.2
      | none => false)

/-! ### the machine -/

inductive Phase where
  | idle      -- not invoked yet
  | acq       -- invoked; acquiring locks / reading
  | done      -- body has run; writing back / releasing
  | ret       -- returned
deriving DecidableEq, Repr

structure TState where
  phase : Phase := .idle
  held : List Acq := []
  todo : List Acq := []
  seen : List Nat := []    -- components copied into `view` so far
  view : KB := {}          -- private copies (junk where nothing was read)
  new : KB := {}           -- what the body computed
  out : Out := .unit       -- the result fixed by the body

structure Cfg where
  shared : KB
  th : Nat → TState

def upd (th : Nat → TState) (i : Nat) (t : TState) : Nat → TState := fun j => if j = i then t else th j

def Cfg.init (kb : KB) : Cfg := ⟨kb, fun _ => {}⟩

/-- `RwLock` compatibility of a request of thread `i` with the guards of all other threads -/
def Compat (th : Nat → TState) (i : Nat) (a : Acq) : Prop :=
  ∀ j, j ≠ i → ∀ h ∈ (th j).held, h.lock = a.lock → h.mode = .read ∧ a.mode = .read

inductive Label where
  | inv (i : Nat)            -- invocation of call `i`
  | lin (i : Nat)            -- the body of call `i` runs (its linearization point)
  | ret (i : Nat) (o : Out)  -- response of call `i` with result `o`
  | tau (i : Nat)            -- any other step of call `i`
deriving DecidableEq, Repr

/-- one atomic step. `ops i` = the call executed by thread `i`, `prog` = its lock program,
`adm` = admission policy of the locks. -/
inductive Step (ops : Nat → Op) (prog : Op → List Acq) (adm : Cfg → Nat → Acq → Prop) :
    Cfg → Label → Cfg → Prop where
  | invoke (c : Cfg) (i : Nat) : (c.th i).phase = .idle →
      Step ops prog adm c (.inv i) ⟨c.shared, upd c.th i { phase := .acq, todo := prog (ops i) }⟩
  | acquire (c : Cfg) (i : Nat) (a : Acq) (rest : List Acq) :
      (c.th i).phase = .acq → (c.th i).todo = a :: rest → adm c i a →
      Step ops prog adm c (.tau i)
        ⟨c.shared, upd c.th i { c.th i with held := (c.th i).held ++ [a], todo := rest }⟩
  | read (c : Cfg) (i : Nat) (k : Nat) : (c.th i).phase = .acq → Holds (c.th i).held k →
      Step ops prog adm c (.tau i)
        ⟨c.shared, upd c.th i { c.th i with view := put k c.shared (c.th i).view, seen := k :: (c.th i).seen }⟩
  | body (c : Cfg) (i : Nat) : (c.th i).phase = .acq → (c.th i).todo = [] →
      (∀ h ∈ (c.th i).held, h.lock ∈ (c.th i).seen) →
      Step ops prog adm c (.lin i)
        ⟨c.shared, upd c.th i { c.th i with phase := .done, new := (step (c.th i).view (ops i)).1,
                                             out := (step (c.th i).view (ops i)).2 }⟩
  | write (c : Cfg) (i : Nat) (k : Nat) (v : KB) : (c.th i).phase = .done → WHolds (c.th i).held k →
      Step ops prog adm c (.tau i) ⟨put k v c.shared, c.th⟩
  | release (c : Cfg) (i : Nat) (h : Acq) : (c.th i).phase = .done → h ∈ (c.th i).held →
      (h.mode = .write → agreeOn h.lock c.shared (c.th i).new) →
      Step ops prog adm c (.tau i) ⟨c.shared, upd c.th i { c.th i with held := (c.th i).held.erase h }⟩
  | ret (c : Cfg) (i : Nat) : (c.th i).phase = .done → (c.th i).held = [] →
      Step ops prog adm c (.ret i (c.th i).out) ⟨c.shared, upd c.th i { c.th i with phase := .ret }⟩

/-- executions from the initial configuration (every thread idle, shared state `kb0`), with the trace of all labels -/
inductive Exec (ops : Nat → Op) (prog : Op → List Acq) (adm : Cfg → Nat → Acq → Prop) (kb0 : KB) :
    List Label → Cfg → Prop where
  | init : Exec ops prog adm kb0 [] (Cfg.init kb0)
  | step {tr : List Label} {c c' : Cfg} {l : Label} :
      Exec ops prog adm kb0 tr c → Step ops prog adm c l c' → Exec ops prog adm kb0 (tr ++ [l]) c'

/-- the admission policy never grants an incompatible guard (the safety half of `RwLock`) -/
def AdmSafe (adm : Cfg → Nat → Acq → Prop) : Prop := ∀ c i a, adm c i a → Compat c.th i a

/-- plain `RwLock` compatibility as the admission policy -/
def rwAdm : Cfg → Nat → Acq → Prop := fun c i a => Compat c.th i a

/-! ### what the theorem speaks about -/

/-- the linearization order: the calls in the order in which their bodies ran -/
def linOrder : List Label → List Nat
  | [] => []
  | .lin i :: tr => i :: linOrder tr
  | _ :: tr => linOrder tr

/-- sequential model: state after the calls `l` from `kb` -/
def runFrom (kb : KB) (l : List Op) : KB := l.foldl (fun kb op => (step kb op).1) kb

/-- sequential model: the calls `order` (thread ids) executed one after the other from `kb`, each with its result -/
def replay (ops : Nat → Op) : KB → List Nat → List (Nat × Out)
  | _, [] => []
  | kb, i :: l => (i, (step kb (ops i)).2) :: replay ops (step kb (ops i)).1 l

/-- `i` occurs before `j` in `l` -/
def Precedes (l : List Nat) (i j : Nat) : Prop := ∃ l1 l2 l3, l = l1 ++ i :: (l2 ++ j :: l3)

/-- no call is between its body and its response (calls that are still acquiring are allowed) -/
def Quiescent (c : Cfg) : Prop := ∀ i, (c.th i).phase ≠ .done

/-- every call that was invoked has returned -/
def Complete (tr : List Label) : Prop := ∀ i, Label.inv i ∈ tr → ∃ o, Label.ret i o ∈ tr

/-- **`order` is a linearization of the execution with trace `tr` that ended in configuration `c`.** -/
structure IsLinearization (ops : Nat → Op) (kb0 : KB) (tr : List Label) (c : Cfg) (order : List Nat) : Prop where
  /-- a total order of calls: nobody twice, … -/
  nodup : order.Nodup
  /-- … only calls that were invoked, … -/
  invoked : ∀ i, i ∈ order → Label.inv i ∈ tr
  /-- … and every call that returned (pending calls may or may not have taken effect) -/
  returned : ∀ i o, Label.ret i o ∈ tr → i ∈ order
  /-- (a) real time: a call that returned before another one was invoked comes first -/
  realTime : ∀ t1 t2 i o j, tr = t1 ++ Label.ret i o :: t2 → Label.inv j ∈ t2 → j ∈ order → Precedes order i j
  /-- (b) results: the SEQUENTIAL model, executing the calls one after the other in this order from the
  initial state, returns to every call exactly the result that the call returned in the execution -/
  results : ∀ i o, Label.ret i o ∈ tr → (i, o) ∈ replay ops kb0 order
  /-- (b) state: every component that is not at the moment write-held by a call that has run its body
  has, in the shared memory, the value it has in the sequential model after these calls … -/
  state : ∀ k, (∀ i, (c.th i).phase = .done → ¬ WHolds (c.th i).held k) →
    agreeOn k c.shared (runFrom kb0 (order.map ops))
  /-- … so whenever no call is between body and response, the shared memory IS the sequential state -/
  final : Quiescent c → c.shared = runFrom kb0 (order.map ops)

/-! ### the history of an execution in the vocabulary of the runtime oracle (Spec.lean: `Event`, `Replays`, `RespectsRealTime`) -/

def isInvOf (i : Nat) : Label → Bool
  | .inv j => j == i
  | _ => false

def isRetOf (i : Nat) : Label → Bool
  | .ret j _ => j == i
  | _ => false

/-- the completed call `i` with result `o` as an `Event`: invocation / response stamps = positions in the trace -/
def eventOf (ops : Nat → Op) (tr : List Label) (i : Nat) (o : Out) : Event :=
  { id := i, inv := tr.findIdx (isInvOf i), resp := tr.findIdx (isRetOf i), op := ops i, out := o }

def eventOfLabel (ops : Nat → Op) (tr : List Label) : Label → Option Event
  | .ret i o => some (eventOf ops tr i o)
  | _ => none

/-- what the harness records of a run: one `Event` per completed call (in response order) -/
def historyOf (ops : Nat → Op) (tr : List Label) : List Event := tr.filterMap (eventOfLabel ops tr)

/-- the calls that returned, in response order -/
def retIds : List Label → List Nat
  | [] => []
  | .ret i _ :: tr => i :: retIds tr
  | _ :: tr => retIds tr

end C15.Lin
