import RreModel.C15.Theorems
import RreModel.C15.Live
/-
C15 — property theorems, part (d): PROGRESS of the data-carrying machine of Lin.lean (helper lemmas in Live.lean).

Part (c) proves that every execution is linearizable but says nothing about whether executions get anywhere.
Here: no reachable configuration is a deadlock (`data_machine_deadlock_free`); every step of a call that is
not one of its two optional loops — copying a component AGAIN, storing into a write-held component — brings
the call strictly closer to its response (`data_machine_step_measure`), so an execution of `n` calls has at most
Σ (3·|row| + 3) such steps (`data_machine_progress_bounded`) and an infinite execution consists, from some point
on, of nothing but those optional steps (`data_machine_terminates_under_fairness`); an execution that cannot be
continued has completed every call and is linearizable (`data_machine_maximal_complete`, `kb_maximal_complete`).
-/
namespace C15
open C15.Locks C15.Generated C15.Lin

/-- **No deadlock in the data-carrying machine.** Lock programs that acquire in strictly increasing rank
(below some bound `R`), any admission policy that grants a lock nobody holds to one of the calls waiting for it
(`AdmLive`: the liveness half of `RwLock`; nothing else is assumed — in particular not that it grants compatible
requests), any assignment of calls to threads, any reachable configuration `c`: whenever a call `i` has not
returned, some call `j` — `i` itself, or a call that has been invoked and has not returned — CAN MAKE PROGRESS:
it has a step that strictly decreases its number `mu` of remaining mandatory steps, possibly after one `write`
step of its own that installs the value its body computed (so that the write guard may be released).
The argument is the one of `ordered_acquisition_deadlock_free` (a call waiting for `L`: if `L` is free it is
granted; otherwise a holder of `L` either is not waiting or waits for a lock of higher rank), now on the
machine with data, where a call that is not waiting always has a step: a first copy, the body, the final
write + release, the response. -/
theorem data_machine_deadlock_free (ops : Nat → Op) (prog : Op → List Acq) (adm : Cfg → Nat → Acq → Prop)
    (hord : ∀ op, ((prog op).map (·.lock)).Pairwise (· < ·)) (R : Nat) (hR : ∀ op, ∀ a ∈ prog op, a.lock < R)
    (hlive : AdmLive adm) (kb0 : KB) (tr : List Label) (c : Cfg) (hex : Exec ops prog adm kb0 tr c)
    (i : Nat) (hi : (c.th i).phase ≠ .ret) :
    ∃ j, (j = i ∨ (c.th j).phase = .acq ∨ (c.th j).phase = .done) ∧ CanProgress ops prog adm c j :=
  no_deadlock hord hR hlive (linv_exec hex) i hi

/-- non-vacuity: in the middle of the example execution of part (c) `clear` holds two write guards and is REFUSED the
third (`version()` holds a read guard on it) — the configuration is reachable, the hypotheses hold (plain `RwLock`
compatibility is live), and the theorem yields a call that can progress although `clear` itself cannot acquire -/
example : Exec exOps2 exProg rwAdm kbA [.inv 0, .inv 1, .tau 0, .tau 1, .tau 0] exMid ∧
    (exMid.th 0).phase = .acq ∧ (exMid.th 0).todo = [W2] ∧ ¬ rwAdm exMid 0 W2 ∧
    ∃ j, (j = 0 ∨ (exMid.th j).phase = .acq ∨ (exMid.th j).phase = .done) ∧ CanProgress exOps2 exProg rwAdm exMid j :=
  ⟨ex_exec5, rfl, rfl, ex_blocked,
    data_machine_deadlock_free exOps2 exProg rwAdm exProg_ordered 3 exProg_bound rwAdm_live kbA _ exMid ex_exec5 0
      (by decide)⟩

/-- without the ordering hypothesis the conclusion fails already for the locks alone (example after
`ordered_acquisition_deadlock_free`); `AdmLive` is needed too: a policy that grants nothing blocks every call -/
example : ¬ AdmLive (fun _ _ _ => False) := by
  intro h
  obtain ⟨_, _, _, _, _, _, hf⟩ := h ⟨kbA, th2 ⟨.acq, [], [W0], [], {}, {}, .unit⟩ {}⟩ 0
    (by intro j g hg; simp only [th2] at hg; split at hg <;> (try split at hg) <;> cases hg)
    ⟨0, W0, [], rfl, rfl, rfl⟩
  exact hf

/-- **Every step is progress or a stutter.** A step of thread `thr l` leaves every other thread alone and either
strictly decreases the number `mu` of mandatory steps its call still has to take (invoke, one acquisition per
pending lock, one first copy per held-or-pending component, the body, one release per guard, the response), or is
one of the two OPTIONAL steps — a `write` (only the shared memory changes) or a `read` of a component the call has
already copied — which leave `mu` unchanged. Hence the total over any `n` threads never increases and decreases at
every non-stutter step of one of them. -/
theorem data_machine_step_measure (ops : Nat → Op) (prog : Op → List Acq) (adm : Cfg → Nat → Acq → Prop)
    (c : Cfg) (l : Label) (c' : Cfg) (hs : Step ops prog adm c l c') :
    (∀ j, j ≠ thr l → c'.th j = c.th j) ∧
    (mu (prog (ops (thr l))) (c'.th (thr l)) < mu (prog (ops (thr l))) (c.th (thr l)) ∨
      (IsStutter c c' (thr l) ∧ mu (prog (ops (thr l))) (c'.th (thr l)) = mu (prog (ops (thr l))) (c.th (thr l)))) ∧
    ∀ n, Mu ops prog n c' ≤ Mu ops prog n c ∧
      (thr l < n → ¬ IsStutter c c' (thr l) → Mu ops prog n c' < Mu ops prog n c) :=
  ⟨(step_mu hs).1, (step_mu hs).2, step_Mu hs⟩

/-- non-vacuity: the measure of `clear` (three write guards) along its phases: 12 before the invocation, 11 after it,
8 when two guards are held, 4 after the body with all three held, 0 after the response -/
example : mu [W0, W1, W2] {} = 12 ∧ mu [W0, W1, W2] ⟨.acq, [], [W0, W1, W2], [], {}, {}, .unit⟩ = 11 ∧
    mu [W0, W1, W2] (exMid.th 0) = 9 ∧ mu [W0, W1, W2] ⟨.acq, [W0, W1], [W2], [0], {}, {}, .unit⟩ = 8 ∧
    mu [W0, W1, W2] ⟨.done, [W0, W1, W2], [], [2, 1, 0], kbA, kbN, .unit⟩ = 4 ∧
    mu [W0, W1, W2] ⟨.ret, [], [], [2, 1, 0], kbA, kbN, .unit⟩ = 0 := by decide

/-- **Bounded progress.** In every execution of the threads `0 … n-1` from the initial configuration (any
interleaving, any admission policy), the number `p` of steps that are not stutters is at most
Σ_{i<n} (3·|row of call i| + 3) — minus what the calls still have to do in the configuration reached; and the
execution is one of the machine (`Exec`), so everything of part (c) applies to it. -/
theorem data_machine_progress_bounded (ops : Nat → Op) (prog : Op → List Acq) (adm : Cfg → Nat → Acq → Prop)
    (kb0 : KB) (n p : Nat) (c : Cfg) (hrun : Run ops prog adm n (Cfg.init kb0) p c) :
    p + Mu ops prog n c ≤ sumTo (fun i => 3 * (prog (ops i)).length + 3) n ∧ ∃ tr, Exec ops prog adm kb0 tr c :=
  ⟨by rw [← Mu_init ops prog kb0 n]; exact run_bound hrun, run_exec hrun⟩

/-- non-vacuity: the invocation of `clear` is a progress step of an execution of the two threads of the example; the
bound for the two calls `clear` (3 guards) and `version()` (1 guard) is 12 + 6 = 18 -/
example : ∃ c, Run exOps2 exProg rwAdm 2 (Cfg.init kbA) 1 c ∧
    sumTo (fun i => 3 * (exProg (exOps2 i)).length + 3) 2 = 18 := by
  have s1 : Step exOps2 exProg rwAdm (Cfg.init kbA) (.inv 0) _ := Step.invoke (Cfg.init kbA) 0 rfl
  exact ⟨_, Run.progress (Run.refl _) s1 (by decide) (not_stutter_of_lt (p := exProg (exOps2 0)) (by decide)),
    by decide⟩

/-- **Termination under fairness.** Take ANY infinite execution of the threads `0 … n-1` (each thread executes one
call; any start configuration, any interleaving, any admission policy). From some moment `T` on, every step is a
stutter: a `write` into a write-held component or a repeated `read` of a component already copied — the two loops
that the machine leaves unbounded on purpose (`read*`, `write*`: intermediate states of a mutation). So under the
fairness assumption that no call stays in those loops forever (each call performs finitely many optional steps:
a Rust method body is a terminating sequential program), EVERY execution is finite; and by
`data_machine_maximal_complete` a finite execution that cannot be continued has completed every call. -/
theorem data_machine_terminates_under_fairness (ops : Nat → Op) (prog : Op → List Acq)
    (adm : Cfg → Nat → Acq → Prop) (n : Nat) (run : Nat → Cfg) (lab : Nat → Label)
    (hstep : ∀ t, Step ops prog adm (run t) (lab t) (run (t + 1))) (hn : ∀ t, thr (lab t) < n) :
    ∃ T, ∀ t, T ≤ t → IsStutter (run t) (run (t + 1)) (thr (lab t)) := by
  obtain ⟨T, hT⟩ := eventually_const (fun t => Mu ops prog n (run t)) (fun t => (step_Mu (hstep t) n).1)
  refine ⟨T, fun t ht => ?_⟩
  apply Classical.byContradiction
  intro hns
  have := (step_Mu (hstep t) n).2 (hn t) hns
  have : Mu ops prog n (run (t + 1)) = Mu ops prog n (run t) := hT t ht
  omega

/-- non-vacuity: an infinite execution exists — `clear`, after its body, storing into `rules` forever; every step of it
from the start is a stutter (so the fairness assumption in the reading of the theorem is needed) -/
example : ∃ (run : Nat → Cfg) (lab : Nat → Label),
    (∀ t, Step exOps2 exProg rwAdm (run t) (lab t) (run (t + 1))) ∧ (∀ t, thr (lab t) < 1) ∧
    ∀ t, IsStutter (run t) (run (t + 1)) (thr (lab t)) := by
  let c0 : Cfg := ⟨kbA, th2 ⟨.done, [W0, W1, W2], [], [2, 1, 0], kbA, kbN, .unit⟩ {}⟩
  refine ⟨fun _ => c0, fun _ => .tau 0, fun t => ?_, fun _ => by simp [thr], fun _ => Or.inl rfl⟩
  exact Step.write c0 0 0 kbA rfl ⟨W0, by decide, rfl, rfl⟩

/-- **Under a fair scheduler every call completes.** A scheduled run: at every tick the scheduler either lets one of
the threads `0 … n-1` take a step (`sched t = some l`) or idles (`none`, the configuration stays). FAIRNESS: as long
as some call is pending, the scheduler eventually lets a thread take a step that is not a stutter — which is always
POSSIBLE, by `data_machine_deadlock_free` (whenever a call is pending some pending call has such a step enabled,
after at most one write), so the hypothesis only asks the scheduler not to starve the enabled calls and the calls not
to stay in their optional read*/write* loops forever. Then from some tick on all `n` calls have returned (and stay so).
No assumption on the start configuration, the lock programs or the admission policy is needed here: they are what
makes the fairness hypothesis satisfiable. -/
theorem data_machine_fair_run_completes (ops : Nat → Op) (prog : Op → List Acq) (adm : Cfg → Nat → Acq → Prop)
    (n : Nat) (run : Nat → Cfg) (sched : Nat → Option Label)
    (hstep : ∀ t, match sched t with
      | some l => Step ops prog adm (run t) l (run (t + 1)) ∧ thr l < n
      | none => run (t + 1) = run t)
    (hfair : ∀ T, (∃ i, i < n ∧ ((run T).th i).phase ≠ .ret) →
      ∃ t l, T ≤ t ∧ sched t = some l ∧ ¬ IsStutter (run t) (run (t + 1)) (thr l)) :
    ∃ T, ∀ t, T ≤ t → ∀ i, i < n → ((run t).th i).phase = .ret := by
  have hmono : ∀ t, Mu ops prog n (run (t + 1)) ≤ Mu ops prog n (run t) := by
    intro t
    have h := hstep t
    cases hs : sched t with
    | none => rw [hs] at h; simp only at h; rw [h]; exact Nat.le_refl _
    | some l => rw [hs] at h; exact (step_Mu h.1 n).1
  obtain ⟨T, hT⟩ := eventually_const (fun t => Mu ops prog n (run t)) hmono
  refine ⟨T, fun t ht i hi => ?_⟩
  apply Classical.byContradiction
  intro hne
  obtain ⟨t', l, ht', hs, hns⟩ := hfair t ⟨i, hi, hne⟩
  have h := hstep t'
  rw [hs] at h
  have hlt := (step_Mu h.1 n).2 h.2 hns
  have : Mu ops prog n (run (t' + 1)) = Mu ops prog n (run t') := hT t' (by omega)
  omega

/-- non-vacuity: a fair run exists — the scheduler lets `version()` (thread 0 here) run invoke · acquire · read · body ·
release · return and then idles; the fairness hypothesis holds and the call has returned from tick 6 on -/
example : ∃ (run : Nat → Cfg) (sched : Nat → Option Label),
    (∀ t, match sched t with
      | some l => Step (fun _ => Op.version) exProg rwAdm (run t) l (run (t + 1)) ∧ thr l < 1
      | none => run (t + 1) = run t) ∧
    (∀ T, (∃ i, i < 1 ∧ ((run T).th i).phase ≠ .ret) →
      ∃ t l, T ≤ t ∧ sched t = some l ∧ ¬ IsStutter (run t) (run (t + 1)) (thr l)) ∧
    ((run 6).th 0).phase = .ret ∧ ((run 6).th 0).out = .nat 3 := by
  let t1 : TState := ⟨.acq, [], [R2], [], {}, {}, .unit⟩
  let t2 : TState := ⟨.acq, [R2], [], [], {}, {}, .unit⟩
  let t3 : TState := ⟨.acq, [R2], [], [2], kbV, {}, .unit⟩
  let t4 : TState := ⟨.done, [R2], [], [2], kbV, kbV, .nat 3⟩
  let t5 : TState := ⟨.done, [], [], [2], kbV, kbV, .nat 3⟩
  let t6 : TState := ⟨.ret, [], [], [2], kbV, kbV, .nat 3⟩
  let cfg (t : TState) : Cfg := ⟨kbA, th2 t {}⟩
  let run : Nat → Cfg := fun t => match t with
    | 0 => cfg {} | 1 => cfg t1 | 2 => cfg t2 | 3 => cfg t3 | 4 => cfg t4 | 5 => cfg t5 | _ => cfg t6
  let sched : Nat → Option Label := fun t => match t with
    | 0 => some (.inv 0) | 1 => some (.tau 0) | 2 => some (.tau 0) | 3 => some (.lin 0) | 4 => some (.tau 0)
    | 5 => some (.ret 0 (.nat 3)) | _ => none
  have e (t t' : TState) : (⟨kbA, upd (th2 t {}) 0 t'⟩ : Cfg) = cfg t' := by simp only [cfg, upd_th2_0]
  have s0 : Step (fun _ => Op.version) exProg rwAdm (cfg {}) (.inv 0) (cfg t1) := by
    have := Step.invoke (ops := fun _ => Op.version) (prog := exProg) (adm := rwAdm) (cfg {}) 0 rfl
    rwa [e] at this
  have s1 : Step (fun _ => Op.version) exProg rwAdm (cfg t1) (.tau 0) (cfg t2) := by
    have := Step.acquire (ops := fun _ => Op.version) (prog := exProg) (adm := rwAdm) (cfg t1) 0 R2 [] rfl rfl
      (compat2_0 (by decide))
    rwa [e] at this
  have s2 : Step (fun _ => Op.version) exProg rwAdm (cfg t2) (.tau 0) (cfg t3) := by
    have := Step.read (ops := fun _ => Op.version) (prog := exProg) (adm := rwAdm) (cfg t2) 0 2 rfl ⟨R2, by decide, rfl⟩
    rwa [e] at this
  have s3 : Step (fun _ => Op.version) exProg rwAdm (cfg t3) (.lin 0) (cfg t4) := by
    have := Step.body (ops := fun _ => Op.version) (prog := exProg) (adm := rwAdm) (cfg t3) 0 rfl rfl (by decide)
    rwa [e] at this
  have s4 : Step (fun _ => Op.version) exProg rwAdm (cfg t4) (.tau 0) (cfg t5) := by
    have := Step.release (ops := fun _ => Op.version) (prog := exProg) (adm := rwAdm) (cfg t4) 0 R2 rfl (by decide)
      (fun h => by cases h)
    rwa [e] at this
  have s5 : Step (fun _ => Op.version) exProg rwAdm (cfg t5) (.ret 0 (.nat 3)) (cfg t6) := by
    have := Step.ret (ops := fun _ => Op.version) (prog := exProg) (adm := rwAdm) (cfg t5) 0 rfl rfl
    rwa [e] at this
  have hsteps : ∀ t, match sched t with
      | some l => Step (fun _ => Op.version) exProg rwAdm (run t) l (run (t + 1)) ∧ thr l < 1
      | none => run (t + 1) = run t := by
    intro t
    match t with
    | 0 => exact ⟨s0, by decide⟩
    | 1 => exact ⟨s1, by decide⟩
    | 2 => exact ⟨s2, by decide⟩
    | 3 => exact ⟨s3, by decide⟩
    | 4 => exact ⟨s4, by decide⟩
    | 5 => exact ⟨s5, by decide⟩
    | _ + 6 => rfl
  have hprog : ∀ t, t < 6 → ∃ l, sched t = some l ∧ ¬ IsStutter (run t) (run (t + 1)) (thr l) := by
    intro t ht
    have hd : ∀ t, t < 6 → mu (exProg .version) ((run (t + 1)).th 0) < mu (exProg .version) ((run t).th 0) := by decide
    match t, ht with
    | 0, _ => exact ⟨_, rfl, not_stutter_of_lt (p := exProg .version) (hd 0 (by decide))⟩
    | 1, _ => exact ⟨_, rfl, not_stutter_of_lt (p := exProg .version) (hd 1 (by decide))⟩
    | 2, _ => exact ⟨_, rfl, not_stutter_of_lt (p := exProg .version) (hd 2 (by decide))⟩
    | 3, _ => exact ⟨_, rfl, not_stutter_of_lt (p := exProg .version) (hd 3 (by decide))⟩
    | 4, _ => exact ⟨_, rfl, not_stutter_of_lt (p := exProg .version) (hd 4 (by decide))⟩
    | 5, _ => exact ⟨_, rfl, not_stutter_of_lt (p := exProg .version) (hd 5 (by decide))⟩
  refine ⟨run, sched, hsteps, ?_, rfl, rfl⟩
  rintro T ⟨i, hi, hne⟩
  have hi0 : i = 0 := by omega
  subst hi0
  by_cases hT : T < 6
  · obtain ⟨l, hl, hns⟩ := hprog T hT
    exact ⟨T, l, Nat.le_refl _, hl, hns⟩
  · exfalso
    apply hne
    obtain ⟨k, rfl⟩ : ∃ k, T = k + 6 := ⟨T - 6, by omega⟩
    rfl

/-- **Maximal executions are complete.** If in a reachable configuration nothing can happen except invocations of
calls that have not started (no invoked call has a step), then no call is pending: every thread is idle or has
returned. (Contrapositive of `data_machine_deadlock_free`.) -/
theorem data_machine_maximal_complete (ops : Nat → Op) (prog : Op → List Acq) (adm : Cfg → Nat → Acq → Prop)
    (hord : ∀ op, ((prog op).map (·.lock)).Pairwise (· < ·)) (R : Nat) (hR : ∀ op, ∀ a ∈ prog op, a.lock < R)
    (hlive : AdmLive adm) (kb0 : KB) (tr : List Label) (c : Cfg) (hex : Exec ops prog adm kb0 tr c)
    (hmax : ∀ l c', Step ops prog adm c l c' → ∃ j, l = .inv j) :
    ∀ i, (c.th i).phase = .idle ∨ (c.th i).phase = .ret := by
  intro i
  apply Classical.byContradiction
  intro hno
  have hi : (c.th i).phase ≠ .ret := fun e => hno (Or.inr e)
  obtain ⟨j, hj, c1, l, c2, h1, h2, hl, _⟩ :=
    data_machine_deadlock_free ops prog adm hord R hR hlive kb0 tr c hex i hi
  have hjph : (c.th j).phase = .acq ∨ (c.th j).phase = .done := by
    rcases hj with rfl | h
    · cases hph : (c.th j).phase with
      | idle => exact absurd (Or.inl hph) hno
      | ret => exact absurd (Or.inr hph) hno
      | acq => exact Or.inl rfl
      | done => exact Or.inr rfl
    · exact h
  rcases h1 with rfl | ⟨hw, _⟩
  · obtain ⟨j', rfl⟩ := hmax l c2 h2
    simp only [thr] at hl
    subst hl
    cases h2 with
    | invoke _ hph => rcases hjph with h | h <;> rw [hph] at h <;> cases h
  · obtain ⟨j', hj'⟩ := hmax _ c1 hw
    cases hj'

/-- **Completion stays reachable (no livelock trap).** From EVERY reachable configuration in which only the threads
`0 … n-1` have been invoked, the machine can run on — by steps of those threads only — to a configuration in which all
`n` calls have returned, within `2 · Mu` further steps (`Mu` = the mandatory steps still to be taken: each round is at
most one final `write` followed by a step that decreases the count). So no interleaving, however adversarial, ever
leads into a configuration from which some call can no longer complete; a scheduler that keeps choosing a step
offered by `data_machine_deadlock_free` completes every call, and a blocked acquisition becomes enabled because the
holders of its lock finish. -/
theorem data_machine_can_always_complete (ops : Nat → Op) (prog : Op → List Acq) (adm : Cfg → Nat → Acq → Prop)
    (hord : ∀ op, ((prog op).map (·.lock)).Pairwise (· < ·)) (R : Nat) (hR : ∀ op, ∀ a ∈ prog op, a.lock < R)
    (hlive : AdmLive adm) (kb0 : KB) (tr : List Label) (c : Cfg) (hex : Exec ops prog adm kb0 tr c)
    (n : Nat) (hn : ∀ j, n ≤ j → (c.th j).phase = .idle) :
    ∃ tr' c', Exec ops prog adm kb0 (tr ++ tr') c' ∧ (∀ i, i < n → (c'.th i).phase = .ret) ∧
      (∀ j, n ≤ j → (c'.th j).phase = .idle) ∧ tr'.length ≤ 2 * Mu ops prog n c :=
  can_complete hord hR hlive n (Mu ops prog n c) tr c hex hn (Nat.le_refl _)

/-- non-vacuity: the configuration in which `clear` is refused `version.write` (two calls pending, 9 + 4 mandatory steps
left) can be completed within 26 steps -/
example : (∀ j, 2 ≤ j → (exMid.th j).phase = .idle) ∧ Mu exOps2 exProg 2 exMid = 13 ∧
    ∃ tr' c', Exec exOps2 exProg rwAdm kbA ([.inv 0, .inv 1, .tau 0, .tau 1, .tau 0] ++ tr') c' ∧
      (∀ i, i < 2 → (c'.th i).phase = .ret) ∧ tr'.length ≤ 26 := by
  have hidle : ∀ j, 2 ≤ j → (exMid.th j).phase = .idle := by
    intro j hj
    have h0 : j ≠ 0 := by omega
    have h1 : j ≠ 1 := by omega
    simp [exMid, th2, h0, h1]
  have hMu : Mu exOps2 exProg 2 exMid = 13 := by decide
  refine ⟨hidle, hMu, ?_⟩
  obtain ⟨tr', c', h1, h2, _, h4⟩ := data_machine_can_always_complete exOps2 exProg rwAdm exProg_ordered 3 exProg_bound
    rwAdm_live kbA _ exMid ex_exec5 2 hidle
  exact ⟨tr', c', h1, h2, by omega⟩

/-- the lock programs of the regenerated table are ordered and use the ranks 0, 1, 2 -/
theorem progOf_ordered (op : Op) : ((progOf op).map (·.lock)).Pairwise (· < ·) := by
  have h : ∀ k : OpKind, increasing ((progOfTbl kbMethods k).map (·.lock)) = true := by
    intro k; cases k <;> decide
  exact increasing_pairwise _ (h (kindOf op))

theorem progOf_bound (op : Op) : ∀ a ∈ progOf op, a.lock < 3 := by
  have h : ∀ k : OpKind, (progOfTbl kbMethods k).all (fun a => a.lock < 3) = true := by
    intro k; cases k <;> decide
  intro a ha
  exact of_decide_eq_true (List.all_eq_true.1 (h (kindOf op)) a ha)

/-- **`KnowledgeBase`: no deadlock, and maximal executions are complete and linearizable** — for the lock programs
of the table regenerated from the source, any number of threads, any calls, any admission policy that is safe
(`AdmSafe`) and live (`AdmLive`), any interleaving: (1) in every reachable configuration, whenever a call has not
returned, some pending (or that) call can make progress; (2) if nothing but fresh invocations can happen, every
invoked call has returned (`Complete tr`), and the recorded history has a permutation that respects real time and
that the sequential model replays — the conclusion of the runtime oracle, for ALL maximal executions. -/
theorem kb_maximal_complete (ops : Nat → Op) (adm : Cfg → Nat → Acq → Prop) (hadm : AdmSafe adm) (hlive : AdmLive adm)
    (kb0 : KB) (tr : List Label) (c : Cfg) (hex : Exec ops progOf adm kb0 tr c) :
    (∀ i, (c.th i).phase ≠ .ret →
      ∃ j, (j = i ∨ (c.th j).phase = .acq ∨ (c.th j).phase = .done) ∧ CanProgress ops progOf adm c j) ∧
    ((∀ l c', Step ops progOf adm c l c' → ∃ j, l = .inv j) →
      Complete tr ∧ ∃ l : List Event, l.Perm (historyOf ops tr) ∧ RespectsRealTime l ∧ Replays kb0 l) := by
  refine ⟨fun i hi => data_machine_deadlock_free ops progOf adm progOf_ordered 3 progOf_bound hlive kb0 tr c hex i hi,
    fun hmax => ?_⟩
  have hph := data_machine_maximal_complete ops progOf adm progOf_ordered 3 progOf_bound hlive kb0 tr c hex hmax
  have hinv := inv_exec hadm table_programs_wellformed hex
  have hc : Complete tr := by
    intro i hi
    have hne := (hinv.t.inv_iff i).1 hi
    rcases hph i with h | h
    · exact absurd h hne
    · exact ⟨(c.th i).out, (hinv.t.ret_iff i _).2 ⟨h, rfl⟩⟩
  exact ⟨hc, kb_history_linearizable ops adm hadm kb0 tr c hex hc⟩

/-- **`KnowledgeBase`: every pending call can be completed, and the completed execution is linearizable.** For the
lock programs of the regenerated table, any safe and live admission policy, any reachable configuration in which the
threads `0 … n-1` have been invoked: there is a continuation (by those threads only, at most `2 · Mu` steps) after
which every invoked call has returned, and the recorded history of the whole execution has a permutation that
respects real time and that the sequential model replays. -/
theorem kb_calls_can_complete (ops : Nat → Op) (adm : Cfg → Nat → Acq → Prop) (hadm : AdmSafe adm) (hlive : AdmLive adm)
    (kb0 : KB) (tr : List Label) (c : Cfg) (hex : Exec ops progOf adm kb0 tr c)
    (n : Nat) (hn : ∀ j, n ≤ j → (c.th j).phase = .idle) :
    ∃ tr' c', Exec ops progOf adm kb0 (tr ++ tr') c' ∧ tr'.length ≤ 2 * Mu ops progOf n c ∧ Complete (tr ++ tr') ∧
      ∃ l : List Event, l.Perm (historyOf ops (tr ++ tr')) ∧ RespectsRealTime l ∧ Replays kb0 l := by
  obtain ⟨tr', c', hex', hret, hidle, hlen⟩ :=
    data_machine_can_always_complete ops progOf adm progOf_ordered 3 progOf_bound hlive kb0 tr c hex n hn
  have hinv := inv_exec hadm table_programs_wellformed hex'
  have hc : Complete (tr ++ tr') := by
    intro i hi
    have hne := (hinv.t.inv_iff i).1 hi
    have hi' : i < n := by
      apply Classical.byContradiction
      intro hge
      exact hne (hidle i (by omega))
    exact ⟨(c'.th i).out, (hinv.t.ret_iff i _).2 ⟨hret i hi', rfl⟩⟩
  exact ⟨tr', c', hex', hlen, hc, kb_history_linearizable ops adm hadm kb0 _ c' hex' hc⟩

/-- non-vacuity: plain `RwLock` compatibility is safe and live; the rows of the real table: `add_rule` has 12 mandatory
steps, `get_statistics` 9, `version()` 6 -/
example : AdmSafe rwAdm ∧ AdmLive rwAdm ∧
    mu (progOf (.add ⟨7, 0, true, 0⟩)) {} = 12 ∧ mu (progOf .stats) {} = 9 ∧ mu (progOf .version) {} = 6 :=
  ⟨fun _ _ _ h => h, rwAdm_live, by decide, by decide, by decide⟩

/-! ## (e) the bodies against the source: write footprints re-extracted from the text on every run

`kbWrites` (Generated/KbLocks.lean) lists, for every method whose body the text-level reader of props/c15.py
understood completely, the components the method WRITES through a guard (`*guard = …`, `*guard += 1`, a `&mut self`
method of the protected value — push / insert / remove / clear / sort_by_key / get_mut … —, a `&mut` borrow).
A method the reader does not understand has no row (said in the run's notes); the lock rows are not affected. -/

/-- **The bodies of the abstract machine write what the source writes**: for every extracted row of a modelled
method (or alias), the components written through a guard in the source text are exactly the components that the
method's `Model.step` clause may change (`need … .write`, which `footprint_exact` shows to be exact). -/
theorem table_writes_match_model : writesOk kbWrites = true := by decide

/-- **Every write guard is used, and only write guards are written through**: the components a method writes in
the source text are exactly the locks its row takes in write mode — no method excludes readers for a component it
only reads, none writes a component it holds no write guard for. -/
theorem write_guards_all_used : writesUseGuards kbMethods kbWrites = true := by decide

/-- non-vacuity (on literal rows, independent of what the reader extracted this run): the checks accept the rows of the
current source and reject `set_rule_enabled` writing the index, `clear` forgetting the version, an observer that
writes, a write guard that is only read through (`set_rule_enabled` taking `rule_index.write()`) -/
example : writesOk [("add_rule", [0, 1, 2]), ("set_rule_enabled", [0, 2]), ("get_rule", []), ("export_to_grl", [])] = true ∧
    writesOk [("set_rule_enabled", [0, 1, 2])] = false ∧ writesOk [("clear", [0, 1])] = false ∧
    writesOk [("get_rule_by_index", [0])] = false ∧
    writesUseGuards kbMethods [("set_rule_enabled", [0, 2]), ("version", [])] = true ∧
    writesUseGuards [⟨"set_rule_enabled", [⟨0, .write, true⟩, ⟨1, .write, true⟩, ⟨2, .write, true⟩], false, false⟩]
      [("set_rule_enabled", [0, 2])] = false := by decide

/-! Which methods have a row this run is said in the run's notes / evidence (`write_footprints`): on the current source all
17 non-composite methods, among them the four mutators. A method whose body the reader does not understand has no row —
by design that is NOT a failure of these theorems (they then make no claim about it). -/

end C15
