import RreModel.C15.Lemmas
import RreModel.C15.CloneLemmas
import RreModel.C15.LockLemmas
import RreModel.C15.Generated.KbLocks
import RreModel.C15.LinLemmas
import RreModel.C15.LinTable
/-
C15 — property theorems (only). Helper lemmas live in Lemmas.lean / LockLemmas.lean.
"Knowledge base lookups, order and version stay consistent."
Part (a) quantifies over every finite history of public method calls (any length, any names,
any saliences). Part (b) is about the lock table regenerated from the source text on every run
(`Generated/KbLocks.lean`) and about every interleaving of the abstract semantics of Locks.lean.
-/
namespace C15
open C15.Locks C15.Generated

/-! ## (a) sequential histories -/

/-- **Refinement.** Along every history the model (rules vector + name→position index + version)
returns, call by call, what the abstract specification (insertion-ordered list without duplicate
names + version) returns, and the final states are related by the simulation relation `Rel`
(vector = stable descending-salience sort of the list, equal versions, index = positions, key
set = stored names). -/
theorem kb_refines_spec (ops : List Op) :
    outsAgree (outs KB.init ops) (specOuts Spec.init ops) ∧ Rel (run ops) (specRun ops) :=
  ⟨outs_agree rel_init ops, rel_run ops⟩

/-- The model's observation sequence satisfies the observation-level specification `runOk` — the
predicate the driver evaluates on the implementation's observations (results, version strictly
larger after each successful change and unchanged otherwise, and the full snapshot of all
observers: listing, names, count, by-salience, by-index, statistics, lookups). -/
theorem model_meets_spec (K : Nat) (full : Bool) (ops : List Op) :
    runOk K Spec.init 0 ops (trace K full KB.init ops) = true :=
  trace_ok K full ops rel_init

/-- Looking a name up returns the rule most recently added under it (with its enabled flag as
last set), or nothing if it was removed / cleared / never added: `latest n ops` is defined on
the history alone, independently of model and specification states. -/
theorem lookup_latest (ops : List Op) (n : Nat) : getRule (run ops) n = latest n ops := by
  rw [sim_getRule (rel_run ops) n, spec_lookup_run]

/-- A duplicate name is rejected without any effect on the state; a fresh name is accepted and is
then what the lookup returns. -/
theorem duplicate_rejected_no_effect (ops : List Op) (r : Rule) :
    ((getRule (run ops) r.name).isSome → step (run ops) (.add r) = (run ops, .errDup)) ∧
    (getRule (run ops) r.name = none →
      (step (run ops) (.add r)).2 = .added ∧ getRule (step (run ops) (.add r)).1 r.name = some r) := by
  constructor
  · intro h
    simp only [getRule] at h
    simp only [step, addRule]
    cases hg : idxGet (run ops).index r.name with
    | none => rw [hg] at h; cases h
    | some p => rfl
  · intro h
    have hrel := rel_run ops
    have hl : (specRun ops).lookup r.name = none := by rw [← sim_getRule hrel]; exact h
    have hhas : (specRun ops).has r.name = false := by
      cases hh : (specRun ops).has r.name with
      | false => rfl
      | true =>
        rw [has_iff, names, List.mem_map] at hh
        obtain ⟨x, hx, hxn⟩ := hh
        simp only [Spec.lookup, List.find?_eq_none] at hl
        exact absurd (by simp [hxn]) (hl x hx)
    refine ⟨?_, ?_⟩
    · have := (sim_add hrel r).2
      simp only [specStep, hhas] at this
      simpa [step] using this
    · rw [← run_append, lookup_latest, latest, List.foldl_append]
      have h' : List.foldl (latestStep r.name) none ops = none := by
        have := lookup_latest ops r.name; rw [h] at this; exact this.symm
      simp [h', latestStep]

/-- the insertion sort used by the model is a stable sort: sorted, a permutation, and the elements
of every key keep their original relative order (these three determine the result uniquely) -/
theorem sort_is_stable_sort {α : Type} (key : α → Int) (l : List α) :
    (sortDesc key l).Pairwise (fun a b => key b ≤ key a) ∧ (sortDesc key l).Perm l ∧
    ∀ s : Int, (sortDesc key l).filter (fun a => key a == s) = l.filter (fun a => key a == s) :=
  ⟨sortDesc_sorted key l, sortDesc_perm key l, sortDesc_stable key l⟩

/-- Listing returns every stored rule exactly once, in descending salience with insertion order
among equals; `get_rules_by_salience` is then the identity on positions and listing and lookup
agree. `(specRun ops).rules` is the insertion-ordered list of the stored rules. -/
theorem listing_once_sorted_stable (ops : List Op) :
    (getRules (run ops)).Pairwise (fun x y => y.salience ≤ x.salience) ∧
    (getRules (run ops)).Perm (specRun ops).rules ∧
    ((getRules (run ops)).map (·.name)).Nodup ∧
    (∀ s : Int, (getRules (run ops)).filter (fun r => r.salience == s) =
        (specRun ops).rules.filter (fun r => r.salience == s)) ∧
    (∀ r, r ∈ getRules (run ops) ↔ getRule (run ops) r.name = some r) ∧
    bySalience (run ops) = List.range (ruleCount (run ops)) := by
  have h := rel_run ops
  refine ⟨h.sortedC, h.perm, h.nodupC, ?_, ?_, bySalience_sorted h.sortedC⟩
  · intro s
    simp only [getRules, h.rules, Spec.listing]
    exact sortDesc_stable _ _ s
  · intro r
    simp only [getRules, getRule, h.index]
    constructor
    · intro hr
      obtain ⟨p, hp⟩ := List.mem_iff_getElem?.1 hr
      rw [posOf_of_getElem h.nodupC hp]; exact hp
    · intro hr
      cases hp : posOf r.name (run ops).rules with
      | none => rw [hp] at hr; cases hr
      | some p => rw [hp] at hr; exact List.mem_of_getElem? hr

/-- The index is exact after every history: `rules[index[n]].name = n` for every indexed name,
every stored rule is indexed at its position, and the key set is the set of stored names. -/
theorem index_consistent (ops : List Op) :
    (∀ n p, idxGet (run ops).index n = some p → ∃ r, (run ops).rules[p]? = some r ∧ r.name = n) ∧
    (∀ p r, (run ops).rules[p]? = some r → idxGet (run ops).index r.name = some p) ∧
    (idxKeys (run ops).index).Perm ((run ops).rules.map (·.name)) ∧ (idxKeys (run ops).index).Nodup := by
  have h := rel_run ops
  refine ⟨?_, ?_, h.keys, h.keys.nodup_iff.2 h.nodupC⟩
  · intro n p hg; rw [h.index] at hg; exact posOf_some hg
  · intro p r hr; rw [h.index]; exact posOf_of_getElem h.nodupC hr

/-- in any state: a call that reports a change increments the version by one; any other call leaves the whole state as it was -/
theorem step_version (kb : KB) (op : Op) :
    (Out.changed op (step kb op).2 = true → (step kb op).1.version = kb.version + 1) ∧
    (Out.changed op (step kb op).2 = false → (step kb op).1 = kb) := by
  cases op with
  | add r => simp only [step, addRule]; cases idxGet kb.index r.name <;> simp [Out.changed]
  | remove n => simp only [step, removeRule]; cases idxGet kb.index n <;> simp [Out.changed]
  | setEnabled n b =>
    simp only [step, setEnabled]
    cases idxGet kb.index n with
    | none => simp [Out.changed]
    | some p => simp only [setAt]; cases kb.rules[p]? <;> simp [Out.changed]
  | clear => simp [step, clear, Out.changed]
  | _ => simp [step, Out.changed]

/-- The version number grows (by exactly one) with every successful change, is untouched by every
other call, and therefore never decreases along a history. -/
theorem version_strictly_increases (ops : List Op) (op : Op) :
    (Out.changed op (step (run ops) op).2 = true → (run (ops ++ [op])).version = (run ops).version + 1) ∧
    (Out.changed op (step (run ops) op).2 = false → run (ops ++ [op]) = run ops) ∧
    (∀ more : List Op, (run ops).version ≤ (run (ops ++ more)).version) := by
  rw [run_append]
  refine ⟨(step_version _ op).1, (step_version _ op).2, ?_⟩
  intro more
  induction more generalizing ops with
  | nil => simp
  | cons m more ih =>
    have h1 : (run ops).version ≤ (run (ops ++ [m])).version := by
      rw [run_append]
      cases hc : Out.changed m (step (run ops) m).2 with
      | true => rw [(step_version _ m).1 hc]; omega
      | false => rw [(step_version _ m).2 hc]; omega
    have h2 := ih (ops ++ [m])
    rw [List.append_assoc] at h2
    exact Nat.le_trans h1 h2

/-- `get_statistics` is consistent with the other observers after every history. -/
theorem statistics_consistent (ops : List Op) :
    (getStats (run ops)).version = (run ops).version ∧
    (getStats (run ops)).total = ruleCount (run ops) ∧
    (getStats (run ops)).enabled + (getStats (run ops)).disabled = (getStats (run ops)).total ∧
    (getStats (run ops)).enabled = (specRun ops).rules.countP (·.enabled) ∧
    (getStats (run ops)).dist = distOf (getRules (run ops)) := by
  have h := rel_run ops
  refine ⟨rfl, rfl, ?_, ?_, rfl⟩
  · have := List.countP_le_length (p := fun (r : Rule) => r.enabled) (l := (run ops).rules)
    simp only [getStats]; omega
  · simp only [getStats]; exact h.perm.countP_eq _

/-! Non-vacuity: a history with a rejected duplicate, a removal that shifts positions, a re-add, a toggle. -/
/-- **Bulk loading is a prefix of the one-by-one history.** `add_rules_from_grl` applies exactly the calls
before the first rejected duplicate: the applied calls are `ops.take k`, none of them is rejected, the load
reports failure iff `k < ops.length`, and then the `k`-th call is rejected (`errDup`) in the state the first `k`
left. So every theorem above about histories (`kb_refines_spec`, `lookup_latest`, `listing_once_sorted_stable`,
`index_consistent`, `version_strictly_increases`) applies to the state after a bulk load, with the history
`pre ++ ops.take k`. -/
theorem bulk_load_is_prefix (kb : KB) (ops : List Op) :
    ∃ k, k ≤ ops.length ∧ (bulkApplied kb ops).1 = ops.take k ∧
      (∀ j (h : j < k), (outs kb ops)[j]? ≠ some .errDup) ∧
      ((bulkApplied kb ops).2 = false → k = ops.length) ∧
      ((bulkApplied kb ops).2 = true → (outs kb ops)[k]? = some .errDup) := by
  induction ops generalizing kb with
  | nil => exact ⟨0, by simp [bulkApplied, outs]⟩
  | cons op rest ih =>
    by_cases hd : (step kb op).2 = .errDup
    · refine ⟨0, by simp, ?_, by simp, ?_, ?_⟩
      · simp [bulkApplied, hd]
      · simp [bulkApplied, hd]
      · intro _; simp [outs, hd]
    · obtain ⟨k, hk, htake, hpre, hok, hfail⟩ := ih (step kb op).1
      have hb : bulkApplied kb (op :: rest) =
          (op :: (bulkApplied (step kb op).1 rest).1, (bulkApplied (step kb op).1 rest).2) := by
        generalize hs : step kb op = so at hd ⊢
        obtain ⟨kb', o⟩ := so
        cases o <;> first | exact absurd rfl hd | simp [bulkApplied, hs]
      refine ⟨k + 1, by simp; omega, ?_, ?_, ?_, ?_⟩
      · rw [hb]; simp [htake]
      · intro j hj
        cases j with
        | zero => simp [outs, hd]
        | succ j => simpa [outs] using hpre j (by omega)
      · rw [hb]; intro h; simp [hok h]
      · rw [hb]; intro h; simpa [outs] using hfail h

/-- the state a bulk load leaves is the state of the one-by-one history of the applied calls -/
theorem bulk_load_state (pre ops : List Op) :
    (bulkApplied (run pre) ops).1.foldl (fun kb op => (step kb op).1) (run pre)
      = run (pre ++ (bulkApplied (run pre) ops).1) := by
  simp [run, List.foldl_append]

/-! ### the remaining public surface: clone, export, snapshot twin (reach audit) -/

/-- **The clone of a knowledge base is the same knowledge base.** After every history, `kb.clone()` lists the same
rules in the same order, answers every lookup identically, has an exact index (`Rel`), and its version is its number
of rules. -/
theorem clone_same_listing_lookups (ops : List Op) :
    getRules (cloneKB (run ops)) = getRules (run ops) ∧
    (∀ n, getRule (cloneKB (run ops)) n = getRule (run ops) n) ∧
    (cloneKB (run ops)).version = ruleCount (run ops) ∧
    Rel (cloneKB (run ops)) (specRun ops).clone := by
  have h := rel_run ops
  have hc := rel_clone h
  have hl : (specRun ops).clone.listing = (specRun ops).listing := by
    simp only [Spec.clone, Spec.listing]
    exact sortDesc_of_sorted _ _ (sortDesc_sorted _ _)
  refine ⟨?_, fun n => ?_, ?_, hc⟩
  · simp only [getRules]; rw [hc.rules, h.rules, hl]
  · rw [sim_getRule hc n, sim_getRule h n]
    simp only [Spec.lookup, Spec.clone]
    -- same rules, names pairwise distinct: the first rule of a name is the same in any order
    exact find_perm (sortDesc_perm _ _) ((names_listing_perm _).nodup_iff.2 h.nodup) n
  · rw [hc.version]; simp [Spec.clone, ruleCount, h.perm.length_eq]

/-- Histories in which the program clones the knowledge base at arbitrary points, keeps the original, and uses the two
in turn (`XOp`): the model's observation sequence satisfies the observation-level specification `xrunOk` (what the
driver evaluates on the implementation's observations) — in the specification the two objects are independent. -/
theorem clone_histories_meet_spec (K : Nat) (full : Bool) (ops : List XOp) :
    xrunOk K {} 0 ops (xtrace K full {} ops) = true :=
  xtrace_ok K full ops rel2_init

/-- … and both objects stay related to their specification states (index exact, sorted, unique names, version). -/
theorem clone_histories_refine (ops : List XOp) :
    Rel (xrun {} ops).cur (xspecRun {} ops).cur ∧ Rel (xrun {} ops).spare (xspecRun {} ops).spare :=
  rel_xrun ops rel2_init

/-- **The clone and the original are independent.** A call on one of them changes nothing of the other: not its state,
hence none of its observations (`observe`), whatever the call and whatever happened before. -/
theorem clone_independent (K : Nat) (ops : List XOp) (op : Op) :
    (xstep (xrun {} ops) (.call op)).1.spare = (xrun {} ops).spare ∧
    observe K (xstep (xrun {} ops) (.call op)).1.spare = observe K (xrun {} ops).spare ∧
    (xspecStep (xspecRun {} ops) (.call op)).1.spare = (xspecRun {} ops).spare :=
  ⟨rfl, rfl, rfl⟩

/-- … and right after the fork the original still shows what it showed: forking does not change it. -/
theorem fork_keeps_original (ops : List XOp) :
    (xstep (xrun {} ops) .clone).1.spare = (xrun {} ops).cur := rfl

/-- The twin observers show the specification's listing: `get_rules_snapshot` and the rule blocks of `export_to_grl`
are the stable descending-salience listing, the export header carries the version and the number of rules. -/
theorem twins_show_listing (ops : List XOp) :
    twinsOk (xspecRun {} ops).cur (xrun {} ops).cur.version
      (getRulesSnapshot (xrun {} ops).cur) (exportView (xrun {} ops).cur) = true :=
  twins_ok (rel_xrun ops rel2_init).1

example : (cloneKB (run [.add ⟨0, 0, true, 0⟩, .add ⟨1, 10, false, 1⟩, .add ⟨2, 0, true, 2⟩, .remove 0, .setEnabled 2 false])) =
    ⟨[⟨1, 10, false, 1⟩, ⟨2, 0, false, 2⟩], [(2, 1), (1, 0)], 2⟩ := by decide

def exOps : List Op :=
  [.add ⟨0, 0, true, 0⟩, .add ⟨1, 10, true, 1⟩, .add ⟨2, 0, true, 2⟩, .add ⟨1, -5, true, 3⟩,
   .remove 1, .add ⟨1, 0, true, 5⟩, .setEnabled 2 false, .remove 7]

example : outs KB.init exOps =
    [.added, .added, .added, .errDup, .bool true, .added, .bool true, .bool false] := by decide
example : (getRules (run exOps)).map (·.tag) = [0, 2, 5] := by decide
example : getRule (run exOps) 1 = some ⟨1, 0, true, 5⟩ ∧ getRule (run exOps) 2 = some ⟨2, 0, false, 2⟩ := by decide
example : (run exOps).version = 6 ∧ (run exOps).index.length = 3 := by decide
example : getRules (run [.add ⟨0, 0, true, 0⟩, .add ⟨1, 10, true, 1⟩, .add ⟨2, 10, true, 2⟩]) =
    [⟨1, 10, true, 1⟩, ⟨2, 10, true, 2⟩, ⟨0, 0, true, 0⟩] := by decide

/-! ## (b) schedules -/

/-- every method of the (regenerated) table acquires its locks in strictly increasing rank
rules < rule_index < version -/
theorem locks_ordered : kbMethods.all Method.ordered = true := by decide

/-- every method that takes a write lock takes the write lock on `rules` first and holds it to the end -/
theorem mutators_take_write_first : kbMethods.all Method.writeFirst = true := by decide

/-- every method is two-phase: no guard is dropped early, and only the last acquisition may be a temporary -/
theorem methods_two_phase : kbMethods.all Method.twoPhase = true := by decide

/-- the table is not vacuous: it has a row with at least one acquisition for every method the
property names, and the four mutators are recognised as mutators -/
theorem table_covers_api :
    (["add_rule", "remove_rule", "set_rule_enabled", "clear", "get_rule", "get_rules", "get_rule_names",
      "rule_count", "get_rules_by_salience", "get_rule_by_index", "version", "get_statistics",
      "get_rules_snapshot", "export_to_grl", "clone"].all
        (fun n => kbMethods.any (fun m => m.name == n && !m.acqs.isEmpty && !m.composite))) = true ∧
    (["add_rule", "remove_rule", "set_rule_enabled", "clear"].all
        (fun n => kbMethods.any (fun m => m.name == n && m.isMutator))) = true ∧
    lockNames = ["rules", "rule_index", "version"] := by decide

/-- **General theorem.** If every thread acquires its locks in strictly increasing rank and
releases everything at the end, then under any admission policy that grants a free lock to some
waiter, no reachable state is a deadlock (some thread unfinished and nobody able to move). -/
theorem ordered_acquisition_deadlock_free (pol : Acq → List Thread → Prop) (hfair : Fair pol)
    (progs : List (List Acq)) (hord : ∀ p ∈ progs, increasing (p.map (·.lock)) = true)
    (s : List Thread) (hr : Reach pol (progs.map Thread.start) s) : ¬ Deadlock pol s :=
  wf_not_deadlock hfair (wf_reach (wf_init progs (fun p hp => increasing_pairwise _ (hord p hp))) hr)

/-- Any number of threads, each executing any method of the extracted table, cannot deadlock —
in particular under plain `RwLock` compatibility. -/
theorem kb_deadlock_free (ms : List Method) (hms : ∀ m ∈ ms, m ∈ kbMethods) :
    (∀ (pol : Acq → List Thread → Prop), Fair pol → ∀ s,
        Reach pol (ms.map (fun m => Thread.start m.acqs)) s → ¬ Deadlock pol s) ∧
    (∀ s, Reach rwCompatible (ms.map (fun m => Thread.start m.acqs)) s → ¬ Deadlock rwCompatible s) := by
  have hord : ∀ p ∈ ms.map (·.acqs), increasing (p.map (·.lock)) = true := by
    intro p hp
    obtain ⟨m, hm, rfl⟩ := List.mem_map.1 hp
    exact List.all_eq_true.1 locks_ordered m (hms m hm)
  have key : ∀ (pol : Acq → List Thread → Prop), Fair pol → ∀ s,
      Reach pol (ms.map (fun m => Thread.start m.acqs)) s → ¬ Deadlock pol s := by
    intro pol hfair s hr
    refine ordered_acquisition_deadlock_free pol hfair (ms.map (·.acqs)) hord s ?_
    simpa [List.map_map, Function.comp_def] using hr
  exact ⟨key, key rwCompatible rwCompatible_fair⟩

/-- Mutual exclusion: in every reachable state of any set of lock programs under `RwLock`
compatibility, two distinct threads hold guards on the same lock only if both are read guards. -/
theorem guards_mutually_exclusive (progs : List (List Acq)) (s : List Thread)
    (hr : Reach rwCompatible (progs.map Thread.start) s)
    (i j : Nat) (t u : Thread) (hij : i ≠ j) (ht : s[i]? = some t) (hu : s[j]? = some u)
    (h g : Acq) (hh : h ∈ t.held) (hg : g ∈ u.held) (hl : h.lock = g.lock) :
    h.mode = .read ∧ g.mode = .read :=
  excl_reach (excl_init progs) hr i j t u hij ht hu h hh g hg hl

/-- **Two-phase methods are atomic** (strict two-phase locking): if thread `i` held a lock at some
moment of an execution and thread `j` holds the same lock in a conflicting mode (at least one of
the two is a write guard) at a later moment, then `i` has finished by then. Hence conflicting
critical sections never overlap and are totally ordered by the threads' finish steps — every
execution is conflict-equivalent to the serial execution in finish order, and since a finish step
lies between a call's invocation and its response, that serial order respects real time. -/
theorem two_phase_atomic (progs : List (List Acq)) (s₁ s₂ : List Thread)
    (h1 : Reach rwCompatible (progs.map Thread.start) s₁) (h2 : Reach rwCompatible s₁ s₂)
    (i j : Nat) (hij : i ≠ j) (t₁ u₂ : Thread) (hi : s₁[i]? = some t₁) (hj : s₂[j]? = some u₂)
    (h g : Acq) (hh : h ∈ t₁.held) (hg : g ∈ u₂.held) (hl : h.lock = g.lock)
    (hconf : h.mode = .write ∨ g.mode = .write) :
    ∃ t₂, s₂[i]? = some t₂ ∧ t₂.done = true :=
  two_phase_strict progs s₁ s₂ h1 h2 i j hij t₁ u₂ hi hj h g hh hg hl hconf

/-- The linearization search used as the concurrency oracle is sound: when it answers `true` there
is an order of all recorded calls that respects real time (no call is placed after one that was
invoked only after it had responded) and in which the sequential model returns exactly the
observed results. -/
theorem linSearch_sound (h : List Event) (hl : linearizable h = true) :
    ∃ l : List Event, l.Perm h ∧ RespectsRealTime l ∧ Replays KB.init l :=
  linSearch_sound_aux h.length h KB.init hl

/-! Non-vacuity: two writers and a reader of the real table interleave and finish; a cyclic order deadlocks. -/
example : ∃ m ∈ kbMethods, m.name = "add_rule" ∧ m.acqs.length = 3 := by decide

/-- without the ordering hypothesis the conclusion fails: two threads taking two locks in opposite orders -/
example : Deadlock rwCompatible
    [⟨[⟨0, .write, true⟩], [⟨1, .write, true⟩], false⟩, ⟨[⟨1, .write, true⟩], [⟨0, .write, true⟩], false⟩] := by
  refine ⟨⟨_, List.mem_cons_self, rfl⟩, ?_⟩
  rintro ⟨s', hs⟩
  generalize hs0 : ([⟨[⟨0, .write, true⟩], [⟨1, .write, true⟩], false⟩,
    ⟨[⟨1, .write, true⟩], [⟨0, .write, true⟩], false⟩] : List Thread) = s0 at hs
  cases hs with
  | mk pre post t t' hts =>
    match pre, hs0 with
    | [], hs0 =>
      simp only [List.nil_append, List.cons.injEq] at hs0
      obtain ⟨rfl, rfl⟩ := hs0
      cases hts with
      | acquire held a rest hpol =>
        have := hpol ⟨[⟨1, .write, true⟩], [⟨0, .write, true⟩], false⟩ (by simp) ⟨1, .write, true⟩ (by simp) rfl
        cases this.1
    | [x], hs0 =>
      simp only [List.cons_append, List.nil_append, List.cons.injEq] at hs0
      obtain ⟨rfl, rfl, rfl⟩ := hs0
      cases hts with
      | acquire held a rest hpol =>
        have := hpol ⟨[⟨0, .write, true⟩], [⟨1, .write, true⟩], false⟩ (by simp) ⟨0, .write, true⟩ (by simp) rfl
        cases this.1
    | x :: y :: z, hs0 =>
      simp only [List.cons_append, List.cons.injEq] at hs0
      obtain ⟨_, _, h3⟩ := hs0
      cases z <;> simp at h3

/-! ## (c) schedules WITH DATA: strict two-phase locking with footprints ⇒ linearizable

The machine of Lin.lean: shared memory = the three protected components; a thread = one public call =
`invoke · acquire* · read* · BODY · write* · release* · return`, where `read k` copies the shared
component `k` into the thread's private view (only while it holds lock `k`), the body is `Model.step`
on the private view, `write k v` stores arbitrary intermediate values while `k` is write-held, and a
write guard can be released only when the component has the value the body computed. All steps of
all threads interleave arbitrarily. -/

open C15.Lin in
/-- **Every row of the regenerated lock table is a well-formed lock program for its method against
the sequential model**: the method has a row; the row takes its locks itself, drops nothing early and
only its last acquisition may be a temporary (all guards are alive when the last one has been taken);
and the guards cover the declared footprint `need` of the method's `Model.step` clause (every
component the clause reads is held, every component it may change is held in write mode). -/
theorem table_footprints_ok : tableFootprintsOk kbMethods = true := by decide

open C15.Lin in
/-- **The declared footprints are footprints of `Model.step`**: with guards covering `need`, the
result and the written components of a call depend only on the held components, and no component
that is not write-held changes. (Quantified over every state, argument and set of guards.) -/
theorem footprint_sound (held : List Acq) (op : Op) (h : covers held (need (kindOf op)) = true) :
    FootprintOk held op := need_sound held op h

open C15.Lin in
/-- **… and they are exact**: a set of guards is a well-formed lock program for every call of a
method if AND ONLY IF it covers the declared footprint — the decidable check `covers` (hence
`table_footprints_ok`) neither accepts an ill-formed row nor rejects a well-formed one. -/
theorem footprint_exact (k : OpKind) (held : List Acq) :
    covers held (need k) = true ↔ ∀ op, kindOf op = k → FootprintOk held op :=
  ⟨fun h op hk => need_sound held op (hk ▸ h), need_necessary k held⟩

open C15.Lin in
/-- hence every call gets a well-formed lock program from the regenerated table -/
theorem table_programs_wellformed (op : Op) : FootprintOk (progOf op) op :=
  footprints_of_table kbMethods table_footprints_ok op

open C15.Lin in
/-- **General theorem (strict two-phase locking with footprints ⇒ linearizability).** For ANY
assignment `ops` of calls to threads (any number of threads), any lock programs that are well-formed
against `Model.step`, any admission policy that never grants an incompatible guard, any initial state
and EVERY interleaved execution (finished or not): the order in which the bodies ran is a linearization
— it respects real time, the sequential model replayed in that order returns exactly the observed
results, and the shared memory is the sequential model's state (on every component not currently being
written; entirely, whenever no call is between body and response). -/
theorem two_phase_footprint_linearizable (ops : Nat → Op) (prog : Op → List Acq)
    (adm : Cfg → Nat → Acq → Prop) (hadm : AdmSafe adm) (hfp : ∀ op, FootprintOk (prog op) op)
    (kb0 : KB) (tr : List Label) (c : Cfg) (hex : Exec ops prog adm kb0 tr c) :
    IsLinearization ops kb0 tr c (linOrder tr) :=
  inv_linearization (inv_exec hadm hfp hex)

open C15.Lin in
/-- **`KnowledgeBase` is linearizable w.r.t. the sequential model** — for the lock programs of the
table regenerated from the source: every finite set of threads, every method/argument assignment,
every admission policy at least as strict as `RwLock` compatibility, every interleaving. -/
theorem kb_linearizable (ops : Nat → Op) (adm : Cfg → Nat → Acq → Prop) (hadm : AdmSafe adm)
    (kb0 : KB) (tr : List Label) (c : Cfg) (hex : Exec ops progOf adm kb0 tr c) :
    ∃ order : List Nat, IsLinearization ops kb0 tr c order :=
  ⟨linOrder tr, two_phase_footprint_linearizable ops progOf adm hadm table_programs_wellformed kb0 tr c hex⟩

open C15.Lin in
/-- **Complete executions**: when every invoked call has returned, the linearization is a total order
of exactly the invoked calls, real time is respected, the sequential replay yields exactly the set of
observed (call, result) pairs, and the final shared memory is the final state of the sequential model. -/
theorem kb_linearizable_complete (ops : Nat → Op) (adm : Cfg → Nat → Acq → Prop) (hadm : AdmSafe adm)
    (kb0 : KB) (tr : List Label) (c : Cfg) (hex : Exec ops progOf adm kb0 tr c) (hc : Complete tr) :
    ∃ order : List Nat, order.Nodup ∧ (∀ i, i ∈ order ↔ Label.inv i ∈ tr) ∧
      (∀ t1 t2 i o j, tr = t1 ++ Label.ret i o :: t2 → Label.inv j ∈ t2 → Precedes order i j) ∧
      (∀ i o, (i, o) ∈ replay ops kb0 order ↔ Label.ret i o ∈ tr) ∧
      c.shared = runFrom kb0 (order.map ops) := by
  have hinv := inv_exec hadm table_programs_wellformed hex
  have hl := inv_linearization hinv
  have hmem : ∀ i, i ∈ linOrder tr ↔ Label.inv i ∈ tr := by
    intro i
    refine ⟨hl.invoked i, fun hi => ?_⟩
    obtain ⟨o, ho⟩ := hc i hi
    exact hl.returned i o ho
  refine ⟨linOrder tr, hl.nodup, hmem, ?_, ?_, ?_⟩
  · intro t1 t2 i o j htr hj
    refine hl.realTime t1 t2 i o j htr hj ((hmem j).2 ?_)
    rw [htr]; simp [hj]
  · intro i o
    refine ⟨fun hio => ?_, hl.results i o⟩
    have hi : i ∈ linOrder tr := by
      have := List.mem_map_of_mem (f := (·.1)) hio
      rwa [replay_fst] at this
    obtain ⟨o', ho'⟩ := hc i ((hmem i).1 hi)
    have hio' := hl.results i o' ho'
    have : o = o' := replay_functional ops kb0 (linOrder tr) hl.nodup hio hio'
    rw [this]; exact ho'
  · apply hl.final
    intro i hd
    have hi : Label.inv i ∈ tr := by rw [hinv.t.inv_iff, hd]; simp
    obtain ⟨o, ho⟩ := hc i hi
    have := ((hinv.t.ret_iff i o).1 ho).1
    rw [hd] at this; cases this

open C15.Lin in
/-- **The same statement in the vocabulary of the runtime oracle.** `historyOf ops tr` is what the
harness records of a run (one `Event` per completed call: thread, invocation stamp, response stamp,
call, result). For every complete execution of the machine the recorded history has a permutation
that respects real time and that the sequential model replays from the initial state — exactly the
conclusion of `linSearch_sound`, i.e. exactly what the search checks on the histories sampled from
the real code, here for ALL histories of the machine. -/
theorem kb_history_linearizable (ops : Nat → Op) (adm : Cfg → Nat → Acq → Prop) (hadm : AdmSafe adm)
    (kb0 : KB) (tr : List Label) (c : Cfg) (hex : Exec ops progOf adm kb0 tr c) (hc : Complete tr) :
    ∃ l : List Event, l.Perm (historyOf ops tr) ∧ RespectsRealTime l ∧ Replays kb0 l :=
  history_linearizable hadm table_programs_wellformed hex hc

open C15.Lin in
/-- **The property, "including from several threads at once".** After ANY concurrent execution from the
empty knowledge base, at every moment at which no call is between its body and its response, the
shared memory is the state of the sequential model after the linearized history — so everything proved
in part (a) for all sequential histories holds of it: in particular the index is exact
(`rules[index[n]].name = n`, every stored rule indexed at its position), the vector is in descending
salience, names are unique, and the version is the number of successful changes so far. -/
theorem kb_concurrent_consistent (ops : Nat → Op) (adm : Cfg → Nat → Acq → Prop) (hadm : AdmSafe adm)
    (tr : List Label) (c : Cfg) (hex : Exec ops progOf adm KB.init tr c) (hq : Quiescent c) :
    ∃ hist : List Op, c.shared = run hist ∧
      (∀ n p, idxGet c.shared.index n = some p → ∃ r, c.shared.rules[p]? = some r ∧ r.name = n) ∧
      (∀ p r, c.shared.rules[p]? = some r → idxGet c.shared.index r.name = some p) ∧
      c.shared.rules.Pairwise (fun x y => y.salience ≤ x.salience) ∧
      (c.shared.rules.map (·.name)).Nodup ∧
      (∀ n, getRule c.shared n = latest n hist) := by
  have hl := two_phase_footprint_linearizable ops progOf adm hadm table_programs_wellformed KB.init tr c hex
  refine ⟨(linOrder tr).map ops, hl.final hq, ?_⟩
  rw [hl.final hq]
  have h1 := index_consistent ((linOrder tr).map ops)
  have h2 := listing_once_sorted_stable ((linOrder tr).map ops)
  exact ⟨h1.1, h1.2.1, h2.1, h2.2.2.1, fun n => lookup_latest _ n⟩

open C15.Lin in
/-- **The footprint condition has teeth**: a lock program that misses a component the method reads,
or holds a component it changes only in read mode, is NOT well-formed against `Model.step` —
`set_rule_enabled` without the index guard, `get_statistics` without the version guard, `version`
without any guard, `add_rule` with `rules` only read-held. (These are what a source change that drops
or weakens a guard turns a row of the regenerated table into; `table_footprints_ok` then fails.) -/
theorem footprint_has_teeth :
    ¬ FootprintOk [⟨0, .write, true⟩, ⟨2, .write, true⟩] (.setEnabled 7 false) ∧
    ¬ FootprintOk [⟨0, .read, true⟩] .stats ∧
    ¬ FootprintOk [] .version ∧
    ¬ FootprintOk [⟨0, .read, true⟩, ⟨1, .write, true⟩, ⟨2, .write, true⟩] (.add ⟨7, 0, true, 0⟩) ∧
    covers [⟨0, .write, true⟩, ⟨2, .write, true⟩] (need .setEnabled) = false ∧
    covers [⟨0, .read, true⟩] (need .stats) = false ∧ covers [] (need .version) = false ∧
    covers [⟨0, .read, true⟩, ⟨1, .write, true⟩, ⟨2, .write, true⟩] (need .add) = false := by
  refine ⟨fun h => ?_, fun h => ?_, fun h => ?_, fun h => ?_, by decide, by decide, by decide, by decide⟩
  · have := (h.dep ⟨[⟨7, 0, true, 0⟩], [(7, 0)], 3⟩ ⟨[⟨7, 0, true, 0⟩], [], 3⟩ (by
      rintro k ⟨g, hg, rfl⟩
      simp only [List.mem_cons, List.not_mem_nil, or_false] at hg
      rcases hg with rfl | rfl <;> decide)).1
    revert this; decide
  · have := (h.dep ⟨[], [], 3⟩ ⟨[], [], 4⟩ (by
      rintro k ⟨g, hg, rfl⟩
      simp only [List.mem_cons, List.not_mem_nil, or_false] at hg
      subst hg; decide)).1
    revert this; decide
  · have := (h.dep ⟨[], [], 3⟩ ⟨[], [], 4⟩ (by rintro k ⟨g, hg, _⟩; cases hg)).1
    revert this; decide
  · have := h.frame KB.init 0 (by
      rintro ⟨g, hg, hk, hm⟩
      simp only [List.mem_cons, List.not_mem_nil, or_false] at hg
      rcases hg with rfl | rfl | rfl <;> revert hk hm <;> decide)
    revert this; decide

/-! Non-vacuity of (c): `clear` (thread 0) and `version()` (thread 1) overlap on a knowledge base with
one rule and version 3. `version()` is invoked second, reads while `clear` is between two acquisitions,
makes `clear` wait for `version.write`, and responds after the body of `clear` has run; `clear` writes a
junk index before the final values and releases its guards one at a time. The trace is complete, the
linearization is [version, clear] (not the invocation order), the results are 3 and (), the final
shared memory is the sequential state. -/
open C15.Lin in
example : ∃ tr c, Exec exOps2 exProg rwAdm kbA tr c ∧ AdmSafe rwAdm ∧ (∀ op, FootprintOk (exProg op) op) ∧
    Complete tr ∧ tr.take 2 = [.inv 0, .inv 1] ∧ linOrder tr = [1, 0] ∧
    replay exOps2 kbA (linOrder tr) = [(1, .nat 3), (0, .unit)] ∧ Label.ret 1 (.nat 3) ∈ tr ∧
    c.shared = runFrom kbA [.version, .clear] ∧ c.shared = ⟨[], [], 4⟩ :=
  ⟨exTrace, _, ex_exec, fun _ _ _ h => h, exProg_ok, ex_complete, by decide, by decide, by decide, by decide,
    by decide, by decide⟩

open C15.Lin in
/-- the lock is what orders them: in the middle of that execution `clear` is refused `version.write` -/
example : ¬ rwAdm ⟨kbA, th2 ⟨.acq, [W0, W1], [W2], [], {}, {}, .unit⟩ ⟨.acq, [R2], [], [], {}, {}, .unit⟩⟩ 0 W2 :=
  ex_blocked

open C15.Lin in
/-- the table lookup is not vacuous: every modelled method gets a non-empty lock program -/
example : OpKind.all.all (fun k => !(progOfTbl kbMethods k).isEmpty) = true := by decide

open C15.Lin in
/-- the recorded history of the example execution: `version()` (invoked at 1, responded at 13, result 3)
and `clear` (invoked at 0, responded at 21) overlap -/
example : historyOf exOps2 exTrace = [⟨1, 1, 13, .version, .nat 3⟩, ⟨0, 0, 21, .clear, .unit⟩] := by decide

end C15
