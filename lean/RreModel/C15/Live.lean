import RreModel.C15.Lin
import RreModel.C15.LinLemmas
/-
C15 (schedules, WITH DATA) — progress of the machine of Lin.lean.

* `mu`    — the number of MANDATORY steps a call still has to take: invoke, one acquisition per pending lock,
            one first copy per held-or-pending component, the body, one release per guard, the response.
            The two optional loops of a call — copying a component AGAIN (`read k` with `k` already seen) and
            storing values into a write-held component (`write k v`) — are the *stutter* steps: they can be
            repeated any number of times and leave `mu` unchanged; every other step decreases `mu` by at least one.
* `LInv`  — guards are held only between invocation and response; while acquiring, held ++ pending is the row.
* `AdmLive` — the liveness half of `RwLock`: a lock nobody holds is granted to one of the calls waiting for it.
No Mathlib.
-/
namespace C15.Lin
open C15 C15.Locks

/-- the thread that takes the step -/
def thr : Label → Nat
  | .inv i => i
  | .lin i => i
  | .ret i _ => i
  | .tau i => i

/-- held-or-pending guards whose component has not been copied into the private view yet -/
def unseen (held todo : List Acq) (seen : List Nat) : Nat :=
  ((held ++ todo).filter (fun a => !seen.contains a.lock)).length

/-- mandatory steps left for a call whose lock program is `p` -/
def mu (p : List Acq) (t : TState) : Nat :=
  match t.phase with
  | .idle => 3 * p.length + 3
  | .acq => 2 * t.todo.length + unseen t.held t.todo t.seen + t.held.length + 2
  | .done => t.held.length + 1
  | .ret => 0

def sumTo (f : Nat → Nat) : Nat → Nat
  | 0 => 0
  | n + 1 => sumTo f n + f n

/-- mandatory steps left for the calls of the threads `0 … n-1` -/
def Mu (ops : Nat → Op) (prog : Op → List Acq) (n : Nat) (c : Cfg) : Nat :=
  sumTo (fun i => mu (prog (ops i)) (c.th i)) n

/-- the optional steps: a `write` (only the shared memory changes) or a repeated `read` of a component the call has
already copied (only the private view is refreshed) -/
def IsStutter (c c' : Cfg) (i : Nat) : Prop :=
  c'.th = c.th ∨
  ∃ k, k ∈ (c.th i).seen ∧ c'.shared = c.shared ∧
    c'.th = upd c.th i { c.th i with view := put k c.shared (c.th i).view, seen := k :: (c.th i).seen }

/-- the liveness half of `RwLock`: a lock that nobody holds is granted to one of the calls waiting for it -/
def AdmLive (adm : Cfg → Nat → Acq → Prop) : Prop :=
  ∀ (c : Cfg) (L : Nat), (∀ j, ∀ h ∈ (c.th j).held, h.lock ≠ L) →
    (∃ i a rest, (c.th i).phase = .acq ∧ (c.th i).todo = a :: rest ∧ a.lock = L) →
    ∃ i a rest, (c.th i).phase = .acq ∧ (c.th i).todo = a :: rest ∧ a.lock = L ∧ adm c i a

theorem rwAdm_live : AdmLive rwAdm := by
  intro c L hfree ⟨i, a, rest, hph, htodo, hL⟩
  refine ⟨i, a, rest, hph, htodo, hL, ?_⟩
  intro j _ h hh hl
  exact absurd (hl.trans hL) (hfree j h hh)

/-- thread `j` can make progress: it has a step that strictly decreases its number of mandatory steps, possibly after
ONE `write` step of its own (which changes nothing but the shared memory: it installs the value the body computed,
so that the write guard may be released) -/
def CanProgress (ops : Nat → Op) (prog : Op → List Acq) (adm : Cfg → Nat → Acq → Prop) (c : Cfg) (j : Nat) : Prop :=
  ∃ c1 l c2, (c1 = c ∨ (Step ops prog adm c (.tau j) c1 ∧ c1.th = c.th)) ∧
    Step ops prog adm c1 l c2 ∧ thr l = j ∧ mu (prog (ops j)) (c2.th j) < mu (prog (ops j)) (c.th j)

/-! ### the lock invariant -/

structure LInv (ops : Nat → Op) (prog : Op → List Acq) (c : Cfg) : Prop where
  idle : ∀ i, (c.th i).phase = .idle → (c.th i).held = []
  ret : ∀ i, (c.th i).phase = .ret → (c.th i).held = []
  acq : ∀ i, (c.th i).phase = .acq → (c.th i).held ++ (c.th i).todo = prog (ops i)

theorem linv_init (ops : Nat → Op) (prog : Op → List Acq) (kb0 : KB) : LInv ops prog (Cfg.init kb0) :=
  ⟨fun _ _ => rfl, fun _ _ => rfl, fun i h => by simp [Cfg.init] at h⟩

/-- the invariant only looks at phase / held / todo of each thread -/
theorem linv_of_upd {ops prog} {c : Cfg} {sh : KB} {i : Nat} {t : TState} (h : LInv ops prog c)
    (h1 : t.phase = .idle → t.held = []) (h2 : t.phase = .ret → t.held = [])
    (h3 : t.phase = .acq → t.held ++ t.todo = prog (ops i)) : LInv ops prog ⟨sh, upd c.th i t⟩ := by
  refine ⟨?_, ?_, ?_⟩ <;> intro j hj <;> by_cases hji : j = i
  · subst hji; simp only [upd_same] at hj ⊢; exact h1 hj
  · simp only [upd_ne _ _ hji] at hj ⊢; exact h.idle j hj
  · subst hji; simp only [upd_same] at hj ⊢; exact h2 hj
  · simp only [upd_ne _ _ hji] at hj ⊢; exact h.ret j hj
  · subst hji; simp only [upd_same] at hj ⊢; exact h3 hj
  · simp only [upd_ne _ _ hji] at hj ⊢; exact h.acq j hj

theorem linv_step {ops prog adm c l c'} (hs : Step ops prog adm c l c') (h : LInv ops prog c) : LInv ops prog c' := by
  cases hs with
  | invoke i hph => exact linv_of_upd h (fun _ => rfl) (fun _ => rfl) (fun _ => rfl)
  | acquire i a rest hph htodo hadm =>
    refine linv_of_upd h (fun e => ?_) (fun e => ?_) (fun _ => ?_)
    · simp [hph] at e
    · simp [hph] at e
    · have := h.acq i hph
      rw [htodo] at this
      simpa using this
  | read i k hph hh =>
    refine linv_of_upd h (fun e => ?_) (fun e => ?_) (fun _ => h.acq i hph)
    · simp [hph] at e
    · simp [hph] at e
  | body i hph htodo hseen =>
    refine linv_of_upd h (fun e => ?_) (fun e => ?_) (fun e => ?_) <;> cases e
  | write i k v hph hw => exact ⟨h.idle, h.ret, h.acq⟩
  | release i g hph hg hm =>
    refine linv_of_upd h (fun e => ?_) (fun e => ?_) (fun e => ?_) <;> simp [hph] at e
  | ret i hph hheld =>
    refine linv_of_upd h (fun e => ?_) (fun _ => hheld) (fun e => ?_) <;> simp at e

theorem linv_exec {ops prog adm kb0 tr c} (hex : Exec ops prog adm kb0 tr c) : LInv ops prog c := by
  induction hex with
  | init => exact linv_init ops prog kb0
  | step _ hs ih => exact linv_step hs ih

/-! ### the measure -/

theorem sumTo_except {f f' : Nat → Nat} {i : Nat} (h : ∀ j, j ≠ i → f' j = f j) :
    ∀ n, (i < n → sumTo f' n + f i = sumTo f n + f' i) ∧ (n ≤ i → sumTo f' n = sumTo f n)
  | 0 => ⟨fun h => absurd h (Nat.not_lt_zero _), fun _ => rfl⟩
  | n + 1 => by
    obtain ⟨ih1, ih2⟩ := sumTo_except h n
    constructor
    · intro hi
      by_cases hin : i = n
      · subst hin
        have := ih2 (Nat.le_refl _)
        simp only [sumTo]; omega
      · have := ih1 (by omega)
        have := h n (fun e => hin e.symm)
        simp only [sumTo]; omega
    · intro hi
      have := ih2 (by omega)
      have := h n (by omega)
      simp only [sumTo]; omega

theorem filter_length_le_of_imp {α : Type} (p q : α → Bool) (h : ∀ x, p x = true → q x = true) :
    ∀ l : List α, (l.filter p).length ≤ (l.filter q).length
  | [] => Nat.le_refl _
  | x :: l => by
    have ih := filter_length_le_of_imp p q h l
    by_cases hp : p x = true
    · simp only [List.filter_cons, hp, h x hp, if_true, List.length_cons]; omega
    · by_cases hq : q x = true
      · simp only [List.filter_cons, hp, hq, if_true, List.length_cons]; simp; omega
      · simp only [List.filter_cons, hp, hq]; simpa using ih

theorem filter_length_lt_of_imp {α : Type} (p q : α → Bool) (h : ∀ x, p x = true → q x = true) :
    ∀ l : List α, (∃ x ∈ l, q x = true ∧ p x = false) → (l.filter p).length < (l.filter q).length
  | [], ⟨_, hx, _⟩ => by cases hx
  | x :: l, ⟨y, hy, hqy, hpy⟩ => by
    have hle := filter_length_le_of_imp p q h l
    by_cases hyx : y = x
    · subst hyx
      simp only [List.filter_cons, hpy, hqy, if_true, List.length_cons]
      simp; omega
    · have hyl : y ∈ l := by
        rcases List.mem_cons.1 hy with e | e
        · exact absurd e hyx
        · exact e
      have ih := filter_length_lt_of_imp p q h l ⟨y, hyl, hqy, hpy⟩
      by_cases hp : p x = true
      · simp only [List.filter_cons, hp, h x hp, if_true, List.length_cons]; omega
      · by_cases hq : q x = true
        · simp only [List.filter_cons, hp, hq, if_true, List.length_cons]; simp; omega
        · simp only [List.filter_cons, hp, hq]; simpa using ih

theorem unseen_start (p : List Acq) : unseen [] p [] = p.length := by
  induction p with
  | nil => rfl
  | cons a p ih => simp only [unseen, List.nil_append] at ih ⊢; simp

/-- copying a component again does not change the count, copying a new held one decreases it -/
theorem unseen_read (held todo : List Acq) (seen : List Nat) (k : Nat) :
    unseen held todo (k :: seen) ≤ unseen held todo seen ∧
    (k ∈ seen → unseen held todo (k :: seen) = unseen held todo seen) ∧
    (k ∉ seen → Holds held k → unseen held todo (k :: seen) < unseen held todo seen) := by
  refine ⟨?_, ?_, ?_⟩
  · apply filter_length_le_of_imp
    intro a ha
    simp only [List.contains_cons, Bool.not_eq_true', Bool.or_eq_false_iff] at ha ⊢
    simpa using ha.2
  · intro hk
    unfold unseen
    congr 1
    apply List.filter_congr
    intro a _
    by_cases hak : a.lock = k
    · subst hak; simp [hk]
    · simp [hak]
  · intro hk ⟨g, hg, hgk⟩
    apply filter_length_lt_of_imp
    · intro a ha
      simp only [List.contains_cons, Bool.not_eq_true', Bool.or_eq_false_iff] at ha ⊢
      simpa using ha.2
    · refine ⟨g, List.mem_append_left _ hg, ?_, ?_⟩
      · subst hgk; simpa using hk
      · subst hgk; simp

/-- **every step decreases the number of mandatory steps of its thread, unless it is a stutter** (a `write`, or a
`read` of a component already copied), which leaves it unchanged; no step touches another thread -/
theorem step_mu {ops prog adm c l c'} (hs : Step ops prog adm c l c') :
    (∀ j, j ≠ thr l → c'.th j = c.th j) ∧
    (mu (prog (ops (thr l))) (c'.th (thr l)) < mu (prog (ops (thr l))) (c.th (thr l)) ∨
      (IsStutter c c' (thr l) ∧ mu (prog (ops (thr l))) (c'.th (thr l)) = mu (prog (ops (thr l))) (c.th (thr l)))) := by
  cases hs with
  | invoke i hph =>
    refine ⟨fun j hj => upd_ne _ _ hj, Or.inl ?_⟩
    simp only [thr, upd_same, mu, hph, unseen_start, List.length_nil]
    omega
  | acquire i a rest hph htodo hadm =>
    refine ⟨fun j hj => upd_ne _ _ hj, Or.inl ?_⟩
    simp only [thr, upd_same, mu, hph, unseen, htodo, List.append_assoc, List.singleton_append, List.length_cons,
      List.length_append, List.length_nil]
    omega
  | read i k hph hh =>
    refine ⟨fun j hj => upd_ne _ _ hj, ?_⟩
    have hr := unseen_read (c.th i).held (c.th i).todo (c.th i).seen k
    by_cases hk : k ∈ (c.th i).seen
    · refine Or.inr ⟨Or.inr ⟨k, hk, rfl, rfl⟩, ?_⟩
      simp only [thr, upd_same, mu, hph]
      have := hr.2.1 hk
      omega
    · refine Or.inl ?_
      simp only [thr, upd_same, mu, hph]
      have := hr.2.2 hk hh
      omega
  | body i hph htodo hseen =>
    refine ⟨fun j hj => upd_ne _ _ hj, Or.inl ?_⟩
    simp only [thr, upd_same, mu, hph]
    omega
  | write i k v hph hw =>
    exact ⟨fun _ _ => rfl, Or.inr ⟨Or.inl rfl, rfl⟩⟩
  | release i g hph hg hm =>
    refine ⟨fun j hj => upd_ne _ _ hj, Or.inl ?_⟩
    simp only [thr, upd_same, mu, hph, List.length_erase_of_mem hg]
    have : 0 < (c.th i).held.length := List.length_pos_of_mem hg
    omega
  | ret i hph hheld =>
    refine ⟨fun j hj => upd_ne _ _ hj, Or.inl ?_⟩
    simp only [thr, upd_same, mu, hph]
    omega

/-- a step that decreases the measure of its thread is not a stutter -/
theorem not_stutter_of_lt {p : List Acq} {c c' : Cfg} {i : Nat} (hlt : mu p (c'.th i) < mu p (c.th i)) :
    ¬ IsStutter c c' i := by
  intro hst
  rcases hst with h | ⟨k, hk, _, h⟩
  · rw [h] at hlt; exact Nat.lt_irrefl _ hlt
  · rw [h, upd_same] at hlt
    have := (unseen_read (c.th i).held (c.th i).todo (c.th i).seen k).2.1 hk
    simp only [mu] at hlt
    split at hlt <;> omega

/-- the global count never increases; a step of one of the first `n` threads that is not a stutter decreases it -/
theorem step_Mu {ops prog adm c l c'} (hs : Step ops prog adm c l c') (n : Nat) :
    Mu ops prog n c' ≤ Mu ops prog n c ∧
    (thr l < n → ¬ IsStutter c c' (thr l) → Mu ops prog n c' < Mu ops prog n c) := by
  obtain ⟨hother, hmine⟩ := step_mu hs
  have hex := sumTo_except (f := fun i => mu (prog (ops i)) (c.th i)) (f' := fun i => mu (prog (ops i)) (c'.th i))
    (i := thr l) (fun j hj => by simp only [hother j hj]) n
  unfold Mu
  by_cases hn : thr l < n
  · have h1 := hex.1 hn
    rcases hmine with hlt | ⟨hst, heq⟩
    · exact ⟨by omega, fun _ _ => by omega⟩
    · exact ⟨by omega, fun _ hns => absurd hst hns⟩
  · have h2 := hex.2 (by omega)
    exact ⟨by omega, fun h => absurd h hn⟩

/-! ### no deadlock -/

theorem canProgress_idle {ops prog adm c i} (hph : (c.th i).phase = .idle) : CanProgress ops prog adm c i := by
  refine ⟨c, _, _, Or.inl rfl, Step.invoke c i hph, rfl, ?_⟩
  simp only [upd_same, mu, hph, unseen_start, List.length_nil]
  omega

/-- a call that holds all its locks copies a component it has not seen yet, or runs its body -/
theorem canProgress_ready {ops prog adm c i} (hph : (c.th i).phase = .acq) (htodo : (c.th i).todo = []) :
    CanProgress ops prog adm c i := by
  by_cases hall : ∀ h ∈ (c.th i).held, h.lock ∈ (c.th i).seen
  · refine ⟨c, _, _, Or.inl rfl, Step.body c i hph htodo hall, rfl, ?_⟩
    simp only [upd_same, mu, hph]
    omega
  · have : ∃ h, h ∈ (c.th i).held ∧ h.lock ∉ (c.th i).seen := by
      apply Classical.byContradiction
      intro hno
      apply hall
      intro h hh
      apply Classical.byContradiction
      intro hns
      exact hno ⟨h, hh, hns⟩
    obtain ⟨h, hh, hns⟩ := this
    have hH : Holds (c.th i).held h.lock := ⟨h, hh, rfl⟩
    refine ⟨c, _, _, Or.inl rfl, Step.read c i h.lock hph hH, rfl, ?_⟩
    have := (unseen_read (c.th i).held (c.th i).todo (c.th i).seen h.lock).2.2 hns hH
    simp only [upd_same, mu, hph]
    omega

/-- a call that has run its body responds, releases a read guard, or installs the computed value and releases a write guard -/
theorem canProgress_done {ops prog adm c i} (hph : (c.th i).phase = .done) : CanProgress ops prog adm c i := by
  cases hheld : (c.th i).held with
  | nil =>
    refine ⟨c, _, _, Or.inl rfl, Step.ret c i hph hheld, rfl, ?_⟩
    simp only [upd_same, mu, hph]
    omega
  | cons g rest =>
    have hg : g ∈ (c.th i).held := by rw [hheld]; exact List.mem_cons_self
    have hpos : 0 < (c.th i).held.length := List.length_pos_of_mem hg
    by_cases hm : g.mode = .write
    · -- write the computed value, then release
      let c1 : Cfg := ⟨put g.lock (c.th i).new c.shared, c.th⟩
      have hw : Step ops prog adm c (.tau i) c1 := Step.write c i g.lock (c.th i).new hph ⟨g, hg, rfl, hm⟩
      have hr : Step ops prog adm c1 (.tau i) ⟨c1.shared, upd c1.th i { c1.th i with held := (c1.th i).held.erase g }⟩ :=
        Step.release c1 i g hph hg (fun _ => agreeOn_put_same _ _ _)
      refine ⟨c1, _, _, Or.inr ⟨hw, rfl⟩, hr, rfl, ?_⟩
      simp only [upd_same, mu, hph, c1, List.length_erase_of_mem hg]
      omega
    · refine ⟨c, _, _, Or.inl rfl, Step.release c i g hph hg (fun e => absurd e hm), rfl, ?_⟩
      simp only [upd_same, mu, hph, List.length_erase_of_mem hg]
      omega

/-- the ordered-acquisition argument on the data machine: a call waiting for lock `L` — if nobody holds `L` the lock
is granted to a waiter; otherwise a holder either is not waiting (and can progress) or waits for a lock of higher rank -/
theorem blocked_chain {ops prog adm c} (hord : ∀ op, ((prog op).map (·.lock)).Pairwise (· < ·))
    {R : Nat} (hR : ∀ op, ∀ a ∈ prog op, a.lock < R) (hlive : AdmLive adm) (hinv : LInv ops prog c) :
    ∀ (d L : Nat), R - L ≤ d →
      (∃ i a rest, (c.th i).phase = .acq ∧ (c.th i).todo = a :: rest ∧ a.lock = L) →
      ∃ j, ((c.th j).phase = .acq ∨ (c.th j).phase = .done) ∧ CanProgress ops prog adm c j := by
  intro d
  induction d with
  | zero =>
    intro L hd ⟨i, a, rest, hph, htodo, hL⟩
    have hmem : a ∈ prog (ops i) := by
      rw [← hinv.acq i hph, htodo]; simp
    have := hR _ a hmem
    omega
  | succ d ih =>
    intro L hd hwait
    by_cases hfree : ∀ j, ∀ h ∈ (c.th j).held, h.lock ≠ L
    · obtain ⟨i, a, rest, hph, htodo, _, hadm⟩ := hlive c L hfree hwait
      refine ⟨i, Or.inl hph, c, _, _, Or.inl rfl, Step.acquire c i a rest hph htodo hadm, rfl, ?_⟩
      simp only [upd_same, mu, hph, unseen, htodo, List.append_assoc, List.singleton_append, List.length_cons,
        List.length_append, List.length_nil]
      omega
    · have : ∃ j h, h ∈ (c.th j).held ∧ h.lock = L := by
        apply Classical.byContradiction
        intro hno
        apply hfree
        intro j h hh hl
        exact hno ⟨j, h, hh, hl⟩
      obtain ⟨j, h, hh, hl⟩ := this
      cases hphj : (c.th j).phase with
      | idle => rw [hinv.idle j hphj] at hh; cases hh
      | ret => rw [hinv.ret j hphj] at hh; cases hh
      | done => exact ⟨j, Or.inr hphj, canProgress_done hphj⟩
      | acq =>
        cases htj : (c.th j).todo with
        | nil => exact ⟨j, Or.inl hphj, canProgress_ready hphj htj⟩
        | cons a' rest' =>
          have hp := hord (ops j)
          rw [← hinv.acq j hphj, htj, List.map_append, List.pairwise_append] at hp
          have hlt : h.lock < a'.lock :=
            hp.2.2 _ (List.mem_map_of_mem hh) _ (List.mem_map_of_mem List.mem_cons_self)
          have hmem : a' ∈ prog (ops j) := by
            rw [← hinv.acq j hphj, htj]; simp
          have := hR _ a' hmem
          exact ih a'.lock (by omega) ⟨j, a', rest', hphj, htj, rfl⟩

/-- **No deadlock in the data-carrying machine**: whenever a call `i` has not returned, some call — `i` itself or one
that has been invoked and has not returned — can make progress -/
theorem no_deadlock {ops prog adm c} (hord : ∀ op, ((prog op).map (·.lock)).Pairwise (· < ·))
    {R : Nat} (hR : ∀ op, ∀ a ∈ prog op, a.lock < R) (hlive : AdmLive adm) (hinv : LInv ops prog c)
    (i : Nat) (hi : (c.th i).phase ≠ .ret) :
    ∃ j, (j = i ∨ (c.th j).phase = .acq ∨ (c.th j).phase = .done) ∧ CanProgress ops prog adm c j := by
  cases hph : (c.th i).phase with
  | ret => exact absurd hph hi
  | idle => exact ⟨i, Or.inl rfl, canProgress_idle hph⟩
  | done => exact ⟨i, Or.inl rfl, canProgress_done hph⟩
  | acq =>
    cases ht : (c.th i).todo with
    | nil => exact ⟨i, Or.inl rfl, canProgress_ready hph ht⟩
    | cons a rest =>
      obtain ⟨j, hj, hp⟩ := blocked_chain hord hR hlive hinv (R - a.lock) a.lock (Nat.le_refl _) ⟨i, a, rest, hph, ht, rfl⟩
      exact ⟨j, Or.inr hj, hp⟩

/-! ### executions counted by their non-stutter steps -/

/-- executions of the threads `0 … n-1` from `c`, with the number of steps that are NOT stutters -/
inductive Run (ops : Nat → Op) (prog : Op → List Acq) (adm : Cfg → Nat → Acq → Prop) (n : Nat) : Cfg → Nat → Cfg → Prop where
  | refl (c : Cfg) : Run ops prog adm n c 0 c
  | stutter {c c1 c2 : Cfg} {p : Nat} {l : Label} : Run ops prog adm n c p c1 → Step ops prog adm c1 l c2 → thr l < n →
      IsStutter c1 c2 (thr l) → Run ops prog adm n c p c2
  | progress {c c1 c2 : Cfg} {p : Nat} {l : Label} : Run ops prog adm n c p c1 → Step ops prog adm c1 l c2 → thr l < n →
      ¬ IsStutter c1 c2 (thr l) → Run ops prog adm n c (p + 1) c2

theorem run_bound {ops prog adm n c p c'} (h : Run ops prog adm n c p c') : p + Mu ops prog n c' ≤ Mu ops prog n c := by
  induction h with
  | refl => omega
  | stutter _ hs _ _ ih => have := (step_Mu hs n).1; omega
  | progress _ hs hn hns ih => have := (step_Mu hs n).2 hn hns; omega

theorem run_exec {ops prog adm n kb0 p c'} (h : Run ops prog adm n (Cfg.init kb0) p c') :
    ∃ tr, Exec ops prog adm kb0 tr c' := by
  generalize hc : Cfg.init kb0 = c at h
  induction h with
  | refl => subst hc; exact ⟨[], Exec.init⟩
  | stutter _ hs _ _ ih => obtain ⟨tr, he⟩ := ih; exact ⟨_, Exec.step he hs⟩
  | progress _ hs _ _ ih => obtain ⟨tr, he⟩ := ih; exact ⟨_, Exec.step he hs⟩

theorem Mu_init (ops : Nat → Op) (prog : Op → List Acq) (kb0 : KB) (n : Nat) :
    Mu ops prog n (Cfg.init kb0) = sumTo (fun i => 3 * (prog (ops i)).length + 3) n := rfl

/-- a non-increasing sequence of naturals is eventually constant -/
theorem eventually_const (f : Nat → Nat) (h : ∀ t, f (t + 1) ≤ f t) : ∃ T, ∀ t, T ≤ t → f (t + 1) = f t := by
  have key : ∀ m T0, f T0 ≤ m → ∃ T, ∀ t, T ≤ t → f (t + 1) = f t := by
    intro m
    induction m with
    | zero =>
      intro T0 h0
      refine ⟨T0, fun t ht => ?_⟩
      have hmono : ∀ t, T0 ≤ t → f t ≤ f T0 := by
        intro t ht
        induction t with
        | zero => have : T0 = 0 := by omega
                  subst this; exact Nat.le_refl _
        | succ t iht =>
          by_cases e : T0 = t + 1
          · subst e; exact Nat.le_refl _
          · have := iht (by omega); have := h t; omega
      have := hmono t ht; have := hmono (t + 1) (by omega); omega
    | succ m ih =>
      intro T0 h0
      by_cases hc : ∀ t, T0 ≤ t → f (t + 1) = f t
      · exact ⟨T0, hc⟩
      · have : ∃ t, T0 ≤ t ∧ f (t + 1) ≠ f t := by
          apply Classical.byContradiction
          intro hno
          apply hc
          intro t ht
          apply Classical.byContradiction
          intro hne
          exact hno ⟨t, ht, hne⟩
        obtain ⟨t, ht, hne⟩ := this
        have hmono : ∀ s, T0 ≤ s → f s ≤ f T0 := by
          intro s hs
          induction s with
          | zero => have : T0 = 0 := by omega
                    subst this; exact Nat.le_refl _
          | succ s ihs =>
            by_cases e : T0 = s + 1
            · subst e; exact Nat.le_refl _
            · have := ihs (by omega); have := h s; omega
        have := hmono t ht
        have := h t
        exact ih (t + 1) (by omega)
  exact key (f 0) 0 (Nat.le_refl _)

/-! ### completion stays reachable -/

theorem sumTo_eq_zero {f : Nat → Nat} : ∀ n, sumTo f n = 0 → ∀ i, i < n → f i = 0
  | 0, _, i, hi => absurd hi (Nat.not_lt_zero _)
  | n + 1, h, i, hi => by
    simp only [sumTo] at h
    by_cases e : i = n
    · subst e; omega
    · exact sumTo_eq_zero n (by omega) i (by omega)

theorem mu_eq_zero {p : List Acq} {t : TState} (h : mu p t = 0) : t.phase = .ret := by
  unfold mu at h
  split at h <;> first | omega | assumption

/-- from every reachable configuration in which only the threads `0 … n-1` have been invoked, the machine CAN run on
until all of them have returned, within `2 · Mu` steps (each round: possibly one final write, then a step that
decreases the count) -/
theorem can_complete {ops prog adm kb0} (hord : ∀ op, ((prog op).map (·.lock)).Pairwise (· < ·))
    {R : Nat} (hR : ∀ op, ∀ a ∈ prog op, a.lock < R) (hlive : AdmLive adm) (n : Nat) :
    ∀ (m : Nat) (tr : List Label) (c : Cfg), Exec ops prog adm kb0 tr c →
      (∀ j, n ≤ j → (c.th j).phase = .idle) → Mu ops prog n c ≤ m →
      ∃ tr' c', Exec ops prog adm kb0 (tr ++ tr') c' ∧ (∀ i, i < n → (c'.th i).phase = .ret) ∧
        (∀ j, n ≤ j → (c'.th j).phase = .idle) ∧ tr'.length ≤ 2 * m := by
  intro m
  induction m with
  | zero =>
    intro tr c hex hn hm
    refine ⟨[], c, by simpa using hex, fun i hi => ?_, hn, by simp⟩
    have h0 : sumTo (fun i => mu (prog (ops i)) (c.th i)) n = 0 := by
      have : Mu ops prog n c = 0 := by omega
      exact this
    exact mu_eq_zero (sumTo_eq_zero n h0 i hi)
  | succ m ih =>
    intro tr c hex hn hm
    by_cases hall : ∀ i, i < n → (c.th i).phase = .ret
    · exact ⟨[], c, by simpa using hex, hall, hn, by simp⟩
    · have : ∃ i, i < n ∧ (c.th i).phase ≠ .ret := by
        apply Classical.byContradiction
        intro hno
        apply hall
        intro i hi
        apply Classical.byContradiction
        intro hne
        exact hno ⟨i, hi, hne⟩
      obtain ⟨i, hi, hne⟩ := this
      obtain ⟨j, hj, c1, l, c2, h1, h2, hl, hlt⟩ := no_deadlock hord hR hlive (linv_exec hex) i hne
      have hjn : j < n := by
        rcases hj with rfl | h | h
        · exact hi
        · apply Classical.byContradiction
          intro hge
          rw [hn j (by omega)] at h; cases h
        · apply Classical.byContradiction
          intro hge
          rw [hn j (by omega)] at h; cases h
      subst hl
      -- the optional write, then the progress step
      have key : ∃ tr1, Exec ops prog adm kb0 (tr ++ tr1) c1 ∧ tr1.length ≤ 1 ∧ c1.th = c.th ∧
          Mu ops prog n c1 ≤ Mu ops prog n c := by
        rcases h1 with rfl | ⟨hw, hth⟩
        · exact ⟨[], by simpa using hex, by simp, rfl, Nat.le_refl _⟩
        · exact ⟨[_], Exec.step hex hw, by simp, hth, (step_Mu hw n).1⟩
      obtain ⟨tr1, hex1, hlen1, hth1, hMu1⟩ := key
      have hns : ¬ IsStutter c1 c2 (thr l) := not_stutter_of_lt (p := prog (ops (thr l))) (by rw [hth1]; exact hlt)
      have hMu2 := (step_Mu h2 n).2 hjn hns
      have hother := (step_mu h2).1
      have hn2 : ∀ k, n ≤ k → (c2.th k).phase = .idle := by
        intro k hk
        rw [hother k (by omega), hth1]
        exact hn k hk
      obtain ⟨tr', c', hex', hret, hidle, hlen⟩ := ih (tr ++ tr1 ++ [l]) c2 (Exec.step hex1 h2) hn2 (by omega)
      refine ⟨tr1 ++ [l] ++ tr', c', by simpa [List.append_assoc] using hex', hret, hidle, ?_⟩
      simp only [List.length_append, List.length_cons, List.length_nil]
      omega

/-! ### write footprints extracted from the source text (Generated/KbLocks.lean: `kbWrites`) -/

/-- the components a method may change according to its declared footprint `need` (exact: `footprint_exact`) -/
def needWrites (k : OpKind) : List Nat := ((need k).filter (fun p => p.2 == .write)).map (·.1)

/-- every extracted row of a modelled method (or alias) lists exactly the components `Model.step` may change for it;
rows of methods outside the model are not judged -/
def writesOk (ws : List (String × List Nat)) : Bool :=
  ws.all fun r =>
    match (OpKind.all.map (fun k => (methodName k, k)) ++ aliases).find? (fun p => p.1 == r.1) with
    | some p => r.2 == needWrites p.2
    | none => true

/-- every extracted row agrees with the method's lock row: the components written through a guard are exactly the
locks the method takes in write mode (no write guard that is only read through; nothing written without one) -/
def writesUseGuards (tbl : List Method) (ws : List (String × List Nat)) : Bool :=
  ws.all fun r =>
    match findRow tbl r.1 with
    | some m => !m.composite && r.2 == ((m.acqs.filter (fun a => a.mode == .write)).map (·.lock))
    | none => false

/-! ### witnesses for the non-vacuity examples -/

/-- the configuration after the first five steps of `ex_exec`: `clear` (thread 0) holds rules.write and
rule_index.write and waits for version.write, `version()` (thread 1) holds version.read -/
def exMid : Cfg := ⟨kbA, th2 ⟨.acq, [W0, W1], [W2], [], {}, {}, .unit⟩ ⟨.acq, [R2], [], [], {}, {}, .unit⟩⟩

theorem ex_exec5 : Exec exOps2 exProg rwAdm kbA [.inv 0, .inv 1, .tau 0, .tau 1, .tau 0] exMid := by
  have e0 : Exec exOps2 exProg rwAdm kbA [] ⟨kbA, th2 {} {}⟩ := by
    have : Cfg.init kbA = ⟨kbA, th2 {} {}⟩ := by
      simp only [Cfg.init, Cfg.mk.injEq, true_and]; funext j; simp only [th2]; split <;> (try split) <;> rfl
    rw [← this]; exact Exec.init
  have e1 := ex_step0 (t0' := ⟨.acq, [], [W0, W1, W2], [], {}, {}, .unit⟩) e0 (Step.invoke _ 0 rfl)
  have e2 := ex_step1 (t1' := ⟨.acq, [], [R2], [], {}, {}, .unit⟩) e1 (Step.invoke _ 1 rfl)
  have e3 := ex_step0 (t0' := ⟨.acq, [W0], [W1, W2], [], {}, {}, .unit⟩) e2
    (Step.acquire _ 0 W0 [W1, W2] rfl rfl (compat2_0 (by decide)))
  have e4 := ex_step1 (t1' := ⟨.acq, [R2], [], [], {}, {}, .unit⟩) e3
    (Step.acquire _ 1 R2 [] rfl rfl (compat2_1 (by decide)))
  have e5 := ex_step0 (t0' := ⟨.acq, [W0, W1], [W2], [], {}, {}, .unit⟩) e4
    (Step.acquire _ 0 W1 [W2] rfl rfl (compat2_0 (by decide)))
  exact e5

theorem exProg_ordered (op : Op) : ((exProg op).map (·.lock)).Pairwise (· < ·) := by
  cases op <;> simp [exProg, kindOf, need]

theorem exProg_bound (op : Op) : ∀ a ∈ exProg op, a.lock < 3 := by
  cases op <;> simp [exProg, kindOf, need]

end C15.Lin
