/- GENERATED on every run by props/c15.py (extract_lock_table) from the CURRENT text of
   src/engine/knowledge_base.rs — do not edit. One row per `fn` of `impl KnowledgeBase` (and of
   `impl Clone for KnowledgeBase`): the `self.<field>.read()/write()` acquisitions in textual order, nested
   `self.m()` calls inlined; lock = rank of the field in the declaration order of the struct. -/
import RreModel.C15.Locks
namespace C15.Generated
open C15.Locks

def lockNames : List String := ["rules", "rule_index", "version"]

def kbMethods : List Method := [
  { name := "new", acqs := [], earlyRelease := false, composite := false },
  { name := "name", acqs := [], earlyRelease := false, composite := false },
  { name := "version", acqs := [{ lock := 2, mode := .read, toEnd := false }], earlyRelease := false, composite := false },
  { name := "add_rule", acqs := [{ lock := 0, mode := .write, toEnd := true }, { lock := 1, mode := .write, toEnd := true }, { lock := 2, mode := .write, toEnd := true }], earlyRelease := false, composite := false },
  { name := "add_rules_from_grl", acqs := [], earlyRelease := false, composite := true },
  { name := "remove_rule", acqs := [{ lock := 0, mode := .write, toEnd := true }, { lock := 1, mode := .write, toEnd := true }, { lock := 2, mode := .write, toEnd := true }], earlyRelease := false, composite := false },
  { name := "get_rule", acqs := [{ lock := 0, mode := .read, toEnd := true }, { lock := 1, mode := .read, toEnd := true }], earlyRelease := false, composite := false },
  { name := "get_rules", acqs := [{ lock := 0, mode := .read, toEnd := true }], earlyRelease := false, composite := false },
  { name := "get_rules_by_salience", acqs := [{ lock := 0, mode := .read, toEnd := true }], earlyRelease := false, composite := false },
  { name := "get_rule_by_index", acqs := [{ lock := 0, mode := .read, toEnd := true }], earlyRelease := false, composite := false },
  { name := "get_rule_names", acqs := [{ lock := 1, mode := .read, toEnd := true }], earlyRelease := false, composite := false },
  { name := "rule_count", acqs := [{ lock := 0, mode := .read, toEnd := true }], earlyRelease := false, composite := false },
  { name := "set_rule_enabled", acqs := [{ lock := 0, mode := .write, toEnd := true }, { lock := 1, mode := .read, toEnd := true }, { lock := 2, mode := .write, toEnd := true }], earlyRelease := false, composite := false },
  { name := "clear", acqs := [{ lock := 0, mode := .write, toEnd := true }, { lock := 1, mode := .write, toEnd := true }, { lock := 2, mode := .write, toEnd := true }], earlyRelease := false, composite := false },
  { name := "get_rules_snapshot", acqs := [{ lock := 0, mode := .read, toEnd := true }], earlyRelease := false, composite := false },
  { name := "get_statistics", acqs := [{ lock := 0, mode := .read, toEnd := true }, { lock := 2, mode := .read, toEnd := false }], earlyRelease := false, composite := false },
  { name := "export_to_grl", acqs := [{ lock := 0, mode := .read, toEnd := true }, { lock := 2, mode := .read, toEnd := false }], earlyRelease := false, composite := false },
  { name := "clone", acqs := [{ lock := 0, mode := .read, toEnd := true }], earlyRelease := false, composite := false }
]

/-- per method (rows only for the methods whose body the write-footprint reader understood completely): the ranks
of the components that the method WRITES through a guard (assignment / `+=` through `*guard`, a `&mut self` method of
the protected value such as push / insert / remove / clear / sort_by_key / get_mut, a `&mut` borrow) -/
def kbWrites : List (String × List Nat) := [
  ("new", []),
  ("name", []),
  ("version", []),
  ("add_rule", [0, 1, 2]),
  ("remove_rule", [0, 1, 2]),
  ("get_rule", []),
  ("get_rules", []),
  ("get_rules_by_salience", []),
  ("get_rule_by_index", []),
  ("get_rule_names", []),
  ("rule_count", []),
  ("set_rule_enabled", [0, 2]),
  ("clear", [0, 1, 2]),
  ("get_rules_snapshot", []),
  ("get_statistics", []),
  ("export_to_grl", []),
  ("clone", [])
]

end C15.Generated
