/-
C15 — executable model of `src/engine/knowledge_base.rs` (`KnowledgeBase`).

State = the three structures the code keeps behind its three `RwLock`s:
  `rules : Vec<Rule>`, `rule_index : HashMap<String, usize>`, `version : u64`.
A rule is (name, salience, enabled, tag); `tag` stands for the rest of the rule's content
(the harness stores it in `Rule::description`), so that "the rule most recently added under a
name" is distinguishable from an older rule of the same name and salience.
`HashMap<String, usize>` is an association list with unique keys (`idxInsert` overwrites);
the order of `keys()` is unspecified in Rust, so `get_rule_names` is compared up to permutation.
The stable sorts (`sort_by_key(Reverse(salience))` in `add_rule`, `sort_by` in
`get_rules_by_salience`) are modelled by a stable insertion sort over the *whole* vector
(`sortDesc`), proved sorted + stable + a permutation in Lemmas.lean.
No Mathlib import (the driver links this file).
-/
namespace C15

structure Rule where
  name : Nat
  salience : Int
  enabled : Bool
  tag : Nat
deriving Repr, DecidableEq, Inhabited

/-- `HashMap<String, usize>` -/
abbrev Index := List (Nat × Nat)

/-- `HashMap::get` -/
def idxGet (m : Index) (k : Nat) : Option Nat :=
  match m with
  | [] => none
  | (k', v) :: rest => if k' = k then some v else idxGet rest k

/-- `HashMap::insert` (overwrites an existing key) -/
def idxInsert (m : Index) (k v : Nat) : Index := (k, v) :: m.filter (fun p => !decide (p.1 = k))

/-- `HashMap::keys` (in the model's order; Rust's order is unspecified) -/
def idxKeys (m : Index) : List Nat := m.map (·.1)

/-- insert `x` behind every element whose key is ≥ `key x` (stable, descending) -/
def insertDesc {α : Type} (key : α → Int) (x : α) : List α → List α
  | [] => [x]
  | y :: ys => if key y < key x then x :: y :: ys else y :: insertDesc key x ys

/-- stable sort, descending by `key`: models `sort_by_key(|r| Reverse(r.salience))` and
`sort_by(|a, b| key(b).cmp(key(a)))` of the Rust standard library (both documented stable) -/
def sortDesc {α : Type} (key : α → Int) (l : List α) : List α :=
  l.foldl (fun acc x => insertDesc key x acc) []

/-- `index.clear(); for (pos, rule) in rules.iter().enumerate() { index.insert(name, pos) }` -/
def rebuildFrom (pos : Nat) : List Rule → Index → Index
  | [], m => m
  | r :: rs, m => rebuildFrom (pos + 1) rs (idxInsert m r.name pos)

def rebuild (rules : List Rule) : Index := rebuildFrom 0 rules []

structure KB where
  rules : List Rule := []
  index : Index := []
  version : Nat := 0
deriving Repr, DecidableEq

/-- `KnowledgeBase::new` -/
def KB.init : KB := {}

/-- `KnowledgeBaseStats` without the name; `dist` = `priority_distribution` -/
structure Stats where
  version : Nat
  total : Nat
  enabled : Nat
  disabled : Nat
  dist : List (Int × Nat)
deriving Repr, DecidableEq

/-- `*priority_distribution.entry(s).or_insert(0) += 1` -/
def bump (s : Int) : List (Int × Nat) → List (Int × Nat)
  | [] => [(s, 1)]
  | (k, c) :: rest => if k = s then (k, c + 1) :: rest else (k, c) :: bump s rest

def distOf (rules : List Rule) : List (Int × Nat) :=
  rules.foldl (fun m r => bump r.salience m) []

inductive Op where
  | add (r : Rule)
  | remove (n : Nat)
  | setEnabled (n : Nat) (b : Bool)
  | clear
  | getRule (n : Nat)
  | getRules
  | getRuleNames
  | ruleCount
  | bySalience
  | byIndex (i : Nat)
  | version
  | stats
deriving Repr, DecidableEq

inductive Out where
  | unit
  | added                      -- `Ok(())`
  | errDup                     -- `Err(ParseError "Rule '…' already exists")`
  | bool (b : Bool)
  | rule (r : Option Rule)
  | rules (rs : List Rule)
  | names (ns : List Nat)
  | nat (n : Nat)
  | idxs (is : List Nat)
  | stats (s : Stats)
deriving Repr, DecidableEq

/-- `add_rule` -/
def addRule (kb : KB) (r : Rule) : KB × Out :=
  match idxGet kb.index r.name with
  | some _ => (kb, .errDup)
  | none =>
    -- (the code also does `index.insert(name, len)` here; that entry is discarded by the rebuild)
    let rules := sortDesc (·.salience) (kb.rules ++ [r])
    ({ rules := rules, index := rebuild rules, version := kb.version + 1 }, .added)

/-- `remove_rule` -/
def removeRule (kb : KB) (n : Nat) : KB × Out :=
  match idxGet kb.index n with
  | some p =>
    let rules := kb.rules.eraseIdx p
    ({ rules := rules, index := rebuild rules, version := kb.version + 1 }, .bool true)
  | none => (kb, .bool false)

/-- inner `if let Some(rule) = rules.get_mut(position)` of `set_rule_enabled` -/
def setAt (kb : KB) (p : Nat) (b : Bool) : KB × Out :=
  match kb.rules[p]? with
  | some r => ({ kb with rules := kb.rules.set p { r with enabled := b }, version := kb.version + 1 }, .bool true)
  | none => (kb, .bool false)

/-- `set_rule_enabled` -/
def setEnabled (kb : KB) (n : Nat) (b : Bool) : KB × Out :=
  match idxGet kb.index n with
  | some p => setAt kb p b
  | none => (kb, .bool false)

/-- `clear` -/
def clear (kb : KB) : KB × Out :=
  ({ rules := [], index := [], version := kb.version + 1 }, .unit)

/-- `get_rule` -/
def getRule (kb : KB) (n : Nat) : Option Rule :=
  match idxGet kb.index n with
  | some p => kb.rules[p]?
  | none => none

/-- `get_rules` (= `get_rules_snapshot`) -/
def getRules (kb : KB) : List Rule := kb.rules

/-- `get_rule_names` -/
def getRuleNames (kb : KB) : List Nat := idxKeys kb.index

/-- `rule_count` -/
def ruleCount (kb : KB) : Nat := kb.rules.length

/-- `get_rules_by_salience`: positions `0..len` stably sorted by descending salience -/
def bySalience (kb : KB) : List Nat :=
  (sortDesc (fun (p : Rule × Nat) => p.1.salience) kb.rules.zipIdx).map (·.2)

/-- `get_rule_by_index` -/
def byIndex (kb : KB) (i : Nat) : Option Rule := kb.rules[i]?

/-- `get_statistics` -/
def getStats (kb : KB) : Stats :=
  let en := kb.rules.countP (·.enabled)
  { version := kb.version, total := kb.rules.length, enabled := en,
    disabled := kb.rules.length - en, dist := distOf kb.rules }

/-- one public method call -/
def step (kb : KB) : Op → KB × Out
  | .add r => addRule kb r
  | .remove n => removeRule kb n
  | .setEnabled n b => setEnabled kb n b
  | .clear => clear kb
  | .getRule n => (kb, .rule (getRule kb n))
  | .getRules => (kb, .rules (getRules kb))
  | .getRuleNames => (kb, .names (getRuleNames kb))
  | .ruleCount => (kb, .nat (ruleCount kb))
  | .bySalience => (kb, .idxs (bySalience kb))
  | .byIndex i => (kb, .rule (byIndex kb i))
  | .version => (kb, .nat kb.version)
  | .stats => (kb, .stats (getStats kb))

def run (ops : List Op) : KB := ops.foldl (fun kb op => (step kb op).1) KB.init

/-- `add_rules_from_grl`: `add_rule` on each rule of the text in source order, `?` on the first error.
Returns the calls that were applied and whether a duplicate name stopped the load. -/
def bulkApplied : KB → List Op → List Op × Bool
  | _, [] => ([], false)
  | kb, op :: rest =>
    match (step kb op).2 with
    | .errDup => ([], true)
    | _ => let r := bulkApplied (step kb op).1 rest; (op :: r.1, r.2)

/-- outputs along a history -/
def outs : KB → List Op → List Out
  | _, [] => []
  | kb, op :: ops => (step kb op).2 :: outs (step kb op).1 ops

end C15
