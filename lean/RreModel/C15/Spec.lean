import RreModel.C15.Model
/-
C15 — the property as (a) an abstract specification of the knowledge base and (b) decidable
predicates over *API-level observations*; the same predicates are proved of the model
(Theorems.lean) and evaluated on the implementation's observations (driver, oracle mode).

Abstract specification: an insertion-ordered list of rules with pairwise distinct names, plus a
version counter. Lookups search the list by name; listings are the list stably sorted by
descending salience; a duplicate `add` is rejected without effect; every successful change
increments the version.
-/
namespace C15

structure Spec where
  rules : List Rule := []      -- insertion order, names pairwise distinct
  version : Nat := 0
deriving Repr, DecidableEq

def Spec.init : Spec := {}

def Spec.has (a : Spec) (n : Nat) : Bool := a.rules.any (fun r => r.name == n)

/-- what a listing must return: descending salience, insertion order among equals -/
def Spec.listing (a : Spec) : List Rule := sortDesc (·.salience) a.rules

/-- lookup by name in the abstract state -/
def Spec.lookup (a : Spec) (n : Nat) : Option Rule := a.rules.find? (fun r => r.name == n)

def setEn (n : Nat) (b : Bool) (r : Rule) : Rule := if r.name = n then { r with enabled := b } else r

def Spec.stats (a : Spec) : Stats :=
  let en := a.rules.countP (·.enabled)
  { version := a.version, total := a.rules.length, enabled := en,
    disabled := a.rules.length - en, dist := distOf a.listing }

/-- the specification of every public method -/
def specStep (a : Spec) : Op → Spec × Out
  | .add r =>
    if a.has r.name then (a, .errDup)
    else ({ rules := a.rules ++ [r], version := a.version + 1 }, .added)
  | .remove n =>
    if a.has n then ({ rules := a.rules.filter (fun r => r.name != n), version := a.version + 1 }, .bool true)
    else (a, .bool false)
  | .setEnabled n b =>
    if a.has n then ({ rules := a.rules.map (setEn n b), version := a.version + 1 }, .bool true)
    else (a, .bool false)
  | .clear => ({ rules := [], version := a.version + 1 }, .unit)
  | .getRule n => (a, .rule (a.lookup n))
  | .getRules => (a, .rules a.listing)
  | .getRuleNames => (a, .names (a.rules.map (·.name)))
  | .ruleCount => (a, .nat a.rules.length)
  | .bySalience => (a, .idxs (List.range a.rules.length))
  | .byIndex i => (a, .rule a.listing[i]?)
  | .version => (a, .nat a.version)
  | .stats => (a, .stats a.stats)

def specRun (ops : List Op) : Spec := ops.foldl (fun a op => (specStep a op).1) Spec.init

/-- the specification's outputs along a history -/
def specOuts : Spec → List Op → List Out
  | _, [] => []
  | a, op :: ops => (specStep a op).2 :: specOuts (specStep a op).1 ops

/-- history-level meaning of "the rule most recently added under the name `n`, or nothing if it was
removed": how one call changes it (`cur` = the rule currently stored under `n`, if any) -/
def latestStep (n : Nat) (cur : Option Rule) : Op → Option Rule
  | .add r => if r.name = n then (match cur with | some c => some c | none => some r) else cur
  | .remove m => if m = n then none else cur
  | .setEnabled m b => if m = n then cur.map (fun r => { r with enabled := b }) else cur
  | .clear => none
  | _ => cur

def latest (n : Nat) (ops : List Op) : Option Rule := ops.foldl (latestStep n) none

/-- outputs agree; the order of `get_rule_names` is unspecified (HashMap) so names agree as multisets -/
def Out.agrees : Out → Out → Bool
  | .names xs, .names ys => xs.isPerm ys
  | x, y => x == y

/-- pointwise agreement of two output sequences -/
def outsAgree : List Out → List Out → Prop
  | [], [] => True
  | x :: xs, y :: ys => Out.agrees x y = true ∧ outsAgree xs ys
  | _, _ => False

/-- did this call change the knowledge base (judged by its result) -/
def Out.changed : Op → Out → Bool
  | .add _, .added => true
  | .remove _, .bool true => true
  | .setEnabled _ _, .bool true => true
  | .clear, _ => true
  | _, _ => false

/-! ### observations -/

/-- everything the observers named by the property show at one moment;
`lookups` = `get_rule(n)` for the names `0..K`; `byidx` = tags of `get_rule_by_index(i)` for `i` in
`get_rules_by_salience()` followed by `get_rule_by_index(rule_count())` -/
structure Snap where
  rules : List Rule
  names : List Nat
  count : Nat
  bysal : List Nat
  byidx : List (Option Nat)
  version : Nat
  stats : Stats
  lookups : List (Option Rule)
deriving Repr, DecidableEq

/-- the model's snapshot, composed from the modelled observer methods -/
def observe (K : Nat) (kb : KB) : Snap :=
  { rules := getRules kb, names := getRuleNames kb, count := ruleCount kb, bysal := bySalience kb,
    byidx := (bySalience kb).map (fun i => (byIndex kb i).map (·.tag)) ++ [(byIndex kb (ruleCount kb)).map (·.tag)],
    version := kb.version, stats := getStats kb,
    lookups := (List.range K).map (getRule kb) }

/-- the snapshot the specification prescribes (at observed version `v`) -/
def snapOk (K : Nat) (a : Spec) (v : Nat) (s : Snap) : Bool :=
  s.rules == a.listing
  && s.names.isPerm (a.rules.map (·.name))
  && s.count == a.rules.length
  && s.bysal == List.range a.rules.length
  && s.byidx == a.listing.map (fun r => some r.tag) ++ [none]
  && s.version == v
  && s.stats == { a.stats with version := v }
  && s.lookups == (List.range K).map a.lookup

structure StepObs where
  out : Out
  version : Nat                -- `version()` right after the call
  snap : Option Snap
deriving Repr, DecidableEq

/-- one observed call is correct w.r.t. the specification state `a` and the previously observed
version `v`: result as specified, version strictly larger after a successful change and
unchanged otherwise, snapshot (if taken) as specified -/
def stepOk (K : Nat) (a : Spec) (v : Nat) (op : Op) (o : StepObs) : Bool :=
  Out.agrees o.out (specStep a op).2
  && (if Out.changed op (specStep a op).2 then v < o.version else o.version == v)
  && (match o.snap with
      | some s => snapOk K (specStep a op).1 o.version s
      | none => true)

def runOk (K : Nat) : Spec → Nat → List Op → List StepObs → Bool
  | _, _, [], [] => true
  | a, v, op :: ops, o :: os => stepOk K a v op o && runOk K (specStep a op).1 o.version ops os
  | _, _, _, _ => false

/-- the model's observation sequence (snapshot after every call iff `full`, else only after the last) -/
def trace (K : Nat) (full : Bool) : KB → List Op → List StepObs
  | _, [] => []
  | kb, op :: ops =>
    let kb' := (step kb op).1
    { out := (step kb op).2, version := kb'.version,
      snap := if full || ops.isEmpty then some (observe K kb') else none } :: trace K full kb' ops

/-! ### concurrent histories -/

/-- one completed call of a concurrent history: invocation / response stamps from one global counter -/
structure Event where
  id : Nat
  inv : Nat
  resp : Nat
  op : Op
  out : Out
deriving Repr, DecidableEq

/-- `e` may be linearized first among `pending`: nothing pending responded before `e` was invoked -/
def minimal (e : Event) (pending : List Event) : Bool := pending.all (fun f => !(f.resp < e.inv))

/-- search for a linearization: an order of all events that respects real time and in which the
sequential model, started from `kb`, returns exactly the observed results -/
def linSearch : Nat → List Event → KB → Bool
  | 0, pending, _ => pending.isEmpty
  | fuel + 1, pending, kb =>
    pending.isEmpty ||
    pending.any (fun e =>
      minimal e pending && Out.agrees e.out (step kb e.op).2 &&
      linSearch fuel (pending.erase e) (step kb e.op).1)

def linearizable (h : List Event) : Bool := linSearch h.length h KB.init

/-- the sequential model, started from `kb`, returns the observed results when the events are
executed in the order `l` -/
def Replays : KB → List Event → Prop
  | _, [] => True
  | kb, e :: l => Out.agrees e.out (step kb e.op).2 = true ∧ Replays (step kb e.op).1 l

/-- the order `l` respects real time: no event is placed after one that was invoked only after it had responded -/
def RespectsRealTime (l : List Event) : Prop := l.Pairwise (fun e f => ¬ f.resp < e.inv)

end C15
