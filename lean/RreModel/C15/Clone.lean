import RreModel.C15.Spec
/-
C15 — the remaining public surface of `KnowledgeBase` that shows the stored rules (reach audit):

* `impl Clone for KnowledgeBase` — a NEW knowledge base into which the stored rules are re-added one by one
  with `add_rule`, in stored order (so: same listing, same lookups, version = number of rules);
* `export_to_grl` — a second listing: header (name, version, number of rules) + every stored rule in stored order;
* `get_rules_snapshot` — textual twin of `get_rules`; `name`.

Histories over `XOp` = a public method call, "continue on a clone of the knowledge base (the original is kept)", or
"exchange the two" — the clone and the original must be independent objects. No Mathlib.
-/
namespace C15

/-- `impl Clone for KnowledgeBase`: `new_kb = KnowledgeBase::new(name); for rule in rules { let _ = new_kb.add_rule(rule.clone()); }` -/
def cloneKB (kb : KB) : KB := kb.rules.foldl (fun k r => (addRule k r).1) KB.init

/-- `get_rules_snapshot` -/
def getRulesSnapshot (kb : KB) : List Rule := kb.rules

/-- what `export_to_grl` shows of the state: `// Version: v`, `// Rules: n`, and one `rule …` block per stored rule in
stored order (name, description = tag, salience, `// DISABLED` marker) -/
structure Export where
  version : Nat
  count : Nat
  rules : List Rule
deriving Repr, DecidableEq

/-- `export_to_grl` -/
def exportView (kb : KB) : Export := { version := kb.version, count := kb.rules.length, rules := kb.rules }

/-- specification of the clone: the same rules (their insertion order in the clone is the listing order of the
original), version = number of rules -/
def Spec.clone (a : Spec) : Spec := { rules := a.listing, version := a.rules.length }

/-- specification of the export -/
def Spec.export (a : Spec) : Export := { version := a.version, count := a.rules.length, rules := a.listing }

/-- the twin observers of one state: `get_rules_snapshot` = `get_rules`, and the export shows the listing, the
version and the count -/
def twinsOk (a : Spec) (v : Nat) (snapshot : List Rule) (ex : Export) : Bool :=
  snapshot == a.listing && ex == { a.export with version := v }

inductive XOp where
  | call (op : Op)
  | clone            -- `spare = kb; kb = kb.clone()`: every later call goes to the clone, the original is kept
  | swap             -- exchange `kb` and `spare` (the original and its clone are both alive and used in turn)
deriving Repr, DecidableEq

/-- two knowledge bases: the one the calls go to and a spare one (initially a fresh `KnowledgeBase::new`) -/
structure Two where
  cur : KB := {}
  spare : KB := {}
deriving Repr, DecidableEq

structure STwo where
  cur : Spec := {}
  spare : Spec := {}
deriving Repr, DecidableEq

def xstep (t : Two) : XOp → Two × Out
  | .call op => ({ t with cur := (step t.cur op).1 }, (step t.cur op).2)
  | .clone => ({ cur := cloneKB t.cur, spare := t.cur }, .unit)
  | .swap => ({ cur := t.spare, spare := t.cur }, .unit)

/-- the two objects are independent: a call changes only the one it is made on -/
def xspecStep (a : STwo) : XOp → STwo × Out
  | .call op => ({ a with cur := (specStep a.cur op).1 }, (specStep a.cur op).2)
  | .clone => ({ cur := a.cur.clone, spare := a.cur }, .unit)
  | .swap => ({ cur := a.spare, spare := a.cur }, .unit)

def xrun (t : Two) (ops : List XOp) : Two := ops.foldl (fun t op => (xstep t op).1) t
def xspecRun (a : STwo) (ops : List XOp) : STwo := ops.foldl (fun a op => (xspecStep a op).1) a

def snapOptOk (K : Nat) (a : Spec) (v : Nat) : Option Snap → Bool
  | some s => snapOk K a v s
  | none => true

/-- one observed step of an `XOp` history (`v` = the version observed after the previous step on the current object);
a clone is a new object whose version is its number of rules; after a swap the other object shows the version it had -/
def xstepOk (K : Nat) (a : STwo) (v : Nat) : XOp → StepObs → Bool
  | .call op, o => stepOk K a.cur v op o
  | .clone, o => o.out == .unit && o.version == a.cur.rules.length && snapOptOk K a.cur.clone o.version o.snap
  | .swap, o => o.out == .unit && o.version == a.spare.version && snapOptOk K a.spare o.version o.snap

def xrunOk (K : Nat) : STwo → Nat → List XOp → List StepObs → Bool
  | _, _, [], [] => true
  | a, v, op :: ops, o :: os => xstepOk K a v op o && xrunOk K (xspecStep a op).1 o.version ops os
  | _, _, _, _ => false

def xtrace (K : Nat) (full : Bool) : Two → List XOp → List StepObs
  | _, [] => []
  | t, op :: ops =>
    let t' := (xstep t op).1
    { out := (xstep t op).2, version := t'.cur.version,
      snap := if full || ops.isEmpty then some (observe K t'.cur) else none } :: xtrace K full t' ops

end C15
