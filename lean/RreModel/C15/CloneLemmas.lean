import RreModel.C15.Lemmas
import RreModel.C15.Clone
/-
C15 — the clone of a knowledge base refines the specification's clone; `XOp` histories.
-/
namespace C15

/-- re-adding a list of rules with fresh, pairwise distinct names appends them to the specification state -/
theorem rel_readd (l : List Rule) : ∀ {kb a}, Rel kb a → (names l).Nodup → (∀ n ∈ names l, n ∉ names a.rules) →
    Rel (l.foldl (fun k r => (addRule k r).1) kb) { rules := a.rules ++ l, version := a.version + l.length } := by
  induction l with
  | nil => intro kb a h _ _; simpa using h
  | cons r l ih =>
    intro kb a h hnd hfresh
    have hnd' : r.name ∉ names l ∧ (names l).Nodup := by simpa [names] using hnd
    have hr : a.has r.name = false := by
      cases hh : a.has r.name with
      | false => rfl
      | true => exact absurd ((has_iff a r.name).1 hh) (hfresh r.name (by simp [names]))
    have h1 := (sim_add h r).1
    simp only [specStep, hr] at h1
    have := ih (kb := (addRule kb r).1) (a := { rules := a.rules ++ [r], version := a.version + 1 }) h1 hnd'.2 (by
      intro n hn hin
      simp only [names_append, List.mem_append, List.mem_singleton] at hin
      rcases hin with hin | hin
      · exact hfresh n (by simp only [names, List.map_cons, List.mem_cons]; exact Or.inr hn) hin
      · exact hnd'.1 (hin ▸ hn))
    simpa [List.foldl_cons, List.append_assoc, Nat.add_assoc, Nat.add_comm 1] using this

/-- **the clone refines the specification's clone** -/
theorem rel_clone {kb a} (h : Rel kb a) : Rel (cloneKB kb) a.clone := by
  have := rel_readd kb.rules rel_init h.nodupC (by intro n _; simp [Spec.init, names])
  have hlen : kb.rules.length = a.rules.length := h.perm.length_eq
  simpa [cloneKB, Spec.clone, Spec.init, h.rules, ← hlen] using this

def Rel2 (t : Two) (a : STwo) : Prop := Rel t.cur a.cur ∧ Rel t.spare a.spare

theorem rel2_init : Rel2 {} {} := ⟨rel_init, rel_init⟩

theorem xsim_step {t a} (h : Rel2 t a) (op : XOp) :
    Rel2 (xstep t op).1 (xspecStep a op).1 ∧ Out.agrees (xstep t op).2 (xspecStep a op).2 = true := by
  cases op with
  | call op => exact ⟨⟨(sim_step h.1 op).1, h.2⟩, (sim_step h.1 op).2⟩
  | clone => exact ⟨⟨rel_clone h.1, h.1⟩, rfl⟩
  | swap => exact ⟨⟨h.2, h.1⟩, rfl⟩

theorem rel_xrun (ops : List XOp) : ∀ {t a}, Rel2 t a → Rel2 (xrun t ops) (xspecRun a ops) := by
  induction ops with
  | nil => intro t a h; exact h
  | cons op ops ih => intro t a h; exact ih (xsim_step h op).1

theorem snapOpt_ok {kb a} (h : Rel kb a) (K : Nat) (b : Bool) :
    snapOptOk K a kb.version (if b then some (observe K kb) else none) = true := by
  cases b
  · rfl
  · exact snap_ok h K

theorem xtrace_ok (K : Nat) (full : Bool) (ops : List XOp) {t a} (h : Rel2 t a) :
    xrunOk K a t.cur.version ops (xtrace K full t ops) = true := by
  induction ops generalizing t a with
  | nil => rfl
  | cons op ops ih =>
    have hs := xsim_step h op
    simp only [xtrace, xrunOk, Bool.and_eq_true]
    refine ⟨?_, ih hs.1⟩
    cases op with
    | call op =>
      have h1 := trace_ok K full [op] h.1
      simp only [trace, runOk, Bool.and_true, List.isEmpty_nil, Bool.or_true, if_true] at h1
      simp only [xstepOk, xstep]
      by_cases hf : (full || ops.isEmpty) = true
      · simpa [hf] using h1
      · have hf' : (full || ops.isEmpty) = false := by simpa using hf
        simp only [stepOk, Bool.and_eq_true] at h1 ⊢
        simp only [hf']
        exact ⟨h1.1, rfl⟩
    | clone =>
      have hr := rel_clone h.1
      simp only [xstepOk, xstep, Bool.and_eq_true]
      refine ⟨⟨rfl, ?_⟩, snapOpt_ok hr K _⟩
      simp [hr.version, Spec.clone]
    | swap =>
      simp only [xstepOk, xstep, Bool.and_eq_true]
      refine ⟨⟨rfl, ?_⟩, snapOpt_ok h.2 K _⟩
      simp [h.2.version]

theorem twins_ok {kb a} (h : Rel kb a) : twinsOk a kb.version (getRulesSnapshot kb) (exportView kb) = true := by
  have hlen : a.listing.length = a.rules.length := (sortDesc_perm _ a.rules).length_eq
  simp [twinsOk, getRulesSnapshot, exportView, Spec.export, h.rules, hlen]

end C15
