import RreModel.C15.Lin
import RreModel.C15.Lemmas
/-
C15 (schedules, with data) — proofs about the machine of Lin.lean: footprints of the sequential
model, the simulation invariant, and the bookkeeping on traces.
-/
namespace C15.Lin
open C15 C15.Locks

/-! ### components -/

theorem agreeOn_refl (k : Nat) (a : KB) : agreeOn k a a := by
  rcases k with _ | _ | _ | k <;> simp [agreeOn]

theorem agreeOn_symm {k : Nat} {a b : KB} (h : agreeOn k a b) : agreeOn k b a := by
  rcases k with _ | _ | _ | k <;> simp_all [agreeOn]

theorem agreeOn_trans {k : Nat} {a b c : KB} (h1 : agreeOn k a b) (h2 : agreeOn k b c) : agreeOn k a c := by
  rcases k with _ | _ | _ | k <;> simp_all [agreeOn]

theorem agreeOn_put_same (k : Nat) (s d : KB) : agreeOn k (put k s d) s := by
  rcases k with _ | _ | _ | k <;> simp [agreeOn, put]

theorem agreeOn_put_ne {k k' : Nat} (hne : k' ≠ k) (s d : KB) : agreeOn k' (put k s d) d := by
  rcases k with _ | _ | _ | k <;> rcases k' with _ | _ | _ | k' <;> simp_all [agreeOn, put]

theorem kb_ext {a b : KB} (h0 : agreeOn 0 a b) (h1 : agreeOn 1 a b) (h2 : agreeOn 2 a b) : a = b := by
  cases a; cases b; simp_all [agreeOn]

theorem kb_ext' {a b : KB} (h : ∀ k, agreeOn k a b) : a = b := kb_ext (h 0) (h 1) (h 2)

/-! ### footprints -/

theorem holds_of_wholds {held : List Acq} {k : Nat} (h : WHolds held k) : Holds held k := by
  obtain ⟨g, hg, hk, _⟩ := h; exact ⟨g, hg, hk⟩

theorem covers_spec {held : List Acq} {nd : List (Nat × Mode)} (h : covers held nd = true) :
    ∀ p ∈ nd, Holds held p.1 ∧ (p.2 = .write → WHolds held p.1) := by
  intro p hp
  simp only [covers, List.all_eq_true, List.any_eq_true, Bool.and_eq_true, Bool.or_eq_true, beq_iff_eq] at h
  obtain ⟨g, hg, hl, hm⟩ := h p hp
  refine ⟨⟨g, hg, hl⟩, fun hw => ⟨g, hg, hl, ?_⟩⟩
  rcases hm with hm | hm
  · rw [hw] at hm; cases hm
  · exact hm

/-- observers leave the state alone -/
def isObserver : OpKind → Bool
  | .add | .remove | .setEnabled | .clear => false
  | _ => true

theorem step_observer (kb : KB) (op : Op) (h : isObserver (kindOf op) = true) : (step kb op).1 = kb := by
  cases op <;> simp_all [step, kindOf, isObserver]

/-- `set_rule_enabled` never changes the index -/
theorem setEnabled_index (kb : KB) (n : Nat) (b : Bool) : (setEnabled kb n b).1.index = kb.index := by
  simp only [setEnabled]
  cases idxGet kb.index n with
  | none => rfl
  | some p => simp only [setAt]; cases kb.rules[p]? <;> rfl

/-- **The declared footprint is sufficient**: any set of guards that covers `need` of the method is a
well-formed lock program for it against `Model.step`. -/
theorem need_sound (held : List Acq) (op : Op) (h : covers held (need (kindOf op)) = true) :
    FootprintOk held op := by
  have hc := covers_spec h
  by_cases hobs : isObserver (kindOf op) = true
  · -- observers: the state is unchanged, the result is a function of the components read
    refine ⟨fun a b hab => ⟨?_, fun k hk => ?_⟩, fun a k _ => ?_⟩
    · cases op <;> simp only [kindOf, isObserver, need] at hc hobs <;> try (cases hobs)
      all_goals simp only [step, getRule, getRules, getRuleNames, ruleCount, bySalience, byIndex, getStats]
      · have h0 := hab 0 (hc (0, .read) (by simp)).1
        have h1 := hab 1 (hc (1, .read) (by simp)).1
        simp only [agreeOn] at h0 h1; rw [h0, h1]
      · have h0 := hab 0 (hc (0, .read) (by simp)).1
        simp only [agreeOn] at h0; rw [h0]
      · have h1 := hab 1 (hc (1, .read) (by simp)).1
        simp only [agreeOn] at h1; rw [h1]
      · have h0 := hab 0 (hc (0, .read) (by simp)).1
        simp only [agreeOn] at h0; rw [h0]
      · have h0 := hab 0 (hc (0, .read) (by simp)).1
        simp only [agreeOn] at h0; rw [h0]
      · have h0 := hab 0 (hc (0, .read) (by simp)).1
        simp only [agreeOn] at h0; rw [h0]
      · have h2 := hab 2 (hc (2, .read) (by simp)).1
        simp only [agreeOn] at h2; rw [h2]
      · have h0 := hab 0 (hc (0, .read) (by simp)).1
        have h2 := hab 2 (hc (2, .read) (by simp)).1
        simp only [agreeOn] at h0 h2; rw [h0, h2]
    · rw [step_observer a op hobs, step_observer b op hobs]; exact hab k (holds_of_wholds hk)
    · rw [step_observer a op hobs]; exact agreeOn_refl k a
  · -- mutators: all three components are held, and those not held in write mode are not changed
    have hall : Holds held 0 ∧ Holds held 1 ∧ Holds held 2 ∧ WHolds held 0 ∧ WHolds held 2 ∧
        (kindOf op ≠ .setEnabled → WHolds held 1) := by
      cases op <;> simp only [kindOf, isObserver, need] at hc hobs <;> try (exact absurd trivial hobs)
      all_goals
        refine ⟨(hc (0, .write) (by simp)).1, ?_, (hc (2, .write) (by simp)).1,
          (hc (0, .write) (by simp)).2 rfl, (hc (2, .write) (by simp)).2 rfl, ?_⟩
      · exact (hc (1, .write) (by simp)).1
      · intro _; exact (hc (1, .write) (by simp)).2 rfl
      · exact (hc (1, .write) (by simp)).1
      · intro _; exact (hc (1, .write) (by simp)).2 rfl
      · exact (hc (1, .read) (by simp)).1
      · intro hne; exact absurd rfl hne
      · exact (hc (1, .write) (by simp)).1
      · intro _; exact (hc (1, .write) (by simp)).2 rfl
    obtain ⟨r0, r1, r2, w0, w2, w1⟩ := hall
    refine ⟨fun a b hab => ?_, fun a k hk => ?_⟩
    · have : a = b := kb_ext (hab 0 r0) (hab 1 r1) (hab 2 r2)
      subst this
      exact ⟨rfl, fun k _ => agreeOn_refl k _⟩
    · rcases k with _ | _ | _ | k
      · exact absurd w0 hk
      · by_cases hse : kindOf op = .setEnabled
        · cases op <;> simp only [kindOf] at hse <;> try (cases hse)
          simp only [agreeOn, step]; exact setEnabled_index _ _ _
        · exact absurd (w1 hse) hk
      · exact absurd w2 hk
      · simp [agreeOn]

/-! #### the declared footprint is also necessary -/

/-- a state and, per method, a call on which every declared component matters -/
def wA : KB := ⟨[⟨7, 0, true, 0⟩], [(7, 0)], 3⟩
def wJunk : KB := ⟨[], [], 9⟩
def opOf : OpKind → Op
  | .add => .add ⟨8, 5, true, 1⟩
  | .remove => .remove 7
  | .setEnabled => .setEnabled 7 false
  | .clear => .clear
  | .getRule => .getRule 7
  | .getRules => .getRules
  | .getRuleNames => .getRuleNames
  | .ruleCount => .ruleCount
  | .bySalience => .bySalience
  | .byIndex => .byIndex 0
  | .version => .version
  | .stats => .stats

theorem kindOf_opOf (k : OpKind) : kindOf (opOf k) = k := by cases k <;> rfl

/-- on `wA`, the call `opOf k` changes every component declared `.write` and its result changes when a
component declared `.read` is replaced -/
def needWitness (k : OpKind) (p : Nat × Mode) : Bool :=
  match p.2 with
  | .write => !decide (agreeOn p.1 (step wA (opOf k)).1 wA)
  | .read => (step wA (opOf k)).2 != (step (put p.1 wJunk wA) (opOf k)).2

theorem needWitness_all : OpKind.all.all (fun k => (need k).all (needWitness k)) = true := by decide

theorem need_necessary (k : OpKind) (held : List Acq)
    (h : ∀ op, kindOf op = k → FootprintOk held op) : covers held (need k) = true := by
  have fp := h (opOf k) (kindOf_opOf k)
  have hw := List.all_eq_true.1 (List.all_eq_true.1 needWitness_all k (by cases k <;> simp [OpKind.all]))
  simp only [covers, List.all_eq_true]
  intro p hp
  have hwp := hw p hp
  apply Classical.byContradiction
  intro hnot
  simp only [List.any_eq_true, Bool.and_eq_true, Bool.or_eq_true, beq_iff_eq, not_exists, not_and, not_or] at hnot
  obtain ⟨c, m⟩ := p
  cases m with
  | write =>
    simp only [needWitness, Bool.not_eq_true', decide_eq_false_iff_not] at hwp
    apply hwp
    apply fp.frame wA c
    rintro ⟨g, hg, hgc, hgm⟩
    exact (hnot g hg hgc).2 hgm
  | read =>
    simp only [needWitness, bne_iff_ne, ne_eq] at hwp
    apply hwp
    refine (fp.dep wA (put c wJunk wA) ?_).1
    intro k' ⟨g, hg, hgk⟩
    have hne : k' ≠ c := by
      intro e; subst e
      exact (hnot g hg hgk).1 rfl
    exact agreeOn_symm (agreeOn_put_ne hne _ _)

/-! ### the data invariant (simulation relation with the sequential model) -/

@[simp] theorem upd_same (th : Nat → TState) (i : Nat) (t : TState) : upd th i t i = t := by simp [upd]
theorem upd_ne (th : Nat → TState) {i j : Nat} (t : TState) (h : j ≠ i) : upd th i t j = th j := by simp [upd, h]
theorem held_upd (th : Nat → TState) (i : Nat) (t : TState) (h : t.held = (th i).held) (y : Nat) :
    (upd th i t y).held = (th y).held := by
  by_cases hy : y = i
  · subst hy; simp [h]
  · rw [upd_ne _ _ hy]

/-- `α` = the state of the sequential model after the calls linearized so far.
* `abs_w` / `abs_s`: component `k` of `α` is what the (unique) call that has run its body and still holds
  `k` in write mode computed for it — whatever the shared memory contains at the moment — and is the
  shared component itself if there is no such call;
* `views`: what a call that has not yet run its body has copied is still what the shared memory contains;
* `excl`: guards of distinct threads on one lock are both read guards. -/
structure DInv (ops : Nat → Op) (prog : Op → List Acq) (α : KB) (c : Cfg) : Prop where
  abs_w : ∀ k i, (c.th i).phase = .done → WHolds (c.th i).held k → agreeOn k α (c.th i).new
  abs_s : ∀ k, (∀ i, (c.th i).phase = .done → ¬ WHolds (c.th i).held k) → agreeOn k α c.shared
  views : ∀ i, (c.th i).phase = .acq → ∀ k ∈ (c.th i).seen,
    Holds (c.th i).held k ∧ agreeOn k (c.th i).view c.shared
  excl : ∀ i j, i ≠ j → ∀ h ∈ (c.th i).held, ∀ g ∈ (c.th j).held, h.lock = g.lock →
    h.mode = .read ∧ g.mode = .read
  progI : ∀ i, (c.th i).phase = .acq → (c.th i).held ++ (c.th i).todo = prog (ops i)

theorem dinv_init (ops : Nat → Op) (prog : Op → List Acq) (kb0 : KB) : DInv ops prog kb0 (Cfg.init kb0) := by
  refine ⟨?_, ?_, ?_, ?_, ?_⟩
  · intro k i h; simp [Cfg.init] at h
  · intro k _; exact agreeOn_refl k kb0
  · intro i h; simp [Cfg.init] at h
  · intro i j _ h hh; simp [Cfg.init] at hh
  · intro i h; simp [Cfg.init] at h

/-- a write holder excludes every other holder -/
theorem excl_write {ops prog α c} (hi : DInv ops prog α c) {i j : Nat} {k : Nat}
    (hw : WHolds (c.th i).held k) (hh : Holds (c.th j).held k) : i = j := by
  apply Classical.byContradiction
  intro hne
  obtain ⟨h, hh1, hk, hm⟩ := hw
  obtain ⟨g, hg1, hgk⟩ := hh
  have := (hi.excl i j hne h hh1 g hg1 (hk.trans hgk.symm)).1
  rw [hm] at this; cases this

/-- every step that is not a body keeps the invariant for the same sequential state -/
theorem dinv_step_other {ops prog adm α c l c'} (hadm : AdmSafe adm)
    (hs : Step ops prog adm c l c') (hi : DInv ops prog α c) (hl : ∀ i, l ≠ .lin i) :
    DInv ops prog α c' := by
  cases hs with
  | invoke i hph =>
    refine ⟨?_, ?_, ?_, ?_, ?_⟩ <;> (try dsimp only)
    · intro k j hd hw
      by_cases hj : j = i
      · subst hj; simp at hd
      · rw [upd_ne _ _ hj] at hd hw ⊢; exact hi.abs_w k j hd hw
    · intro k hno
      apply hi.abs_s k
      intro j hd hw
      by_cases hj : j = i
      · subst hj; rw [hph] at hd; cases hd
      · exact hno j (by rw [upd_ne _ _ hj]; exact hd) (by rw [upd_ne _ _ hj]; exact hw)
    · intro j hacq k hk
      by_cases hj : j = i
      · subst hj; simp at hk
      · rw [upd_ne _ _ hj] at hacq hk ⊢; exact hi.views j hacq k hk
    · intro j j' hne h hh g hg hlk
      by_cases hj : j = i
      · subst hj; simp at hh
      · by_cases hj' : j' = i
        · subst hj'; simp at hg
        · rw [upd_ne _ _ hj] at hh; rw [upd_ne _ _ hj'] at hg
          exact hi.excl j j' hne h hh g hg hlk
    · intro j hacq
      by_cases hj : j = i
      · subst hj; simp
      · rw [upd_ne _ _ hj] at hacq ⊢; exact hi.progI j hacq
  | acquire i a rest hph htodo hok =>
    have hcompat := hadm _ _ _ hok
    refine ⟨?_, ?_, ?_, ?_, ?_⟩ <;> (try dsimp only)
    · intro k j hd hw
      by_cases hj : j = i
      · subst hj; simp [hph] at hd
      · rw [upd_ne _ _ hj] at hd hw ⊢; exact hi.abs_w k j hd hw
    · intro k hno
      apply hi.abs_s k
      intro j hd hw
      by_cases hj : j = i
      · subst hj; rw [hph] at hd; cases hd
      · exact hno j (by rw [upd_ne _ _ hj]; exact hd) (by rw [upd_ne _ _ hj]; exact hw)
    · intro j hacq k hk
      by_cases hj : j = i
      · subst hj
        simp only [upd_same] at hk ⊢
        obtain ⟨⟨h, hh, hhk⟩, hag⟩ := hi.views j hph k hk
        exact ⟨⟨h, List.mem_append_left _ hh, hhk⟩, hag⟩
      · rw [upd_ne _ _ hj] at hacq hk ⊢; exact hi.views j hacq k hk
    · intro j j' hne h hh g hg hlk
      by_cases hj : j = i
      · subst hj
        have hj' : j' ≠ j := fun e => hne e.symm
        rw [upd_ne _ _ hj'] at hg
        simp only [upd_same, List.mem_append, List.mem_singleton] at hh
        rcases hh with hh | rfl
        · exact hi.excl j j' hne h hh g hg hlk
        · have := hcompat j' hj' g hg hlk.symm
          exact ⟨this.2, this.1⟩
      · rw [upd_ne _ _ hj] at hh
        by_cases hj' : j' = i
        · subst hj'
          simp only [upd_same, List.mem_append, List.mem_singleton] at hg
          rcases hg with hg | rfl
          · exact hi.excl j j' hne h hh g hg hlk
          · exact hcompat j hj h hh hlk
        · rw [upd_ne _ _ hj'] at hg
          exact hi.excl j j' hne h hh g hg hlk
    · intro j hacq
      by_cases hj : j = i
      · subst hj
        have := hi.progI j hph
        rw [htodo] at this
        simpa [List.append_assoc] using this
      · rw [upd_ne _ _ hj] at hacq ⊢; exact hi.progI j hacq
  | read i k hph hholds =>
    refine ⟨?_, ?_, ?_, ?_, ?_⟩ <;> (try dsimp only)
    · intro k' j hd hw
      by_cases hj : j = i
      · subst hj; simp [hph] at hd
      · rw [upd_ne _ _ hj] at hd hw ⊢; exact hi.abs_w k' j hd hw
    · intro k' hno
      apply hi.abs_s k'
      intro j hd hw
      by_cases hj : j = i
      · subst hj; rw [hph] at hd; cases hd
      · exact hno j (by rw [upd_ne _ _ hj]; exact hd) (by rw [upd_ne _ _ hj]; exact hw)
    · intro j hacq k' hk'
      by_cases hj : j = i
      · subst hj
        simp only [upd_same, List.mem_cons] at hk' ⊢
        by_cases hkk : k' = k
        · subst hkk; exact ⟨hholds, agreeOn_put_same _ _ _⟩
        · rcases hk' with hk' | hk'
          · exact absurd hk' hkk
          · obtain ⟨hh, hag⟩ := hi.views j hph k' hk'
            exact ⟨hh, agreeOn_trans (agreeOn_put_ne hkk _ _) hag⟩
      · rw [upd_ne _ _ hj] at hacq hk' ⊢; exact hi.views j hacq k' hk'
    · intro j j' hne h hh g hg hlk
      rw [held_upd _ _ _ (by rfl)] at hh hg
      exact hi.excl j j' hne h hh g hg hlk
    · intro j hacq
      by_cases hj : j = i
      · subst hj; simpa using hi.progI j hph
      · rw [upd_ne _ _ hj] at hacq ⊢; exact hi.progI j hacq
  | body i hph htodo hseen => exact absurd rfl (hl i)
  | write i k v hph hw =>
    refine ⟨hi.abs_w, ?_, ?_, hi.excl, hi.progI⟩ <;> (try dsimp only)
    · intro k' hno
      by_cases hkk : k' = k
      · subst hkk; exact absurd hw (hno i hph)
      · exact agreeOn_trans (hi.abs_s k' hno) (agreeOn_symm (agreeOn_put_ne hkk _ _))
    · intro j hacq k' hk'
      obtain ⟨hh, hag⟩ := hi.views j hacq k' hk'
      refine ⟨hh, ?_⟩
      by_cases hkk : k' = k
      · subst hkk
        have : i = j := excl_write hi hw hh
        subst this; rw [hph] at hacq; cases hacq
      · exact agreeOn_trans hag (agreeOn_symm (agreeOn_put_ne hkk _ _))
  | release i h hph hmem hfin =>
    have hsub : ∀ x, x ∈ (c.th i).held.erase h → x ∈ (c.th i).held := fun x hx => List.mem_of_mem_erase hx
    refine ⟨?_, ?_, ?_, ?_, ?_⟩ <;> (try dsimp only)
    · intro k j hd hw
      by_cases hj : j = i
      · subst hj
        simp only [upd_same] at hw ⊢
        obtain ⟨g, hg, hgk, hgm⟩ := hw
        exact hi.abs_w k j hph ⟨g, hsub g hg, hgk, hgm⟩
      · rw [upd_ne _ _ hj] at hd hw ⊢; exact hi.abs_w k j hd hw
    · intro k hno
      by_cases hwi : WHolds (c.th i).held k
      · obtain ⟨g, hg, hgk, hgm⟩ := hwi
        have hnoi := hno i (by simp [hph])
        simp only [upd_same] at hnoi
        by_cases hgh : g = h
        · subst hgh
          have h1 := hi.abs_w k i hph ⟨g, hg, hgk, hgm⟩
          have h2 := hfin hgm
          rw [hgk] at h2
          exact agreeOn_trans h1 (agreeOn_symm h2)
        · exact absurd ⟨g, (List.mem_erase_of_ne hgh).2 hg, hgk, hgm⟩ hnoi
      · apply hi.abs_s k
        intro j hd hw
        by_cases hj : j = i
        · subst hj; exact hwi hw
        · exact hno j (by rw [upd_ne _ _ hj]; exact hd) (by rw [upd_ne _ _ hj]; exact hw)
    · intro j hacq k hk
      by_cases hj : j = i
      · subst hj; simp [hph] at hacq
      · rw [upd_ne _ _ hj] at hacq hk ⊢; exact hi.views j hacq k hk
    · intro j j' hne x hx g hg hlk
      have e : ∀ y z, z ∈ ((upd c.th i { c.th i with held := (c.th i).held.erase h }) y).held → z ∈ (c.th y).held := by
        intro y z hz; by_cases hy : y = i
        · subst hy; simp only [upd_same] at hz; exact hsub z hz
        · rw [upd_ne _ _ hy] at hz; exact hz
      exact hi.excl j j' hne x (e _ _ hx) g (e _ _ hg) hlk
    · intro j hacq
      by_cases hj : j = i
      · subst hj; simp [hph] at hacq
      · rw [upd_ne _ _ hj] at hacq ⊢; exact hi.progI j hacq
  | ret i hph hheld =>
    refine ⟨?_, ?_, ?_, ?_, ?_⟩ <;> (try dsimp only)
    · intro k j hd hw
      by_cases hj : j = i
      · subst hj; simp at hd
      · rw [upd_ne _ _ hj] at hd hw ⊢; exact hi.abs_w k j hd hw
    · intro k hno
      apply hi.abs_s k
      intro j hd hw
      by_cases hj : j = i
      · subst hj; rw [hheld] at hw; obtain ⟨g, hg, _⟩ := hw; cases hg
      · exact hno j (by rw [upd_ne _ _ hj]; exact hd) (by rw [upd_ne _ _ hj]; exact hw)
    · intro j hacq k hk
      by_cases hj : j = i
      · subst hj; simp at hacq
      · rw [upd_ne _ _ hj] at hacq hk ⊢; exact hi.views j hacq k hk
    · intro j j' hne x hx g hg hlk
      rw [held_upd _ _ _ (by rfl)] at hx hg
      exact hi.excl j j' hne x hx g hg hlk
    · intro j hacq
      by_cases hj : j = i
      · subst hj; simp at hacq
      · rw [upd_ne _ _ hj] at hacq ⊢; exact hi.progI j hacq

/-- **the body step is the sequential step**: it moves the sequential state by `Model.step` of the
call and fixes exactly the sequential result -/
theorem dinv_step_body {ops prog adm α c c'} {i : Nat}
    (hfp : ∀ op, FootprintOk (prog op) op)
    (hs : Step ops prog adm c (.lin i) c') (hi : DInv ops prog α c) :
    DInv ops prog (step α (ops i)).1 c' ∧ (c'.th i).out = (step α (ops i)).2 ∧
      (c.th i).phase = .acq ∧ (c'.th i).phase = .done ∧
      (∀ j, j ≠ i → c'.th j = c.th j) := by
  cases hs with
  | body _ hph htodo hseen =>
    have hheld : (c.th i).held = prog (ops i) := by
      have := hi.progI i hph; rw [htodo, List.append_nil] at this; exact this
    have fp : FootprintOk (c.th i).held (ops i) := by rw [hheld]; exact hfp _
    -- what the call has copied is the sequential state, on everything it holds
    have hαv : ∀ k, Holds (c.th i).held k → agreeOn k α (c.th i).view := by
      intro k hk
      obtain ⟨h, hh, hhk⟩ := hk
      have hs := hseen h hh
      rw [hhk] at hs
      have hv := (hi.views i hph k hs).2
      have hsh : agreeOn k α c.shared := by
        apply hi.abs_s k
        intro j hd hw
        have : j = i := excl_write hi hw ⟨h, hh, hhk⟩
        subst this; rw [hph] at hd; cases hd
      exact agreeOn_trans hsh (agreeOn_symm hv)
    obtain ⟨hout, hnew⟩ := fp.dep α (c.th i).view hαv
    refine ⟨⟨?_, ?_, ?_, ?_, ?_⟩, ?_, hph, by simp, fun j hj => upd_ne _ _ hj⟩ <;> (try dsimp only)
    · intro k j hd hw
      by_cases hj : j = i
      · subst hj; simp only [upd_same] at hw ⊢; exact hnew k hw
      · rw [upd_ne _ _ hj] at hd hw ⊢
        have hnw : ¬ WHolds (c.th i).held k := by
          intro hwi
          exact hj (excl_write hi hwi (holds_of_wholds hw)).symm
        exact agreeOn_trans (fp.frame α k hnw) (hi.abs_w k j hd hw)
    · intro k hno
      have hnw : ¬ WHolds (c.th i).held k := by
        have := hno i (by simp)
        simpa using this
      refine agreeOn_trans (fp.frame α k hnw) (hi.abs_s k ?_)
      intro j hd hw
      by_cases hj : j = i
      · subst hj; rw [hph] at hd; cases hd
      · exact hno j (by rw [upd_ne _ _ hj]; exact hd) (by rw [upd_ne _ _ hj]; exact hw)
    · intro j hacq k hk
      by_cases hj : j = i
      · subst hj; simp at hacq
      · rw [upd_ne _ _ hj] at hacq hk ⊢; exact hi.views j hacq k hk
    · intro j j' hne x hx g hg hlk
      rw [held_upd _ _ _ (by rfl)] at hx hg
      exact hi.excl j j' hne x hx g hg hlk
    · intro j hacq
      by_cases hj : j = i
      · subst hj; simp at hacq
      · rw [upd_ne _ _ hj] at hacq ⊢; exact hi.progI j hacq
    · simp only [upd_same]; exact hout.symm

/-! ### bookkeeping on traces -/

theorem linOrder_append (a b : List Label) : linOrder (a ++ b) = linOrder a ++ linOrder b := by
  induction a with
  | nil => rfl
  | cons x a ih => cases x <;> simp [linOrder, ih]

theorem runFrom_cons (kb : KB) (op : Op) (l : List Op) : runFrom kb (op :: l) = runFrom (step kb op).1 l := rfl

theorem runFrom_append (kb : KB) (l1 l2 : List Op) : runFrom kb (l1 ++ l2) = runFrom (runFrom kb l1) l2 := by
  simp [runFrom, List.foldl_append]

theorem replay_append (ops : Nat → Op) (kb : KB) (l : List Nat) (i : Nat) :
    replay ops kb (l ++ [i]) = replay ops kb l ++ [(i, (step (runFrom kb (l.map ops)) (ops i)).2)] := by
  induction l generalizing kb with
  | nil => simp [replay, runFrom]
  | cons x l ih => simp [replay, runFrom_cons, ih]

theorem replay_fst (ops : Nat → Op) (kb : KB) (l : List Nat) : (replay ops kb l).map (·.1) = l := by
  induction l generalizing kb with
  | nil => rfl
  | cons x l ih => simp [replay, ih]

theorem replay_functional (ops : Nat → Op) (kb : KB) (l : List Nat) (hn : l.Nodup) {i : Nat} {o o' : Out}
    (h1 : (i, o) ∈ replay ops kb l) (h2 : (i, o') ∈ replay ops kb l) : o = o' := by
  induction l generalizing kb with
  | nil => cases h1
  | cons x l ih =>
    rw [List.nodup_cons] at hn
    simp only [replay, List.mem_cons, Prod.mk.injEq] at h1 h2
    have notin : ∀ {kb' : KB} {o'' : Out}, (x, o'') ∈ replay ops kb' l → False := by
      intro kb' o'' hm
      have := List.mem_map_of_mem (f := (·.1)) hm
      rw [replay_fst] at this
      exact hn.1 this
    rcases h1 with ⟨rfl, rfl⟩ | h1
    · rcases h2 with ⟨_, rfl⟩ | h2
      · rfl
      · exact (notin h2).elim
    · rcases h2 with ⟨rfl, _⟩ | h2
      · exact (notin h1).elim
      · exact ih _ hn.2 h1 h2

theorem snoc_eq_append_cons {α : Type} {tr : List α} {l x : α} {t1 t2 : List α}
    (h : tr ++ [l] = t1 ++ x :: t2) :
    (t2 = [] ∧ x = l ∧ t1 = tr) ∨ ∃ t2', t2 = t2' ++ [l] ∧ tr = t1 ++ x :: t2' := by
  rcases List.eq_nil_or_concat t2 with rfl | ⟨t2', b, rfl⟩
  · left
    obtain ⟨h1, h2⟩ := List.append_inj' h (by simp)
    simp only [List.cons.injEq, and_true] at h2
    exact ⟨rfl, h2.symm, h1.symm⟩
  · right
    have h' : tr ++ [l] = (t1 ++ x :: t2') ++ [b] := by simpa [List.concat_eq_append] using h
    obtain ⟨h1, h2⟩ := List.append_inj' h' rfl
    simp only [List.cons.injEq, and_true] at h2
    subst h2
    exact ⟨t2', by simp [List.concat_eq_append], h1⟩

/-- what the trace records, against the threads' phases; `rt1`/`rt2`: a body runs between the
invocation and the response of its call -/
structure TInv (ops : Nat → Op) (kb0 : KB) (tr : List Label) (c : Cfg) : Prop where
  lin_iff : ∀ i, i ∈ linOrder tr ↔ ((c.th i).phase = .done ∨ (c.th i).phase = .ret)
  nodup : (linOrder tr).Nodup
  inv_iff : ∀ i, Label.inv i ∈ tr ↔ (c.th i).phase ≠ .idle
  ret_iff : ∀ i o, Label.ret i o ∈ tr ↔ ((c.th i).phase = .ret ∧ (c.th i).out = o)
  res : ∀ i, ((c.th i).phase = .done ∨ (c.th i).phase = .ret) →
    (i, (c.th i).out) ∈ replay ops kb0 (linOrder tr)
  rt1 : ∀ t1 t2 i o, tr = t1 ++ Label.ret i o :: t2 → i ∈ linOrder t1
  rt2 : ∀ t1 t2 j, tr = t1 ++ Label.inv j :: t2 → j ∉ linOrder t1

theorem tinv_init (ops : Nat → Op) (kb0 : KB) : TInv ops kb0 [] (Cfg.init kb0) := by
  refine ⟨?_, ?_, ?_, ?_, ?_, ?_, ?_⟩
  · intro i; simp [linOrder, Cfg.init]
  · simp [linOrder]
  · intro i; simp [Cfg.init]
  · intro i o; simp [Cfg.init]
  · intro i h; simp [Cfg.init] at h
  · intro t1 t2 i o h; simp at h
  · intro t1 t2 j h; simp at h

theorem rt1_snoc {tr : List Label} {l : Label}
    (h : ∀ t1 t2 i o, tr = t1 ++ Label.ret i o :: t2 → i ∈ linOrder t1)
    (hl : ∀ i o, l = Label.ret i o → i ∈ linOrder tr) :
    ∀ t1 t2 i o, tr ++ [l] = t1 ++ Label.ret i o :: t2 → i ∈ linOrder t1 := by
  intro t1 t2 i o he
  rcases snoc_eq_append_cons he with ⟨_, hx, ht⟩ | ⟨t2', _, ht⟩
  · subst ht; exact hl i o hx.symm
  · exact h t1 t2' i o ht

theorem rt2_snoc {tr : List Label} {l : Label}
    (h : ∀ t1 t2 j, tr = t1 ++ Label.inv j :: t2 → j ∉ linOrder t1)
    (hl : ∀ j, l = Label.inv j → j ∉ linOrder tr) :
    ∀ t1 t2 j, tr ++ [l] = t1 ++ Label.inv j :: t2 → j ∉ linOrder t1 := by
  intro t1 t2 j he
  rcases snoc_eq_append_cons he with ⟨_, hx, ht⟩ | ⟨t2', _, ht⟩
  · subst ht; exact hl j hx.symm
  · exact h t1 t2' j ht

theorem tinv_tau {ops kb0 tr c c'} (i : Nat) (h : TInv ops kb0 tr c)
    (hp : ∀ j, (c'.th j).phase = (c.th j).phase) (ho : ∀ j, (c'.th j).out = (c.th j).out) :
    TInv ops kb0 (tr ++ [.tau i]) c' := by
  have hlo : linOrder (tr ++ [.tau i]) = linOrder tr := by simp [linOrder_append, linOrder]
  refine ⟨?_, ?_, ?_, ?_, ?_, ?_, ?_⟩
  · intro j; rw [hlo, hp]; exact h.lin_iff j
  · rw [hlo]; exact h.nodup
  · intro j; rw [hp]; simpa using h.inv_iff j
  · intro j o; rw [hp, ho]; simpa using h.ret_iff j o
  · intro j hj; rw [hlo, ho]; rw [hp] at hj; exact h.res j hj
  · exact rt1_snoc h.rt1 (fun _ _ e => by cases e)
  · exact rt2_snoc h.rt2 (fun _ e => by cases e)

theorem tinv_inv {ops kb0 tr c c'} (i : Nat) (h : TInv ops kb0 tr c)
    (hi : (c.th i).phase = .idle) (hi' : (c'.th i).phase = .acq) (hsame : ∀ j, j ≠ i → c'.th j = c.th j) :
    TInv ops kb0 (tr ++ [.inv i]) c' := by
  have hlo : linOrder (tr ++ [.inv i]) = linOrder tr := by simp [linOrder_append, linOrder]
  have hni : i ∉ linOrder tr := by rw [h.lin_iff, hi]; simp
  refine ⟨?_, ?_, ?_, ?_, ?_, ?_, ?_⟩
  · intro j; rw [hlo]
    by_cases hj : j = i
    · subst hj; rw [hi']; simpa using hni
    · rw [hsame j hj]; exact h.lin_iff j
  · rw [hlo]; exact h.nodup
  · intro j
    by_cases hj : j = i
    · subst hj; simp [hi']
    · rw [hsame j hj]; simpa [hj] using h.inv_iff j
  · intro j o
    by_cases hj : j = i
    · subst hj
      have := h.ret_iff j o
      simp [hi', this, hi]
    · rw [hsame j hj]; simpa using h.ret_iff j o
  · intro j hj'
    rw [hlo]
    by_cases hj : j = i
    · subst hj; rw [hi'] at hj'; simp at hj'
    · rw [hsame j hj] at hj' ⊢; exact h.res j hj'
  · exact rt1_snoc h.rt1 (fun _ _ e => by cases e)
  · refine rt2_snoc h.rt2 (fun j e => ?_)
    cases e; exact hni

theorem tinv_lin {ops kb0 tr c c'} (i : Nat) (h : TInv ops kb0 tr c)
    (hi : (c.th i).phase = .acq) (hi' : (c'.th i).phase = .done)
    (hout : (c'.th i).out = (step (runFrom kb0 ((linOrder tr).map ops)) (ops i)).2)
    (hsame : ∀ j, j ≠ i → c'.th j = c.th j) :
    TInv ops kb0 (tr ++ [.lin i]) c' := by
  have hlo : linOrder (tr ++ [.lin i]) = linOrder tr ++ [i] := by simp [linOrder_append, linOrder]
  have hni : i ∉ linOrder tr := by rw [h.lin_iff, hi]; simp
  refine ⟨?_, ?_, ?_, ?_, ?_, ?_, ?_⟩
  · intro j; rw [hlo]
    by_cases hj : j = i
    · subst hj; simp [hi']
    · rw [hsame j hj]; simpa [hj] using h.lin_iff j
  · rw [hlo, List.nodup_append]
    refine ⟨h.nodup, by simp, ?_⟩
    intro a ha b hb
    simp only [List.mem_singleton] at hb
    subst hb
    intro e; subst e; exact hni ha
  · intro j
    by_cases hj : j = i
    · subst hj
      have := h.inv_iff j
      simp [hi', this, hi]
    · rw [hsame j hj]; simpa using h.inv_iff j
  · intro j o
    by_cases hj : j = i
    · subst hj
      have := h.ret_iff j o
      simp [hi', this, hi]
    · rw [hsame j hj]; simpa using h.ret_iff j o
  · intro j hj'
    rw [hlo, replay_append]
    by_cases hj : j = i
    · subst hj; rw [hout]; simp
    · rw [hsame j hj] at hj' ⊢
      exact List.mem_append_left _ (h.res j hj')
  · exact rt1_snoc h.rt1 (fun _ _ e => by cases e)
  · exact rt2_snoc h.rt2 (fun _ e => by cases e)

theorem tinv_ret {ops kb0 tr c c'} (i : Nat) (h : TInv ops kb0 tr c)
    (hi : (c.th i).phase = .done) (hi' : (c'.th i).phase = .ret) (ho : (c'.th i).out = (c.th i).out)
    (hsame : ∀ j, j ≠ i → c'.th j = c.th j) :
    TInv ops kb0 (tr ++ [.ret i (c.th i).out]) c' := by
  have hlo : linOrder (tr ++ [.ret i (c.th i).out]) = linOrder tr := by simp [linOrder_append, linOrder]
  have hin : i ∈ linOrder tr := by rw [h.lin_iff, hi]; simp
  refine ⟨?_, ?_, ?_, ?_, ?_, ?_, ?_⟩
  · intro j; rw [hlo]
    by_cases hj : j = i
    · subst hj; simpa [hi'] using hin
    · rw [hsame j hj]; exact h.lin_iff j
  · rw [hlo]; exact h.nodup
  · intro j
    by_cases hj : j = i
    · subst hj
      have := h.inv_iff j
      simp [hi', this, hi]
    · rw [hsame j hj]; simpa using h.inv_iff j
  · intro j o
    by_cases hj : j = i
    · subst hj
      have := h.ret_iff j o
      simp only [List.mem_append, this, hi, List.mem_singleton, Label.ret.injEq, true_and, hi', ho]
      constructor
      · rintro (⟨h1, _⟩ | h1)
        · cases h1
        · exact h1.symm
      · intro h1; exact Or.inr h1.symm
    · rw [hsame j hj]
      have := h.ret_iff j o
      simp only [List.mem_append, this, List.mem_singleton, Label.ret.injEq]
      constructor
      · rintro (h1 | ⟨h1, _⟩)
        · exact h1
        · exact absurd h1 hj
      · intro h1; exact Or.inl h1
  · intro j hj'
    rw [hlo]
    by_cases hj : j = i
    · subst hj; rw [ho]; exact h.res j (Or.inl hi)
    · rw [hsame j hj] at hj' ⊢; exact h.res j hj'
  · refine rt1_snoc h.rt1 (fun j o e => ?_)
    cases e; exact hin
  · exact rt2_snoc h.rt2 (fun _ e => by cases e)

/-- the whole invariant of an execution -/
structure Inv (ops : Nat → Op) (prog : Op → List Acq) (kb0 : KB) (tr : List Label) (c : Cfg) : Prop where
  d : DInv ops prog (runFrom kb0 ((linOrder tr).map ops)) c
  t : TInv ops kb0 tr c

theorem inv_exec {ops prog adm kb0 tr c} (hadm : AdmSafe adm) (hfp : ∀ op, FootprintOk (prog op) op)
    (hex : Exec ops prog adm kb0 tr c) : Inv ops prog kb0 tr c := by
  induction hex with
  | init => exact ⟨by simpa [linOrder, runFrom] using dinv_init ops prog kb0, tinv_init ops kb0⟩
  | @step tr c c' l _ hs ih =>
    cases l with
    | lin i =>
      obtain ⟨hd, hout, hph, hph', hsame⟩ := dinv_step_body hfp hs ih.d
      refine ⟨?_, tinv_lin i ih.t hph hph' hout hsame⟩
      have : linOrder (tr ++ [.lin i]) = linOrder tr ++ [i] := by simp [linOrder_append, linOrder]
      rw [this, List.map_append, runFrom_append]
      exact hd
    | inv i =>
      have hd := dinv_step_other hadm hs ih.d (fun _ e => by cases e)
      have hlo : linOrder (tr ++ [.inv i]) = linOrder tr := by simp [linOrder_append, linOrder]
      refine ⟨by rw [hlo]; exact hd, ?_⟩
      cases hs with
      | invoke _ hph => exact tinv_inv i ih.t hph (by simp) (fun j hj => upd_ne _ _ hj)
    | tau i =>
      have hd := dinv_step_other hadm hs ih.d (fun _ e => by cases e)
      have hlo : linOrder (tr ++ [.tau i]) = linOrder tr := by simp [linOrder_append, linOrder]
      refine ⟨by rw [hlo]; exact hd, ?_⟩
      have key : ∀ (t' : TState), t'.phase = (c.th i).phase → t'.out = (c.th i).out →
          (∀ j, ((upd c.th i t') j).phase = (c.th j).phase) ∧ (∀ j, ((upd c.th i t') j).out = (c.th j).out) := by
        intro t' h1 h2
        constructor <;> intro j <;> by_cases hj : j = i
        · subst hj; simpa using h1
        · rw [upd_ne _ _ hj]
        · subst hj; simpa using h2
        · rw [upd_ne _ _ hj]
      cases hs with
      | acquire _ a rest hph htodo hok => exact tinv_tau i ih.t (key _ (by rfl) (by rfl)).1 (key _ (by rfl) (by rfl)).2
      | read _ k hph hh => exact tinv_tau i ih.t (key _ (by rfl) (by rfl)).1 (key _ (by rfl) (by rfl)).2
      | write _ k v hph hw => exact tinv_tau i ih.t (fun _ => rfl) (fun _ => rfl)
      | release _ h hph hm hf => exact tinv_tau i ih.t (key _ (by rfl) (by rfl)).1 (key _ (by rfl) (by rfl)).2
    | ret i o =>
      have hd := dinv_step_other hadm hs ih.d (fun _ e => by cases e)
      have hlo : linOrder (tr ++ [.ret i o]) = linOrder tr := by simp [linOrder_append, linOrder]
      refine ⟨by rw [hlo]; exact hd, ?_⟩
      cases hs with
      | ret _ hph hheld => exact tinv_ret i ih.t hph (by simp) (by simp) (fun j hj => upd_ne _ _ hj)

theorem precedes_of_split {L1 L2 L3 : List Nat} {i j : Nat} (hi : i ∈ L1) (hj : j ∈ L3) :
    Precedes (L1 ++ L2 ++ L3) i j := by
  obtain ⟨a, b, rfl⟩ := List.append_of_mem hi
  obtain ⟨d, e, rfl⟩ := List.append_of_mem hj
  exact ⟨a, b ++ L2 ++ d, e, by simp [List.append_assoc]⟩

/-- the order in which the bodies ran is a linearization -/
theorem inv_linearization {ops prog kb0 tr c} (h : Inv ops prog kb0 tr c) :
    IsLinearization ops kb0 tr c (linOrder tr) := by
  have hstate : ∀ k, (∀ i, (c.th i).phase = .done → ¬ WHolds (c.th i).held k) →
      agreeOn k c.shared (runFrom kb0 ((linOrder tr).map ops)) :=
    fun k hk => agreeOn_symm (h.d.abs_s k hk)
  refine ⟨h.t.nodup, ?_, ?_, ?_, ?_, hstate, ?_⟩
  · intro i hi
    rw [h.t.inv_iff]
    rcases (h.t.lin_iff i).1 hi with hp | hp <;> rw [hp] <;> simp
  · intro i o hr
    rw [h.t.lin_iff]; exact Or.inr ((h.t.ret_iff i o).1 hr).1
  · intro t1 t2 i o j htr hj hjo
    obtain ⟨u, w, rfl⟩ := List.append_of_mem hj
    have h1 : i ∈ linOrder t1 := h.t.rt1 t1 _ i o htr
    have h2 : j ∉ linOrder (t1 ++ Label.ret i o :: u) :=
      h.t.rt2 (t1 ++ Label.ret i o :: u) w j (by rw [htr]; simp)
    have e : linOrder tr = linOrder t1 ++ linOrder u ++ linOrder w := by
      rw [htr]; simp [linOrder_append, linOrder]
    have e2 : linOrder (t1 ++ Label.ret i o :: u) = linOrder t1 ++ linOrder u := by
      simp [linOrder_append, linOrder]
    rw [e2] at h2
    rw [e] at hjo ⊢
    have hjw : j ∈ linOrder w := by
      rcases List.mem_append.1 hjo with hj' | hj'
      · exact absurd hj' h2
      · exact hj'
    exact precedes_of_split h1 hjw
  · intro i o hr
    obtain ⟨hp, ho⟩ := (h.t.ret_iff i o).1 hr
    rw [← ho]; exact h.t.res i (Or.inr hp)
  · intro hq
    exact kb_ext' (fun k => hstate k (fun i hd => absurd hd (hq i)))

/-! ### the generated table -/

theorem mem_opKind_all (k : OpKind) : k ∈ OpKind.all := by cases k <;> simp [OpKind.all]

/-- a table that passes the check gives every call a well-formed lock program -/
theorem footprints_of_table (tbl : List Method) (h : tableFootprintsOk tbl = true) (op : Op) :
    FootprintOk (progOfTbl tbl (kindOf op)) op := by
  simp only [tableFootprintsOk, List.all_eq_true] at h
  have hk := h (methodName (kindOf op), kindOf op)
    (List.mem_append_left _ (List.mem_map.2 ⟨kindOf op, mem_opKind_all _, rfl⟩))
  simp only [progOfTbl]
  cases hf : findRow tbl (methodName (kindOf op)) with
  | none => rw [hf] at hk; cases hk
  | some m =>
    rw [hf] at hk
    simp only [rowOk, Bool.and_eq_true] at hk
    exact need_sound m.acqs op hk.2

/-! ### histories in the vocabulary of the runtime oracle -/

theorem retIds_append (a b : List Label) : retIds (a ++ b) = retIds a ++ retIds b := by
  induction a with
  | nil => rfl
  | cons x a ih => cases x <;> simp [retIds, ih]

theorem mem_retIds {tr : List Label} {i : Nat} : i ∈ retIds tr ↔ ∃ o, Label.ret i o ∈ tr := by
  induction tr with
  | nil => simp [retIds]
  | cons x tr ih =>
    cases x with
    | ret j o =>
      simp only [retIds, List.mem_cons, ih, Label.ret.injEq]
      constructor
      · rintro (rfl | ⟨o', h⟩)
        · exact ⟨o, Or.inl ⟨rfl, rfl⟩⟩
        · exact ⟨o', Or.inr h⟩
      · rintro ⟨o', ⟨rfl, _⟩ | h⟩
        · exact Or.inl rfl
        · exact Or.inr ⟨o', h⟩
    | inv j => simp [retIds, ih]
    | lin j => simp [retIds, ih]
    | tau j => simp [retIds, ih]

/-- a call returns at most once -/
theorem retIds_nodup {ops prog adm kb0 tr c} (hadm : AdmSafe adm) (hfp : ∀ op, FootprintOk (prog op) op)
    (hex : Exec ops prog adm kb0 tr c) : (retIds tr).Nodup := by
  induction hex with
  | init => simp [retIds]
  | @step tr c c' l he hs ih =>
    rw [retIds_append]
    cases l with
    | ret i o =>
      simp only [retIds]
      rw [List.nodup_append]
      refine ⟨ih, by simp, ?_⟩
      intro a ha b hb
      simp only [List.mem_singleton] at hb
      subst hb
      intro e; subst e
      obtain ⟨o', ho'⟩ := mem_retIds.1 ha
      have hp := (((inv_exec hadm hfp he).t.ret_iff a o').1 ho').1
      cases hs with
      | ret _ hph _ => rw [hph] at hp; cases hp
    | inv i => simpa [retIds] using ih
    | lin i => simpa [retIds] using ih
    | tau i => simpa [retIds] using ih

theorem mem_historyOf {ops : Nat → Op} {tr : List Label} {e : Event} :
    e ∈ historyOf ops tr ↔ ∃ i o, Label.ret i o ∈ tr ∧ e = eventOf ops tr i o := by
  simp only [historyOf, List.mem_filterMap]
  constructor
  · rintro ⟨l, hl, he⟩
    cases l with
    | ret i o => simp only [eventOfLabel, Option.some.injEq] at he; exact ⟨i, o, hl, he.symm⟩
    | inv i => simp [eventOfLabel] at he
    | lin i => simp [eventOfLabel] at he
    | tau i => simp [eventOfLabel] at he
  · rintro ⟨i, o, hl, rfl⟩
    exact ⟨_, hl, rfl⟩

theorem history_ids (ops : Nat → Op) (full : List Label) (tr : List Label) :
    (tr.filterMap (eventOfLabel ops full)).map (·.id) = retIds tr := by
  induction tr with
  | nil => rfl
  | cons x tr ih => cases x <;> simp [List.filterMap_cons, eventOfLabel, retIds, eventOf, ih]

theorem nodup_of_map_nodup {α β : Type} (f : α → β) : ∀ l : List α, (l.map f).Nodup → l.Nodup
  | [], _ => List.nodup_nil
  | a :: l, h => by
    rw [List.map_cons, List.nodup_cons] at h
    rw [List.nodup_cons]
    exact ⟨fun ha => h.1 (List.mem_map_of_mem ha), nodup_of_map_nodup f l h.2⟩

/-- if the first `p` comes before the first `q`, the list splits at that `p` with no `q` up to and including it -/
theorem findIdx_lt_split {α : Type} (p q : α → Bool) : ∀ tr : List α, tr.findIdx p < tr.findIdx q →
    ∃ t1 a t2, tr = t1 ++ a :: t2 ∧ p a = true ∧ ∀ x ∈ t1 ++ [a], q x = false
  | [], h => by simp at h
  | x :: tr, h => by
    rw [List.findIdx_cons, List.findIdx_cons] at h
    cases hq : q x with
    | true => rw [hq] at h; simp at h
    | false =>
      rw [hq] at h
      cases hp : p x with
      | true => exact ⟨[], x, tr, rfl, hp, by simp [hq]⟩
      | false =>
        rw [hp] at h
        simp only [cond_false] at h
        obtain ⟨t1, a, t2, rfl, hpa, hall⟩ := findIdx_lt_split p q tr (by omega)
        refine ⟨x :: t1, a, t2, rfl, hpa, ?_⟩
        intro y hy
        simp only [List.cons_append, List.mem_cons] at hy
        rcases hy with rfl | hy
        · exact hq
        · exact hall y hy

/-- a duplicate-free list in which `Q j i` forces `j` before `i` is pairwise `¬ Q later earlier` -/
theorem pairwise_of_precedes (Q : Nat → Nat → Prop) : ∀ l : List Nat, l.Nodup →
    (∀ i j, i ∈ l → j ∈ l → Q j i → Precedes l j i) → l.Pairwise (fun i j => ¬ Q j i)
  | [], _, _ => List.Pairwise.nil
  | x :: l, hn, h => by
    rw [List.nodup_cons] at hn
    rw [List.pairwise_cons]
    constructor
    · intro j hj hq
      obtain ⟨l1, l2, l3, e⟩ := h x j (by simp) (by simp [hj]) hq
      cases l1 with
      | nil =>
        simp only [List.nil_append, List.cons.injEq] at e
        exact hn.1 (e.1 ▸ hj)
      | cons y l1 =>
        simp only [List.cons_append, List.cons.injEq] at e
        exact hn.1 (by rw [e.2]; simp)
    · apply pairwise_of_precedes Q l hn.2
      intro i j hi hj hq
      obtain ⟨l1, l2, l3, e⟩ := h i j (by simp [hi]) (by simp [hj]) hq
      cases l1 with
      | nil =>
        simp only [List.nil_append, List.cons.injEq] at e
        exact absurd (e.1 ▸ hj) hn.1
      | cons y l1 =>
        simp only [List.cons_append, List.cons.injEq] at e
        exact ⟨l1, l2, l3, e.2⟩

theorem replays_replay (ops : Nat → Op) (tr : List Label) : ∀ (kb : KB) (order : List Nat),
    Replays kb ((replay ops kb order).map (fun p => eventOf ops tr p.1 p.2))
  | _, [] => trivial
  | _, _ :: order => ⟨agrees_of_eq rfl, replays_replay ops tr _ order⟩

/-- **complete executions, in the vocabulary of the runtime oracle**: the recorded history has a
permutation that respects real time and that the sequential model replays -/
theorem history_linearizable {ops prog adm kb0 tr c} (hadm : AdmSafe adm) (hfp : ∀ op, FootprintOk (prog op) op)
    (hex : Exec ops prog adm kb0 tr c) (hc : Complete tr) :
    ∃ l : List Event, l.Perm (historyOf ops tr) ∧ RespectsRealTime l ∧ Replays kb0 l := by
  have hinv := inv_exec hadm hfp hex
  have hl := inv_linearization hinv
  have hmem : ∀ i, i ∈ linOrder tr ↔ Label.inv i ∈ tr := by
    intro i
    refine ⟨hl.invoked i, fun hi => ?_⟩
    obtain ⟨o, ho⟩ := hc i hi
    exact hl.returned i o ho
  have hrep : ∀ i o, (i, o) ∈ replay ops kb0 (linOrder tr) ↔ Label.ret i o ∈ tr := by
    intro i o
    refine ⟨fun hio => ?_, hl.results i o⟩
    have hi : i ∈ linOrder tr := by
      have := List.mem_map_of_mem (f := (·.1)) hio
      rwa [replay_fst] at this
    obtain ⟨o', ho'⟩ := hc i ((hmem i).1 hi)
    have : o = o' := replay_functional ops kb0 (linOrder tr) hl.nodup hio (hl.results i o' ho')
    rw [this]; exact ho'
  refine ⟨(replay ops kb0 (linOrder tr)).map (fun p => eventOf ops tr p.1 p.2), ?_, ?_, replays_replay ops tr _ _⟩
  · -- same elements, no duplicates on either side
    have hn1 : ((replay ops kb0 (linOrder tr)).map (fun p => eventOf ops tr p.1 p.2)).Nodup := by
      apply nodup_of_map_nodup (·.id)
      rw [List.map_map]
      have : ((fun e : Event => e.id) ∘ fun p : Nat × Out => eventOf ops tr p.1 p.2) = (·.1) := by
        funext p; rfl
      rw [this, replay_fst]; exact hl.nodup
    have hn2 : (historyOf ops tr).Nodup := by
      apply nodup_of_map_nodup (·.id)
      rw [historyOf, history_ids]; exact retIds_nodup hadm hfp hex
    rw [List.perm_ext_iff_of_nodup hn1 hn2]
    intro e
    rw [mem_historyOf, List.mem_map]
    constructor
    · rintro ⟨⟨i, o⟩, hio, rfl⟩; exact ⟨i, o, (hrep i o).1 hio, rfl⟩
    · rintro ⟨i, o, hr, rfl⟩; exact ⟨(i, o), (hrep i o).2 hr, rfl⟩
  · -- real time
    simp only [RespectsRealTime]
    rw [List.pairwise_map]
    have hpw : (linOrder tr).Pairwise
        (fun i j => ¬ (tr.findIdx (isRetOf j) < tr.findIdx (isInvOf i))) := by
      apply pairwise_of_precedes (fun j i => tr.findIdx (isRetOf j) < tr.findIdx (isInvOf i)) _ hl.nodup
      intro i j hi _ hq
      obtain ⟨t1, a, t2, htr, hpa, hall⟩ := findIdx_lt_split _ _ tr hq
      cases a with
      | ret j' o =>
        simp only [isRetOf, beq_iff_eq] at hpa
        subst hpa
        have hinvi : Label.inv i ∈ tr := (hmem i).1 hi
        have hi2 : Label.inv i ∈ t2 := by
          rw [htr] at hinvi
          rcases List.mem_append.1 hinvi with h1 | h1
          · have := hall _ (List.mem_append_left _ h1); simp [isInvOf] at this
          · rcases List.mem_cons.1 h1 with h1 | h1
            · cases h1
            · exact h1
        exact hl.realTime t1 t2 j' o i htr hi2 hi
      | inv j' => simp [isRetOf] at hpa
      | lin j' => simp [isRetOf] at hpa
      | tau j' => simp [isRetOf] at hpa
    have := (List.pairwise_map (f := (·.1)) (R := fun i j => ¬ (tr.findIdx (isRetOf j) < tr.findIdx (isInvOf i)))
      (l := replay ops kb0 (linOrder tr))).1 (by rw [replay_fst]; exact hpw)
    exact this

/-! ### a concrete interleaved execution (non-vacuity of the machine) -/

/-- two threads -/
def th2 (t0 t1 : TState) : Nat → TState := fun j => if j = 0 then t0 else if j = 1 then t1 else {}

theorem upd_th2_0 (t0 t1 t : TState) : upd (th2 t0 t1) 0 t = th2 t t1 := by
  funext j; simp only [upd, th2]; split <;> rfl
theorem upd_th2_1 (t0 t1 t : TState) : upd (th2 t0 t1) 1 t = th2 t0 t := by
  funext j; simp only [upd, th2]
  by_cases h1 : j = 1
  · subst h1; simp
  · simp [h1]

theorem compat2_0 {t0 t1 : TState} {a : Acq}
    (h : ∀ g ∈ t1.held, g.lock = a.lock → g.mode = .read ∧ a.mode = .read) : Compat (th2 t0 t1) 0 a := by
  intro j hj g hg
  simp only [th2, if_neg hj] at hg
  by_cases h1 : j = 1
  · rw [if_pos h1] at hg; exact h g hg
  · rw [if_neg h1] at hg; cases hg
theorem compat2_1 {t0 t1 : TState} {a : Acq}
    (h : ∀ g ∈ t0.held, g.lock = a.lock → g.mode = .read ∧ a.mode = .read) : Compat (th2 t0 t1) 1 a := by
  intro j hj g hg
  simp only [th2] at hg
  by_cases h0 : j = 0
  · rw [if_pos h0] at hg; exact h g hg
  · rw [if_neg h0, if_neg hj] at hg; cases hg

variable {ops : Nat → Op} {prog : Op → List Acq} {kb0 : KB}

theorem ex_step0 {tr sh t0 t1 l sh' t0'} (e : Exec ops prog rwAdm kb0 tr ⟨sh, th2 t0 t1⟩)
    (hs : Step ops prog rwAdm ⟨sh, th2 t0 t1⟩ l ⟨sh', upd (th2 t0 t1) 0 t0'⟩) :
    Exec ops prog rwAdm kb0 (tr ++ [l]) ⟨sh', th2 t0' t1⟩ := by
  have := Exec.step e hs; rwa [upd_th2_0] at this
theorem ex_step1 {tr sh t0 t1 l sh' t1'} (e : Exec ops prog rwAdm kb0 tr ⟨sh, th2 t0 t1⟩)
    (hs : Step ops prog rwAdm ⟨sh, th2 t0 t1⟩ l ⟨sh', upd (th2 t0 t1) 1 t1'⟩) :
    Exec ops prog rwAdm kb0 (tr ++ [l]) ⟨sh', th2 t0 t1'⟩ := by
  have := Exec.step e hs; rwa [upd_th2_1] at this

def exOps2 : Nat → Op := fun i => if i = 0 then .clear else .version
/-- the canonical lock program of a method: its declared footprint, in rank order -/
def exProg (op : Op) : List Acq := (need (kindOf op)).map (fun p => ⟨p.1, p.2, true⟩)

theorem exProg_ok (op : Op) : FootprintOk (exProg op) op := by
  apply need_sound
  cases op <;> simp only [exProg, kindOf] <;> decide

def W0 : Acq := ⟨0, .write, true⟩
def W1 : Acq := ⟨1, .write, true⟩
def W2 : Acq := ⟨2, .write, true⟩
def R2 : Acq := ⟨2, .read, true⟩
def rA : Rule := ⟨7, 0, true, 0⟩
def kbA : KB := ⟨[rA], [(7, 0)], 3⟩
def kbV : KB := ⟨[], [], 3⟩
def kbN : KB := ⟨[], [], 4⟩

def exTrace : List Label :=
  [.inv 0, .inv 1, .tau 0, .tau 1, .tau 0, .tau 1, .lin 1, .tau 0, .tau 1, .tau 0, .tau 0, .tau 0, .lin 0,
   .ret 1 (.nat 3), .tau 0, .tau 0, .tau 0, .tau 0, .tau 0, .tau 0, .tau 0, .ret 0 .unit]

theorem ex_exec : Exec exOps2 exProg rwAdm kbA exTrace ⟨kbN, th2 ⟨.ret, [], [], [2, 1, 0], kbA, kbN, .unit⟩
    ⟨.ret, [], [], [2], kbV, kbV, .nat 3⟩⟩ := by
  have e0 : Exec exOps2 exProg rwAdm kbA [] ⟨kbA, th2 {} {}⟩ := by
    have : Cfg.init kbA = ⟨kbA, th2 {} {}⟩ := by
      simp only [Cfg.init, Cfg.mk.injEq, true_and]; funext j; simp only [th2]; split <;> (try split) <;> rfl
    rw [← this]; exact Exec.init
  -- both calls are invoked; `clear` (thread 0) takes rules.write, `version` (thread 1) takes version.read,
  have e1 := ex_step0 (t0' := ⟨.acq, [], [W0, W1, W2], [], {}, {}, .unit⟩) e0 (Step.invoke _ 0 rfl)
  have e2 := ex_step1 (t1' := ⟨.acq, [], [R2], [], {}, {}, .unit⟩) e1 (Step.invoke _ 1 rfl)
  have e3 := ex_step0 (t0' := ⟨.acq, [W0], [W1, W2], [], {}, {}, .unit⟩) e2
    (Step.acquire _ 0 W0 [W1, W2] rfl rfl (compat2_0 (by decide)))
  have e4 := ex_step1 (t1' := ⟨.acq, [R2], [], [], {}, {}, .unit⟩) e3
    (Step.acquire _ 1 R2 [] rfl rfl (compat2_1 (by decide)))
  have e5 := ex_step0 (t0' := ⟨.acq, [W0, W1], [W2], [], {}, {}, .unit⟩) e4
    (Step.acquire _ 0 W1 [W2] rfl rfl (compat2_0 (by decide)))
  -- `version` reads and runs its body (result 3) while `clear` is in the middle of its acquisitions
  have e6 := ex_step1 (t1' := ⟨.acq, [R2], [], [2], kbV, {}, .unit⟩) e5
    (Step.read _ 1 2 rfl ⟨R2, by decide, rfl⟩)
  have e7 := ex_step1 (t1' := ⟨.done, [R2], [], [2], kbV, kbV, .nat 3⟩) e6
    (Step.body _ 1 rfl rfl (by decide))
  have e8 := ex_step0 (t0' := ⟨.acq, [W0, W1], [W2], [0], ⟨[rA], [], 0⟩, {}, .unit⟩) e7
    (Step.read _ 0 0 rfl ⟨W0, by decide, rfl⟩)
  have e9 := ex_step1 (t1' := ⟨.done, [], [], [2], kbV, kbV, .nat 3⟩) e8
    (Step.release _ 1 R2 rfl (by decide) (fun h => by cases h))
  -- only now can `clear` get version.write
  have e10 := ex_step0 (t0' := ⟨.acq, [W0, W1, W2], [], [0], ⟨[rA], [], 0⟩, {}, .unit⟩) e9
    (Step.acquire _ 0 W2 [] rfl rfl (compat2_0 (by decide)))
  have e11 := ex_step0 (t0' := ⟨.acq, [W0, W1, W2], [], [1, 0], ⟨[rA], [(7, 0)], 0⟩, {}, .unit⟩) e10
    (Step.read _ 0 1 rfl ⟨W1, by decide, rfl⟩)
  have e12 := ex_step0 (t0' := ⟨.acq, [W0, W1, W2], [], [2, 1, 0], kbA, {}, .unit⟩) e11
    (Step.read _ 0 2 rfl ⟨W2, by decide, rfl⟩)
  have e13 := ex_step0 (t0' := ⟨.done, [W0, W1, W2], [], [2, 1, 0], kbA, kbN, .unit⟩) e12
    (Step.body _ 0 rfl rfl (by decide))
  -- `version` returns after the body of `clear` has run: the calls overlap
  have e14 := ex_step1 (t1' := ⟨.ret, [], [], [2], kbV, kbV, .nat 3⟩) e13 (Step.ret _ 1 rfl rfl)
  -- `clear` writes back, with an intermediate junk index, and releases one guard at a time
  have e15 := Exec.step e14 (Step.write _ 0 1 ⟨[], [(9, 9)], 0⟩ rfl ⟨W1, by decide, rfl, rfl⟩)
  have e16 := Exec.step e15 (Step.write _ 0 0 kbN rfl ⟨W0, by decide, rfl, rfl⟩)
  have e17 := Exec.step e16 (Step.write _ 0 2 kbN rfl ⟨W2, by decide, rfl, rfl⟩)
  have e18 := ex_step0 (t0' := ⟨.done, [W1, W2], [], [2, 1, 0], kbA, kbN, .unit⟩) e17
    (Step.release _ 0 W0 rfl (by decide) (fun _ => rfl))
  have e19 := Exec.step e18 (Step.write _ 0 1 kbN rfl ⟨W1, by decide, rfl, rfl⟩)
  have e20 := ex_step0 (t0' := ⟨.done, [W2], [], [2, 1, 0], kbA, kbN, .unit⟩) e19
    (Step.release _ 0 W1 rfl (by decide) (fun _ => rfl))
  have e21 := ex_step0 (t0' := ⟨.done, [], [], [2, 1, 0], kbA, kbN, .unit⟩) e20
    (Step.release _ 0 W2 rfl (by decide) (fun _ => rfl))
  have e22 := ex_step0 (t0' := ⟨.ret, [], [], [2, 1, 0], kbA, kbN, .unit⟩) e21 (Step.ret _ 0 rfl rfl)
  exact e22

/-- in the middle of `ex_exec` (after its 5th step) `clear` cannot get `version.write`: `version` holds a read guard -/
theorem ex_blocked : ¬ rwAdm ⟨kbA, th2 ⟨.acq, [W0, W1], [W2], [], {}, {}, .unit⟩ ⟨.acq, [R2], [], [], {}, {}, .unit⟩⟩ 0 W2 := by
  intro h
  have := (h 1 (by decide) R2 (by simp [th2]) rfl).2
  cases this

theorem ex_complete : Complete exTrace := by
  intro i hi
  have : i = 0 ∨ i = 1 := by simpa [exTrace] using hi
  rcases this with rfl | rfl
  · exact ⟨.unit, by simp [exTrace]⟩
  · exact ⟨.nat 3, by simp [exTrace]⟩

end C15.Lin
