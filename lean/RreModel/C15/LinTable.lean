import RreModel.C15.Lin
import RreModel.C15.Generated.KbLocks
/-
C15 — the only definition of the data-carrying machine that depends on the lock table regenerated from
the source (kept apart so that a change of the table does not rebuild the general proofs).
-/
namespace C15.Lin
open C15 C15.Locks

/-- the lock program of a call: the row of the GENERATED table for its method -/
def progOf (op : Op) : List Acq := progOfTbl C15.Generated.kbMethods (kindOf op)

end C15.Lin
