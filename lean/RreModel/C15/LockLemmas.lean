import RreModel.C15.Locks
/-
C15 (schedules) — proofs about the abstract interleaving semantics of Locks.lean.
-/
namespace C15.Locks

theorem increasing_pairwise : ∀ l : List Nat, increasing l = true → l.Pairwise (· < ·)
  | [] => fun _ => List.Pairwise.nil
  | [a] => fun _ => by simp
  | a :: b :: rest => fun h => by
    simp only [increasing, Bool.and_eq_true, decide_eq_true_eq] at h
    have ih := increasing_pairwise (b :: rest) h.2
    rw [List.pairwise_cons]
    refine ⟨?_, ih⟩
    intro x hx
    rcases List.mem_cons.1 hx with rfl | hx
    · exact h.1
    · have := (List.pairwise_cons.1 ih).1 x hx
      omega

theorem wf_init (progs : List (List Acq)) (h : ∀ p ∈ progs, (p.map (·.lock)).Pairwise (· < ·)) :
    WF (progs.map Thread.start) := by
  intro t ht
  obtain ⟨p, hp, rfl⟩ := List.mem_map.1 ht
  simp [Thread.start, h p hp]

theorem wf_step {pol s s'} (hwf : WF s) (hs : Step pol s s') : WF s' := by
  cases hs with
  | mk pre post t t' hts =>
    intro x hx
    have hx' : x ∈ pre ∨ x = t' ∨ x ∈ post := by
      simpa [List.mem_append, List.mem_cons] using hx
    rcases hx' with hx' | rfl | hx'
    · exact hwf x (by simp [hx'])
    · cases hts with
      | acquire held a rest _ =>
        have := (hwf ⟨held, a :: rest, false⟩ (by simp)).1
        refine ⟨?_, by simp⟩
        simpa [List.append_assoc] using this
      | finish held => simp
    · exact hwf x (by simp [hx'])

theorem wf_reach {pol s s'} (hwf : WF s) (hr : Reach pol s s') : WF s' := by
  induction hr with
  | refl => exact hwf
  | tail _ hs ih => exact wf_step ih hs

/-- among the elements satisfying `P` there is one maximising `f` -/
theorem exists_max {α : Type} (f : α → Nat) (P : α → Prop) :
    ∀ l : List α, (∃ x ∈ l, P x) → ∃ x ∈ l, P x ∧ ∀ y ∈ l, P y → f y ≤ f x
  | [], h => by obtain ⟨x, hx, _⟩ := h; cases hx
  | a :: l, h => by
    by_cases hl : ∃ x ∈ l, P x
    · obtain ⟨m, hm, hPm, hmax⟩ := exists_max f P l hl
      by_cases ha : P a ∧ f m < f a
      · refine ⟨a, by simp, ha.1, ?_⟩
        intro y hy hPy
        rcases List.mem_cons.1 hy with rfl | hy
        · exact Nat.le_refl _
        · have := hmax y hy hPy; omega
      · refine ⟨m, by simp [hm], hPm, ?_⟩
        intro y hy hPy
        rcases List.mem_cons.1 hy with rfl | hy
        · by_cases hPa : P y
          · have : ¬ f m < f y := fun h' => ha ⟨hPa, h'⟩
            omega
          · exact absurd hPy hPa
        · exact hmax y hy hPy
    · obtain ⟨x, hx, hPx⟩ := h
      rcases List.mem_cons.1 hx with rfl | hx
      · refine ⟨x, by simp, hPx, ?_⟩
        intro y hy hPy
        rcases List.mem_cons.1 hy with rfl | hy
        · exact Nat.le_refl _
        · exact absurd ⟨y, hy, hPy⟩ hl
      · exact absurd ⟨x, hx, hPx⟩ hl

/-- rank of the lock a thread is waiting for -/
def nextLock (t : Thread) : Nat :=
  match t.todo with
  | a :: _ => a.lock
  | [] => 0

/-- a well-formed state in which some thread is unfinished always has a move -/
theorem wf_can_step {pol} (hfair : Fair pol) {s : List Thread} (hwf : WF s)
    (hlive : ∃ t ∈ s, t.done = false) : ∃ s', Step pol s s' := by
  by_cases hfin : ∃ t ∈ s, t.done = false ∧ t.todo = []
  · obtain ⟨t, ht, hd, htodo⟩ := hfin
    obtain ⟨pre, post, rfl⟩ := List.append_of_mem ht
    have ht' : t = ⟨t.held, [], false⟩ := by
      cases t; simp_all
    refine ⟨pre ++ ⟨[], [], true⟩ :: post, ?_⟩
    rw [ht']
    exact Step.mk _ _ _ _ (TStep.finish _)
  · have hwait : ∀ u ∈ s, u.done = false → ∃ b rest, u.todo = b :: rest := by
      intro u hu hd
      cases htd : u.todo with
      | nil => exact absurd ⟨u, hu, hd, htd⟩ hfin
      | cons b rest => exact ⟨b, rest, rfl⟩
    obtain ⟨m, hm, hmd, hmax⟩ := exists_max nextLock (fun t => t.done = false) s hlive
    obtain ⟨a, rest, hmtodo⟩ := hwait m hm hmd
    have hfree : ∀ u ∈ s, ∀ h ∈ u.held, h.lock ≠ a.lock := by
      intro u hu h hh
      cases hud : u.done with
      | true =>
        have := ((hwf u hu).2 hud).1
        rw [this] at hh; cases hh
      | false =>
        obtain ⟨b, rest', hutodo⟩ := hwait u hu hud
        have hle : nextLock u ≤ nextLock m := hmax u hu hud
        simp only [nextLock, hutodo, hmtodo] at hle
        have hpw := (hwf u hu).1
        rw [hutodo, List.map_append, List.pairwise_append] at hpw
        have hlt : h.lock < b.lock :=
          hpw.2.2 h.lock (List.mem_map.2 ⟨h, hh, rfl⟩) b.lock (by simp)
        omega
    obtain ⟨pre, post, held, a', rest', hs, _, hpol⟩ :=
      hfair s a.lock hfree ⟨m, hm, hmd, a, rest, hmtodo, rfl⟩
    refine ⟨pre ++ ⟨held ++ [a'], rest', false⟩ :: post, ?_⟩
    rw [hs]
    exact Step.mk _ _ _ _ (TStep.acquire _ _ _ hpol)

theorem wf_not_deadlock {pol} (hfair : Fair pol) {s : List Thread} (hwf : WF s) : ¬ Deadlock pol s :=
  fun ⟨hlive, hstuck⟩ => hstuck (wf_can_step hfair hwf hlive)

/-- plain `RwLock` compatibility is a fair policy: a free lock is compatible with every request -/
theorem rwCompatible_fair : Fair rwCompatible := by
  intro s L hfree ⟨t, ht, hd, a, rest, htodo, hL⟩
  obtain ⟨pre, post, rfl⟩ := List.append_of_mem ht
  refine ⟨pre, post, t.held, a, rest, ?_, hL, ?_⟩
  · cases t; simp_all
  · intro u hu h hh heq
    have : u ∈ pre ++ t :: post := by
      rcases List.mem_append.1 hu with h' | h'
      · simp [h']
      · simp [h']
    exact absurd (heq.trans hL) (hfree u this h hh)

/-! ### mutual exclusion and strictness under `RwLock` compatibility -/

/-- no two distinct threads hold conflicting guards on one lock -/
def Excl (s : List Thread) : Prop :=
  ∀ (i j : Nat) (t u : Thread), i ≠ j → s[i]? = some t → s[j]? = some u →
    ∀ h ∈ t.held, ∀ g ∈ u.held, h.lock = g.lock → h.mode = .read ∧ g.mode = .read

theorem getElem?_mid {α} (pre post : List α) (x : α) : (pre ++ x :: post)[pre.length]? = some x := by
  simp

theorem getElem?_other {α} (pre post : List α) (x x' : α) (i : Nat) (h : i ≠ pre.length) :
    (pre ++ x :: post)[i]? = (pre ++ x' :: post)[i]? := by
  by_cases hlt : i < pre.length
  · rw [List.getElem?_append_left hlt, List.getElem?_append_left hlt]
  · have hge : pre.length ≤ i := by omega
    rw [List.getElem?_append_right hge, List.getElem?_append_right hge]
    have : i - pre.length = (i - pre.length - 1) + 1 := by omega
    rw [this]; simp

theorem mem_others {α} (pre post : List α) (x u : α) (j : Nat) (h : j ≠ pre.length)
    (hu : (pre ++ x :: post)[j]? = some u) : u ∈ pre ++ post := by
  by_cases hlt : j < pre.length
  · rw [List.getElem?_append_left hlt] at hu
    exact List.mem_append_left _ (List.mem_of_getElem? hu)
  · have hge : pre.length ≤ j := by omega
    rw [List.getElem?_append_right hge] at hu
    have : j - pre.length = (j - pre.length - 1) + 1 := by omega
    rw [this] at hu
    simp at hu
    exact List.mem_append_right _ (List.mem_of_getElem? hu)

theorem excl_step {s s'} (he : Excl s) (hs : Step rwCompatible s s') : Excl s' := by
  cases hs with
  | mk pre post x x' hts =>
    -- one-sided statement, used twice
    have key : ∀ (j : Nat) (u : Thread), j ≠ pre.length → (pre ++ x :: post)[j]? = some u →
        ∀ h ∈ x'.held, ∀ g ∈ u.held, h.lock = g.lock → h.mode = .read ∧ g.mode = .read := by
      intro j u hj hu h hh g hg hl
      cases hts with
      | finish held => cases hh
      | acquire held a rest hpol =>
        rcases List.mem_append.1 hh with hh | hh
        · exact he pre.length j _ u (fun e => hj e.symm) (getElem?_mid pre post _) hu h hh g hg hl
        · simp only [List.mem_singleton] at hh
          subst hh
          have := hpol u (mem_others pre post _ u j hj hu) g hg hl.symm
          exact ⟨this.2, this.1⟩
    intro i j t u hij ht hu h hh g hg hl
    by_cases hi : i = pre.length
    · subst hi
      have hj : j ≠ pre.length := fun e => hij e.symm
      rw [getElem?_mid] at ht
      cases ht
      rw [← getElem?_other pre post x x' j hj] at hu
      exact key j u hj hu h hh g hg hl
    · rw [← getElem?_other pre post x x' i hi] at ht
      by_cases hj : j = pre.length
      · subst hj
        rw [getElem?_mid] at hu
        cases hu
        have := key i t hi ht g hg h hh hl.symm
        exact ⟨this.2, this.1⟩
      · rw [← getElem?_other pre post x x' j hj] at hu
        exact he i j t u hij ht hu h hh g hg hl

theorem excl_init (progs : List (List Acq)) : Excl (progs.map Thread.start) := by
  intro i j t u _ ht _ h hh
  have hm := List.mem_of_getElem? ht
  obtain ⟨p, _, rfl⟩ := List.mem_map.1 hm
  cases hh

theorem excl_reach {s s'} (he : Excl s) (hr : Reach rwCompatible s s') : Excl s' := by
  induction hr with
  | refl => exact he
  | tail _ hs ih => exact excl_step ih hs


theorem reach_trans {pol s₁ s₂ s₃} (h1 : Reach pol s₁ s₂) (h2 : Reach pol s₂ s₃) : Reach pol s₁ s₃ := by
  induction h2 with
  | refl => exact h1
  | tail _ hs ih => exact Reach.tail ih hs

/-- one step: a thread stays at its position; it either is finished afterwards or still holds what it held -/
theorem step_persist {pol s s'} (hs : Step pol s s') (i : Nat) (t : Thread) (ht : s[i]? = some t) :
    ∃ t', s'[i]? = some t' ∧ (t.done = true → t'.done = true) ∧
      (t'.done = true ∨ ∀ h ∈ t.held, h ∈ t'.held) := by
  cases hs with
  | mk pre post x x' hts =>
    by_cases hi : i = pre.length
    · subst hi
      rw [getElem?_mid] at ht
      cases ht
      refine ⟨x', getElem?_mid pre post x', ?_, ?_⟩
      · intro hd; cases hts <;> cases hd
      · cases hts with
        | acquire held a rest _ => exact Or.inr (fun h hh => List.mem_append_left _ hh)
        | finish held => exact Or.inl rfl
    · refine ⟨t, ?_, fun h => h, Or.inr (fun h hh => hh)⟩
      rw [← getElem?_other pre post x x' i hi]; exact ht

theorem reach_persist {pol s s'} (hr : Reach pol s s') (i : Nat) (t : Thread) (ht : s[i]? = some t) :
    ∃ t', s'[i]? = some t' ∧ (t'.done = true ∨ ∀ h ∈ t.held, h ∈ t'.held) := by
  induction hr with
  | refl => exact ⟨t, ht, Or.inr (fun h hh => hh)⟩
  | tail _ hs ih =>
    obtain ⟨tm, htm, hor⟩ := ih
    obtain ⟨t', ht', hdone, hor'⟩ := step_persist hs i tm htm
    refine ⟨t', ht', ?_⟩
    rcases hor with hd | hsub
    · exact Or.inl (hdone hd)
    · rcases hor' with hd' | hsub'
      · exact Or.inl hd'
      · exact Or.inr (fun h hh => hsub' h (hsub h hh))

/-- **two-phase methods are atomic** (strictness form): if thread `i` held lock `L` at some moment and
thread `j` holds `L` in a conflicting mode at a later moment, then `i` has finished by then. -/
theorem two_phase_strict (progs : List (List Acq)) (s₁ s₂ : List Thread)
    (h1 : Reach rwCompatible (progs.map Thread.start) s₁) (h2 : Reach rwCompatible s₁ s₂)
    (i j : Nat) (hij : i ≠ j) (t₁ u₂ : Thread) (hi : s₁[i]? = some t₁) (hj : s₂[j]? = some u₂)
    (h g : Acq) (hh : h ∈ t₁.held) (hg : g ∈ u₂.held) (hl : h.lock = g.lock)
    (hconf : h.mode = .write ∨ g.mode = .write) :
    ∃ t₂, s₂[i]? = some t₂ ∧ t₂.done = true := by
  obtain ⟨t₂, ht₂, hor⟩ := reach_persist h2 i t₁ hi
  refine ⟨t₂, ht₂, ?_⟩
  rcases hor with hd | hsub
  · exact hd
  · have hex := excl_reach (excl_init progs) (reach_trans h1 h2)
    have := hex i j t₂ u₂ hij ht₂ hj h (hsub h hh) g hg hl
    rcases hconf with hc | hc
    · rw [this.1] at hc; cases hc
    · rw [this.2] at hc; cases hc

end C15.Locks
