import RreModel.C09.Candidates
/-
C09 / C10-B — two extensions of the search model that leave `Model.lean` / `Candidates.lean` (and every
theorem about them) untouched; both reuse `candStep`, `searchN`, `bfs` as they are.

1. NEGATED queries `NOT <field> <op> <literal>` (`QueryParser::parse` strips `NOT `, `Goal::negated_with_expression`;
   only the QUERY goal can be negated — sub-goals are `Goal::new`).  In
   `DepthFirstSearch::search_recursive_with_execution`:
     * `check_goal_in_facts` evaluates the parsed positive expression (`Expression::evaluate`: a missing
       field is `Null`, so only `!=` holds; an integer literal is read as a `Number`) — `evalAtom` on the
       `reparse`d atom;
     * the positive form already true in the facts: `return false` (nothing was touched);
     * the candidate loop is the one of a positive query goal (`top = true`): the arms that `return true`
       after `commit_undo_frame` (max_solutions == 1, or enough solutions) do so for a negated goal as well —
       the query `NOT g` is then reported PROVABLE with `g` established in the facts (a quirk, mirrored);
     * end of the loop: `found_solution` ⇒ `return !is_negated` = false; nothing found ⇒ true.
   `BreadthFirstSearch::search_with_execution` never looks at `is_negated` (`success = root_goal.is_proven()`),
   so `NOT g` is answered exactly like `g`; the iterative strategy's probe (`search_recursive`) does not look
   at it either: no candidate ⇒ failure, else the executing DFS at depth limit 0 with max_solutions 1.
   The pattern text of a negated goal is the whole query (`"NOT A == true"`): `extract_field_from_goal` yields
   `"NOT A"`, which the conclusion index does not know, so the candidates come from the linear fallback
   `rule_could_prove_goal` in `kb.get_rules()` order (`topCandsPat`).

2. DISABLED rules (`rule.enabled == false`), after fix F-C09f (`kb.get_rule(&name).filter(|r| r.enabled)` in the
   DFS and BFS candidate loops): a disabled rule is not indexed (`ConclusionIndex::add_rule`), but the substring
   heuristics `rule_could_prove_pattern` (sub-goals) and `rule_could_prove_goal` (fallback) still offer it; as a
   candidate it opens and rolls back an empty frame — exactly what `candStep` does for a position that holds no
   rule (`env.kb[i]? = none`).  So the search model runs on the ENABLED rules, and the candidate lists — computed
   on the full rule list, names by position — are renumbered: an enabled rule to its position among the enabled
   ones, a disabled one to a position past the end (`remap`).  (A disabled candidate still makes the top-level
   list non-empty, which is what the iterative probe looks at.)
-/
namespace C09

/-! ### negated query goal -/

/-- the candidate loop of a negated query goal: `tryCands` with `top = true`, except for the verdict at the end of
the list (`found_solution ⇒ return !goal.is_negated`; nothing found ⇒ `true`) -/
def tryCandsNeg (rb : Rb) (env : Env) (rec : Rec) (goal : Atom) : List Nat → Bool → SS → Bool × SS
  | [], found, s => (!found, s)
  | i :: rest, found, (st, ns) =>
    match candStep env true rec goal i found st ns with
    | .ret r => r
    | .cont found' stX ns' => tryCandsNeg rb env rec goal rest found' (rb st stX, ns')

/-- `search_with_execution` on a negated goal whose positive form is `goal` (depth 0 never exceeds `max_depth`) -/
def dfsNeg (rb : Rb) (env : Env) (maxDepth : Nat) (goal : Atom) (topCands : List Nat) (st : Store) : Bool × SS :=
  if evalAtom st.data goal then (false, (st, 0))
  else tryCandsNeg rb env (searchN rb env maxDepth false) goal topCands false (st, 0)

/-- `BackwardEngine::query("NOT <goal>")` on a fresh engine -/
def queryNegG (rb : Rb) (kb : List Rule) (strategy : Strategy) (maxDepth maxSol : Nat) (subCands : Atom → List Nat)
    (goal : Atom) (topCands : List Nat) (st : Store) : QueryOut :=
  match strategy with
  | .dfs =>
    let r := dfsNeg rb ⟨kb, maxSol, subCands⟩ maxDepth goal topCands st
    ⟨r.1, r.2.1, if r.1 then r.2.2 else 0⟩
  | .bfs =>
    let r := bfs rb kb goal topCands st
    ⟨r.1, r.2, 0⟩
  | .iterative =>
    if topCands.isEmpty then ⟨false, st, 0⟩
    else
      let r := dfsNeg rb ⟨kb, 1, subCands⟩ 0 goal topCands st
      ⟨r.1, r.2.1, if r.1 then r.2.2 else 0⟩

/-- the model of the code -/
abbrev queryNeg := queryNegG rbCode
/-- what the driver runs (the saved store instead of `rollback_undo_frame`, as `queryFast`) -/
abbrev queryNegFast := queryNegG rbSaved

/-! ### candidate lists over rule lists with disabled rules, for an arbitrary pattern text -/

structure KRule where
  rule : Rule
  enabled : Bool
deriving Repr, Inhabited

/-- `kb.get_rules()` from position `i` on, as the index and the heuristics see it -/
def crulesK (nm : Naming) : Nat → List KRule → List C16.CRule
  | _, [] => []
  | i, k :: ks => ⟨nm.rule i, k.enabled, (allActs k.rule).map (actKind nm)⟩ :: crulesK nm (i + 1) ks

def positionsOf (crs : List C16.CRule) (p : C16.CRule → Bool) : List Nat :=
  (List.range crs.length).filter fun i =>
    match crs[i]? with
    | some r => p r
    | none => false

/-- `try_prove_single_condition`: `rule_could_prove_pattern` over `kb.get_rules()` (it does not look at `enabled`) -/
def subCandsPat (crs : List C16.CRule) (pat : String) : List Nat := positionsOf crs (couldProvePattern pat)

/-- `find_candidate_rules` on the pattern text `pat`: (positions, true) from the index (a `HashSet`: any order), or
(positions, false) from the linear fallback (in `kb.get_rules()` order; it does not look at `enabled`) -/
def topCandsPat (crs : List C16.CRule) (pat : String) : List Nat × Bool :=
  let names := C16.cFind (C16.cFromRules crs) pat
  let viaIndex := positionsOf crs fun r => decide (r.name ∈ names)
  if viaIndex.isEmpty then (positionsOf crs (couldProveGoal pat), false) else (viaIndex, true)

def enabledRules (ks : List KRule) : List Rule := (ks.filter (·.enabled)).map (·.rule)

/-- position in `kb.get_rules()` ↦ position in `enabledRules` (a disabled rule: past the end) -/
def remap (ks : List KRule) (p : Nat) : Nat :=
  match ks[p]? with
  | some k => if k.enabled then ((ks.take p).filter (·.enabled)).length else (enabledRules ks).length + p
  | none => (enabledRules ks).length + p

end C09
