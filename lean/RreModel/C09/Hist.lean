import RreModel.C09.Ext
/-
C09 — ONE `BackwardEngine` used over a history: the knowledge base is edited through `engine.knowledge_base()`
(`KnowledgeBase::add_rule` / `remove_rule` / `set_rule_enabled` / `clear`, `src/engine/knowledge_base.rs`) between queries,
`rebuild_index()` is called or not, `set_config` replaces the configuration (`src/backward/backward_engine.rs`).

What survives from one query to the next (`Model.lean`, `Ext.lean` and their theorems are untouched):
* the knowledge base itself (an `Arc`; every search works on a deep copy taken at query time: `KnowledgeBase::clone`), with
  its `version` counter (incremented by every edit that changes something) — `Kb`;
* the conclusion index: built from `kb.get_rules()` by `new` / `with_config` / `rebuild_index` and by nothing else — `Eng.idx`
  is the rule list it was last built from (C16's model `cFromRules` turns it into the index).  `find_candidate_rules` asks the
  index for NAMES; the candidate loop turns a name into a rule with `kb.get_rule(&name).filter(|r| r.enabled)` on the LIVE
  knowledge base, so a name the index still holds for a removed rule is a candidate that does nothing, and a non-empty
  answer of a stale index keeps the linear fallback off (`topCandsHist`);
* the memo cache (`GoalManager::proven_cache`; C11's subject): with fix F-C09g its key contains `kb.version()` and
  `rebuild_index` / `set_config` empty it.  The driver carries it as an association list; the search model does not see it.
Sub-goal candidates are computed from the live knowledge base at query time (`rule_could_prove_pattern` over
`kb.get_rules()`), exactly as on a fresh engine.
-/
namespace C09

/-- a rule of the knowledge base under its registered name `R<name>` -/
structure NRule where
  name : Nat
  k : KRule
deriving Inhabited

/-- `KnowledgeBase`: the rules in `get_rules()` order (equal salience: insertion order; `add_rule` sorts stably) and the
`version` counter -/
structure Kb where
  rules : List NRule := []
  version : Nat := 0

def Kb.has (kb : Kb) (n : Nat) : Bool := kb.rules.any (·.name == n)

inductive KbOp where
  /-- `add_rule`: an existing name is rejected (`Err`, nothing changes) -/
  | add (n : Nat) (k : KRule)
  /-- `remove_rule`: `Ok(false)` for an unknown name -/
  | remove (n : Nat)
  /-- `set_rule_enabled`: counts as a change even when the flag already had that value -/
  | enable (n : Nat) (b : Bool)
  | clear

def kbStep (kb : Kb) : KbOp → Kb
  | .add n k => if kb.has n then kb else ⟨kb.rules ++ [⟨n, k⟩], kb.version + 1⟩
  | .remove n => if kb.has n then ⟨kb.rules.filter (fun r => r.name != n), kb.version + 1⟩ else kb
  | .enable n b =>
    if kb.has n then ⟨kb.rules.map (fun r => if r.name == n then ⟨r.name, ⟨r.k.rule, b⟩⟩ else r), kb.version + 1⟩ else kb
  | .clear => ⟨[], kb.version + 1⟩

/-- `kb.get_rules()` as the index and the substring heuristics see it -/
def crulesN (nm : Naming) (rs : List NRule) : List C16.CRule :=
  rs.map fun r => ⟨nm.rule r.name, r.k.enabled, (allActs r.k.rule).map (actKind nm)⟩

/-- the engine state that matters between two queries -/
structure Eng where
  kb : Kb
  /-- the rule list the conclusion index was last built from -/
  idx : List C16.CRule

inductive EngOp where
  | kb (op : KbOp)
  /-- `rebuild_index` -/
  | rebuild
  /-- `set_config` (the configuration itself is an input of every query) -/
  | setConfig

/-- `BackwardEngine::new` / `with_config` on a knowledge base holding `rules` (one `add_rule` each) -/
def engNew (nm : Naming) (rules : List NRule) : Eng := ⟨⟨rules, rules.length⟩, crulesN nm rules⟩

def engStep (nm : Naming) (e : Eng) : EngOp → Eng
  | .kb op => { e with kb := kbStep e.kb op }
  | .rebuild => { e with idx := crulesN nm e.kb.rules }
  | .setConfig => e

/-- the index was built from the rule set as it is now -/
def indexFresh (nm : Naming) (e : Eng) : Bool := decide (e.idx = crulesN nm e.kb.rules)

/-- position of the live rule registered under the name `s`; past the end when there is none (`kb.get_rule` = `None`) -/
def livePos (live : List C16.CRule) (s : String) : Nat :=
  match live.findIdx? (fun r => r.name == s) with
  | some p => p
  | none => live.length

/-- `find_candidate_rules` on an engine whose index may be stale: (positions in the LIVE `kb.get_rules()`, true) for the
names the index proposes (a `HashSet`: any order) — a name without a live rule is a position past the end —, or, only when
the index proposes nothing, (positions, false) from the scan of the live rules with `rule_could_prove_goal` -/
def topCandsHist (nm : Naming) (e : Eng) (pat : String) : List Nat × Bool :=
  let live := crulesN nm e.kb.rules
  let names := C16.cFind (C16.cFromRules e.idx) pat
  if names.isEmpty then (positionsOf live (couldProveGoal pat), false)
  else (names.map (livePos live), true)

/-- the rules of the live knowledge base, flags included, by position -/
def Eng.krules (e : Eng) : List KRule := e.kb.rules.map (·.k)

/-- the sub-goal candidates of a query on engine state `e`: `rule_could_prove_pattern` over the live `kb.get_rules()`,
renumbered to the enabled rules the search model runs on (what `Driver/C09.lean` runs for every query of a history) -/
def subCandsHist (nm : Naming) (e : Eng) (a : Atom) : List Nat :=
  (subCandsPat (crulesN nm e.kb.rules) (patternOf nm a)).map (remap e.krules)

/-- **a depth-first query on engine state `e`** (memoisation off): the search of `Model.lean` on the enabled live rules with
the candidates of `topCandsHist` (possibly stale index; `ord` = the order the `HashSet` happens to yield) and `subCandsHist` -/
def histQuery (nm : Naming) (e : Eng) (maxDepth maxSol : Nat) (goal : Atom) (ord : List Nat → List Nat) (st : Store) : QueryOut :=
  query (enabledRules e.krules) .dfs maxDepth maxSol (subCandsHist nm e) goal
    (ord ((topCandsHist nm e (patternOf nm goal)).1.map (remap e.krules))) st

end C09
