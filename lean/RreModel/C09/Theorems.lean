import RreModel.C09.Complete
import RreModel.C09.CandLemmas
/-
C09 — property theorems for the backward-chaining search model (only; lemmas in Lemmas.lean).

"If a query is reported provable, the goal comparison is true in the facts handed back and those
facts are forward-reachable from the initial facts; under DFS a goal with a bounded derivation is
reported provable."  Every statement quantifies over every knowledge base (any number of rules,
And/Or condition trees, any literal assignments), every initial store with any enclosing undo
frames, every goal, every `max_depth`, and — because the top-level candidate order comes from a
`HashSet` and the sub-goal candidates from a substring heuristic — over EVERY candidate order
`topCands` and EVERY sub-goal candidate function `subCands`.
-/
namespace C09
open C10

/-- **Every store the search hands back is forward-reachable** (all three strategies, every
`max_solutions`): it is obtained from the initial facts by firing rules of the KB, each with its
condition true in the store it fired on; everything else was rolled back. -/
theorem search_facts_reachable (kb : List Rule) (strategy : Strategy) (maxDepth maxSol : Nat)
    (subCands : Atom → List Nat) (goal : Atom) (topCands : List Nat) (st : Store) :
    Reach kb st.data (query kb strategy maxDepth maxSol subCands goal topCands st).store.data := by
  cases strategy with
  | dfs =>
    exact ((searchN_good ⟨kb, maxSol, subCands⟩ st.data (maxDepth + 1)).1 true goal topCands (st, 0)).reach .refl
  | bfs =>
    simp only [query, queryG, bfs]
    split
    · rw [data_commit]; exact .refl
    · have h := bfsLoop_good kb st.data goal topCands (gstep st .begin)
      split
      · rw [data_commit]; exact h.2.1 .refl
      · have : rbCode st (bfsLoop kb goal topCands (gstep st .begin)).2 = st := eff_rollback h.1
        simp only [this]; exact .refl
  | iterative =>
    simp only [query, queryG]
    split
    · exact .refl
    · exact ((searchN_good ⟨kb, 1, subCands⟩ st.data (0 + 1)).1 true goal topCands (st, 0)).reach .refl

/-- **A `provable` answer is guarded by a successful goal check on the store handed back**:
BFS and iterative for every `max_solutions`, DFS for `max_solutions = 1`. -/
theorem provable_goal_holds (kb : List Rule) (strategy : Strategy) (maxDepth maxSol : Nat)
    (subCands : Atom → List Nat) (goal : Atom) (topCands : List Nat) (st : Store)
    (hms : maxSol = 1 ∨ strategy ≠ .dfs)
    (hp : (query kb strategy maxDepth maxSol subCands goal topCands st).provable = true) :
    evalAtom (query kb strategy maxDepth maxSol subCands goal topCands st).store.data goal = true := by
  cases strategy with
  | dfs =>
    have h1 : maxSol = 1 := by cases hms with | inl h => exact h | inr h => exact absurd rfl h
    exact ((searchN_good ⟨kb, maxSol, subCands⟩ st.data (maxDepth + 1)).1 true goal topCands (st, 0)).holds h1 hp
  | bfs =>
    simp only [query, queryG, bfs] at hp ⊢
    split
    · rename_i hg; rw [data_commit]; exact hg
    · rename_i hg
      simp only [hg] at hp
      have h := bfsLoop_good kb st.data goal topCands (gstep st .begin)
      split
      · rename_i hb; rw [data_commit]; exact h.2.2 hb
      · rename_i hb; simp [hb] at hp
  | iterative =>
    simp only [query, queryG] at hp ⊢
    split
    · rename_i he; simp [he] at hp
    · rename_i he
      simp only [he] at hp
      exact ((searchN_good ⟨kb, 1, subCands⟩ st.data (0 + 1)).1 true goal topCands (st, 0)).holds rfl hp

/-- full soundness statement (every strategy, every `max_solutions`) -/
def query_sound_full : Prop :=
  ∀ (kb : List Rule) (strategy : Strategy) (maxDepth maxSol : Nat) (subCands : Atom → List Nat)
    (goal : Atom) (topCands : List Nat) (st : Store),
    let o := query kb strategy maxDepth maxSol subCands goal topCands st
    Reach kb st.data o.store.data ∧ (o.provable = true → evalAtom o.store.data goal = true)

/-- **Soundness**, proved for BFS / iterative with any `max_solutions` and DFS with
`max_solutions = 1` (the default). -/
theorem query_sound_partial (kb : List Rule) (strategy : Strategy) (maxDepth maxSol : Nat)
    (subCands : Atom → List Nat) (goal : Atom) (topCands : List Nat) (st : Store)
    (hms : maxSol = 1 ∨ strategy ≠ .dfs) :
    let o := query kb strategy maxDepth maxSol subCands goal topCands st
    Reach kb st.data o.store.data ∧ (o.provable = true → evalAtom o.store.data goal = true) :=
  ⟨search_facts_reachable kb strategy maxDepth maxSol subCands goal topCands st,
   provable_goal_holds kb strategy maxDepth maxSol subCands goal topCands st hms⟩

/-- witness for the `max_solutions > 1` gap (finding F-C09c): one rule `X == 1 ⇒ G := true`, query
`G == true`, `max_solutions = 3`: the only solution is rolled back while the search looks for two
more, the query is still reported provable, and `G` is absent from the facts handed back. -/
def cexKb : List Rule := [⟨.atom ⟨6, .eq, .num 1⟩, [(5, .bool true)], []⟩]
def cexStore : Store := ⟨fun k => if k = 6 then some (.num 1) else none, []⟩
def cexGoal : Atom := ⟨5, .eq, .bool true⟩

theorem query_sound_counterexample : ¬ query_sound_full := by
  intro h
  have h2 := (h cexKb .dfs 3 3 (fun _ => [0]) cexGoal [0] cexStore).2
  revert h2
  decide

/-- the driver's fast search (saved store instead of `rollback_undo_frame`) is the model's search -/
theorem query_eq_fast (kb : List Rule) (strategy : Strategy) (maxDepth maxSol : Nat)
    (subCands : Atom → List Nat) (goal : Atom) (topCands : List Nat) (st : Store) :
    query kb strategy maxDepth maxSol subCands goal topCands st =
      queryFast kb strategy maxDepth maxSol subCands goal topCands st := by
  cases strategy with
  | dfs =>
    have h : dfs rbCode ⟨kb, maxSol, subCands⟩ maxDepth goal topCands st =
        dfs rbSaved ⟨kb, maxSol, subCands⟩ maxDepth goal topCands st := by
      simp only [dfs, (searchN_good ⟨kb, maxSol, subCands⟩ st.data (maxDepth + 1)).2]
    simp only [query, queryFast, queryG, h]
  | bfs =>
    simp only [query, queryFast, queryG, bfs]
    split
    · rfl
    · split
      · rfl
      · have h := bfsLoop_good kb st.data goal topCands (gstep st .begin)
        have : rbCode st (bfsLoop kb goal topCands (gstep st .begin)).2 = st := eff_rollback h.1
        simp only [this, rbSaved]
  | iterative =>
    have h : dfs rbCode ⟨kb, 1, subCands⟩ 0 goal topCands st =
        dfs rbSaved ⟨kb, 1, subCands⟩ 0 goal topCands st := by
      simp only [dfs, (searchN_good ⟨kb, 1, subCands⟩ st.data (0 + 1)).2]
    simp only [query, queryFast, queryG, h]

/-! ### bounded completeness (DFS) -/

/-- **Bounded completeness of the depth-first search.**  Knowledge base with pairwise consistent
`Set` actions (`KbCons`: every action is a `Set` and no two give one field different values — NO restriction on the
conditions of the rules that are not used in the derivation: And/Or trees, any comparison), any
initial store compatible with them (`Compat`; any enclosing undo frames), every `max_depth`, every
`max_solutions`, every order of the top-level candidate list and every sub-goal candidate function
as long as they offer the rules that assign the wanted value (`Covers`; the code's conclusion
index and substring heuristic do: `topCandidates_covers`, `subCandidates_covers`, and
`dfs_complete_code` is this theorem without the two hypotheses), every equality goal:

if the goal has a derivation `Deriv` of height `h ≤ max_depth + 1` from the initial facts — a tree
whose leaves are facts of the initial store (height 0) and whose inner nodes are rules with
conjunctive equality conditions (literals boolean / Number / String, `reparse b = b`) that assign
the goal's value — then the query is reported provable.

Height vs. the depth counter of `search_recursive_with_execution`: the query goal is searched at
`depth = 0`, the condition atoms of its candidate rules at `depth = 1`, …; a rule all of whose
conditions already hold is executed at the depth of its goal without descending.  A derivation of
height `h` therefore needs `depth` values `0 … h - 1` only, and `depth > max_depth` never cuts it
when `h ≤ max_depth + 1` — one more than the property asks for (`dfs_complete_depth_tight`: the
bound is exact). -/
theorem dfs_complete (kb : List Rule) (maxDepth maxSol : Nat) (subCands : Atom → List Nat)
    (goal : Atom) (topCands : List Nat) (st : Store)
    (hkb : KbCons kb) (hst : Compat kb st.data)
    (htop : Covers kb topCands goal)
    (hsub : ∀ r ∈ kb, ∀ b ∈ condAtoms r.cond, Covers kb (subCands b) b)
    (h : Nat) (hh : h ≤ maxDepth + 1) (hd : Deriv kb st.data h goal) :
    (query kb .dfs maxDepth maxSol subCands goal topCands st).provable = true := by
  have hs := searchN_complete ⟨kb, maxSol, subCands⟩ hkb st.data hsub (hd.mono hh) true topCands st 0 htop
    (Ext.refl _) hst
  simp only [query, queryG, dfs]
  cases hs with
  | inl hs => simp [searchN, hs]
  | inr hs => exact hs

/-- On such a knowledge base the facts handed back by the DFS (whatever the answer, every
`max_solutions`) only ADD to the initial facts, with the values the rules assign: no field that
was present changes or disappears.  (This is the invariant that makes the induction go through:
failed candidates are rolled back to exactly the saved store — C10 — and successful sub-proofs
only grow it, so a condition atom proven earlier stays true.) -/
theorem dfs_facts_grow (kb : List Rule) (maxDepth maxSol : Nat) (subCands : Atom → List Nat)
    (goal : Atom) (topCands : List Nat) (st : Store) (hkb : KbCons kb) (hst : Compat kb st.data) :
    Ext st.data (query kb .dfs maxDepth maxSol subCands goal topCands st).store.data ∧
    Compat kb (query kb .dfs maxDepth maxSol subCands goal topCands st).store.data :=
  searchN_grow ⟨kb, maxSol, subCands⟩ hkb (maxDepth + 1) true goal topCands (st, 0) hst

/-- The reference computation of runtime oracle (iv) (`derivableIn`, `Spec.lean`) decides exactly
the existence of a derivation of height ≤ `max_depth + 1`. -/
theorem derivableIn_iff_deriv (kb : List Rule) (d0 : Data) (maxDepth : Nat) (goal : Atom)
    (hconj : ∀ r ∈ kb, isConj r.cond = true) (hni : noIntLit kb = true) (hgo : goal.op = .eq) :
    derivableIn kb d0 maxDepth goal = true ↔ Deriv kb d0 (maxDepth + 1) goal := by
  have hni' : ∀ r ∈ kb, ∀ b ∈ condAtoms r.cond, reparse b = b := by
    simpa [noIntLit, List.all_eq_true] using hni
  constructor
  · intro h
    simp only [derivableIn, Bool.or_eq_true] at h
    cases h with
    | inl h0 => exact .fact hgo h0
    | inr hl => exact deriv_of_levels kb d0 hconj hni' (maxDepth + 1) goal hgo hl
  · intro h
    simp only [derivableIn, Bool.or_eq_true]
    exact levels_of_deriv kb d0 h

/-- **Oracle (iv) is a theorem of the model** (every `max_solutions`): consistent-Horn knowledge
base and initial facts (`isHorn`: conjunctive equality conditions; one value per field across
all rule actions and the initial facts), no `Integer` literal in a condition (`noIntLit`),
equality goal, candidate lists that cover: a goal that the reference level computation finds
derivable within `max_depth` is reported provable. -/
theorem dfs_complete_oracle (kb : List Rule) (maxDepth maxSol : Nat) (subCands : Atom → List Nat)
    (goal : Atom) (topCands : List Nat) (before : Facts) (fr : List (Frame (Option Val)))
    (hhorn : isHorn kb before = true) (hni : noIntLit kb = true) (hgo : goal.op = .eq)
    (htop : Covers kb topCands goal)
    (hsub : ∀ r ∈ kb, ∀ b ∈ condAtoms r.cond, Covers kb (subCands b) b)
    (hder : derivableIn kb (dataOf before) maxDepth goal = true) :
    (query kb .dfs maxDepth maxSol subCands goal topCands ⟨dataOf before, fr⟩).provable = true := by
  obtain ⟨hconj, hkb, hst⟩ := isHorn_spec hhorn
  exact dfs_complete kb maxDepth maxSol subCands goal topCands ⟨dataOf before, fr⟩ hkb hst htop hsub
    (maxDepth + 1) (Nat.le_refl _)
    ((derivableIn_iff_deriv kb (dataOf before) maxDepth goal hconj hni hgo).mp hder)

/-- the statement that was kept open as a `def` in the first round -/
def dfs_complete_full : Prop :=
  ∀ (kb : List Rule) (maxDepth : Nat) (subCands : Atom → List Nat) (goal : Atom) (topCands : List Nat)
    (before : Facts) (fr : List (Frame (Option Val))),
    isHorn kb before = true → goal.op = .eq →
    (∀ r ∈ kb, ∀ a ∈ condAtoms r.cond, reparse a = a) →
    (∀ i r, kb[i]? = some r → concludes r goal.field goal.val = true → i ∈ topCands) →
    (∀ a i r, kb[i]? = some r → concludes r a.field a.val = true → i ∈ subCands a) →
    derivableIn kb (dataOf before) maxDepth goal = true →
    (query kb .dfs maxDepth 1 subCands goal topCands ⟨dataOf before, fr⟩).provable = true

theorem dfs_complete_full_holds : dfs_complete_full := by
  intro kb maxDepth subCands goal topCands before fr hhorn hgo hre htop hsub hder
  have hni : noIntLit kb = true := by simpa [noIntLit, List.all_eq_true] using hre
  exact dfs_complete_oracle kb maxDepth 1 subCands goal topCands before fr hhorn hni hgo
    (covers_of_indices htop) (fun _ _ b _ => covers_of_indices (hsub b)) hder

/-! #### every hypothesis is needed: concrete witnesses (replayed on the real code, which agrees) -/

def wGoal : Atom := ⟨5, .eq, .bool true⟩
def wBefore : Facts := [(6, .num 1)]
/-- candidates by assigned field, in rule order (what the substring heuristic yields) -/
def wSub (kb : List Rule) (a : Atom) : List Nat :=
  (List.range kb.length).filter fun i => match kb[i]? with
    | some r => r.acts.any (·.1 == a.field)
    | none => false

/-- R0: X == 1 ⇒ A := true;  R1: A == true ⇒ G := true -/
def tightKb : List Rule :=
  [ ⟨.atom ⟨6, .eq, .num 1⟩, [(0, .bool true)], []⟩, ⟨.atom ⟨0, .eq, .bool true⟩, [(5, .bool true)], []⟩ ]

/-- **The depth bound is exact**: with every other hypothesis of `dfs_complete_oracle` met, a
derivation of height `max_depth + 2` (here 2, `max_depth = 0`) is not found. -/
theorem dfs_complete_depth_tight :
    isHorn tightKb wBefore = true ∧ noIntLit tightKb = true ∧ Covers tightKb [1] wGoal ∧
    (∀ r ∈ tightKb, ∀ b ∈ condAtoms r.cond, Covers tightKb (wSub tightKb b) b) ∧
    derivableIn tightKb (dataOf wBefore) (0 + 1) wGoal = true ∧
    (query tightKb .dfs 0 1 (wSub tightKb) wGoal [1] ⟨dataOf wBefore, []⟩).provable = false := by
  decide

/-- R0: X == 1 ⇒ A := Integer 1;  R1: A == Integer 1 ⇒ G := true -/
def intKb : List Rule :=
  [ ⟨.atom ⟨6, .eq, .num 1⟩, [(0, .int 1)], []⟩, ⟨.atom ⟨0, .eq, .int 1⟩, [(5, .bool true)], []⟩ ]

/-- **`noIntLit` is needed** (finding F-C09b): the sub-goal `A == 1` comes back from the pattern
string as a Number and never matches the Integer the rule assigns. -/
theorem dfs_complete_needs_noIntLit :
    isHorn intKb wBefore = true ∧ noIntLit intKb = false ∧ Covers intKb [1] wGoal ∧
    (∀ r ∈ intKb, ∀ b ∈ condAtoms r.cond, Covers intKb (wSub intKb b) b) ∧
    derivableIn intKb (dataOf wBefore) 3 wGoal = true ∧
    (query intKb .dfs 3 1 (wSub intKb) wGoal [1] ⟨dataOf wBefore, []⟩).provable = false := by
  decide

/-- Ra: X == 1 ⇒ A := true;  Rb: X == 1 ⇒ B := true, A := false;  R: A == true && B == true ⇒ G := true -/
def clashKb : List Rule :=
  [ ⟨.atom ⟨6, .eq, .num 1⟩, [(0, .bool true)], []⟩,
    ⟨.atom ⟨6, .eq, .num 1⟩, [(1, .bool true), (0, .bool false)], []⟩,
    ⟨.and (.atom ⟨0, .eq, .bool true⟩) (.atom ⟨1, .eq, .bool true⟩), [(5, .bool true)], []⟩ ]

/-- **Consistency of the actions is needed** (finding F-C09e, interference): all conditions are
conjunctive equality tests, the goal has a (syntactic) derivation of height 2 ≤ `max_depth`, and
it is true in a forward-reachable store (fire Rb, Ra, R) — but the DFS proves `A`, then proves `B`
by a rule that also resets `A`, finds the parent rule's condition false and gives up; it neither
re-proves `A` nor tries the conditions in another order. -/
theorem dfs_complete_needs_consistency :
    (∀ r ∈ clashKb, isConj r.cond = true) ∧ noIntLit clashKb = true ∧
    consistent (allAssignments clashKb wBefore) = false ∧ Covers clashKb [2] wGoal ∧
    (∀ r ∈ clashKb, ∀ b ∈ condAtoms r.cond, Covers clashKb (wSub clashKb b) b) ∧
    derivableIn clashKb (dataOf wBefore) 3 wGoal = true ∧
    (∃ d, Reach clashKb (dataOf wBefore) d ∧ evalAtom d wGoal = true) ∧
    (query clashKb .dfs 3 1 (wSub clashKb) wGoal [2] ⟨dataOf wBefore, []⟩).provable = false := by
  refine ⟨by decide, by decide, by decide, by decide, by decide, by decide, ?_, by decide⟩
  refine ⟨_, .fire (r := clashKb[2]) (.fire (r := clashKb[0]) (.fire (r := clashKb[1]) .refl
    (by decide) (by decide)) (by decide) (by decide)) (by decide) (by decide), by decide⟩

/-! Non-vacuity of `dfs_complete` / `dfs_complete_oracle`: a consistent-Horn knowledge base with a
candidate that is tried first and fails after deriving a fact (R1: proves `A`, then the dead end
`D`), a shared sub-goal (`A`, needed by R2 and by R4), a cycle (R6) tried before the productive
rule, and a derivation of height 3. -/
def hornKb : List Rule :=
  [ ⟨.atom ⟨7, .eq, .num 1⟩, [(3, .bool true)], []⟩,                                              -- R0: Y == 1 ⇒ D  (dead end)
    ⟨.and (.atom ⟨0, .eq, .bool true⟩) (.atom ⟨3, .eq, .bool true⟩), [(5, .bool true)], []⟩,      -- R1: A && D ⇒ G
    ⟨.and (.atom ⟨0, .eq, .bool true⟩) (.atom ⟨1, .eq, .bool true⟩), [(5, .bool true)], []⟩,      -- R2: A && B ⇒ G
    ⟨.atom ⟨6, .eq, .num 1⟩, [(0, .bool true)], []⟩,                                              -- R3: X == 1 ⇒ A
    ⟨.and (.atom ⟨0, .eq, .bool true⟩) (.atom ⟨2, .eq, .bool true⟩), [(1, .bool true)], []⟩,      -- R4: A && C ⇒ B
    ⟨.atom ⟨6, .eq, .num 1⟩, [(2, .bool true)], []⟩,                                              -- R5: X == 1 ⇒ C
    ⟨.atom ⟨5, .eq, .bool true⟩, [(0, .bool true)], []⟩ ]                                          -- R6: G ⇒ A  (cycle)
def hornSub (a : Atom) : List Nat :=
  if a.field = 0 then [6, 3] else wSub hornKb a

example : (query hornKb .dfs 2 1 hornSub wGoal [1, 2] ⟨dataOf wBefore, []⟩).provable = true :=
  dfs_complete_oracle hornKb 2 1 hornSub wGoal [1, 2] wBefore [] (by decide) (by decide) rfl (by decide)
    (by decide) (by decide)
-- the same with `max_solutions = 3`
example : (query hornKb .dfs 2 3 hornSub wGoal [1, 2] ⟨dataOf wBefore, []⟩).provable = true :=
  dfs_complete_oracle hornKb 2 3 hornSub wGoal [1, 2] wBefore [] (by decide) (by decide) rfl (by decide)
    (by decide) (by decide)
-- the derivation has height 3: one level less of depth budget and the goal is not found
example : (query hornKb .dfs 1 1 hornSub wGoal [1, 2] ⟨dataOf wBefore, []⟩).provable = false := by decide
-- the first candidate (R1) really derived `A` inside its frame before it failed on `D` …
example : (match candStep ⟨hornKb, 1, hornSub⟩ true (searchN rbCode ⟨hornKb, 1, hornSub⟩ 2 false) wGoal 1 false
      ⟨dataOf wBefore, []⟩ 0 with
    | .cont found stX _ => !found && stX.data 0 == some (.bool true) && stX.data 3 == none
    | .ret _ => false) = true := by decide
-- … and the facts handed back are the initial ones plus A, B, C, G
example : (List.range 8).map (query hornKb .dfs 2 1 hornSub wGoal [1, 2] ⟨dataOf wBefore, []⟩).store.data =
    [some (.bool true), some (.bool true), some (.bool true), none, none, some (.bool true), some (.num 1), none] := by
  decide

/-! ### the candidate lists the code computes cover (`Covers` discharged)

`Candidates.lean` computes the two candidate lists the way the code does — the top-level one by running
C16's model of `ConclusionIndex` (`from_rules`, `find_candidates`) on the knowledge base, with the
linear fallback of `find_candidate_rules`; the sub-goal one by `rule_could_prove_pattern` over
`kb.get_rules()` — and the driver calls these functions.  The theorems below show that they offer
every rule that assigns the wanted value, so the hypothesis `Covers` of `dfs_complete` is a property
of the code's candidate computation, not an assumption. -/

/-- **The substring heuristic of `try_prove_single_condition` covers** — every naming, every
knowledge base, every condition atom (any comparison): a rule with a `Set` on the atom's field
passes `rule_could_prove_pattern`, because the pattern text starts with that field's name.  (It
offers MORE than that: every rule with a `Set` / `MethodCall` whose field, object or method name
occurs anywhere in the pattern, literal included.) -/
theorem subCandidates_covers (nm : Naming) (kb : List Rule) (a : Atom) :
    Covers kb (subCandidates nm kb a) a := by
  apply covers_of_indices
  intro i r hi hcon
  apply mem_positionsWhere hi
  have hset := set_mem_of_concludes nm i r a.field a.val hcon
  simp only [couldProvePattern, List.any_eq_true]
  exact ⟨_, hset, contains_pattern_field nm a⟩

/-- **`find_candidate_rules` covers** — knowledge base with unique rule names (`add_rule` enforces
it), index built from it (`BackwardEngine::new` / `with_config` / `rebuild_index`), equality goal on
a field whose name contains no `==` and no outer white space: every rule with a `Set` of the
goal's value on the goal's field is proposed by `ConclusionIndex::find_candidates` (C16's
`from_rules_complete`, reused through `extractField_pattern`); the lookup is then non-empty, so the
linear fallback does not replace it.  (Also offered: every rule with a conclusion that starts with
the goal field's parent object — the `rfind('.')` branch — a superset.) -/
theorem topCandidates_covers (nm : Naming) (kb : List Rule) (goal : Atom)
    (hu : RuleNamesUnique nm kb) (hop : goal.op = .eq) (hf : FieldOk (nm.field goal.field)) :
    Covers kb (topCandidates nm kb goal) goal := by
  apply covers_of_indices
  intro i r hi hcon
  have hm := mem_indexCandidates nm kb goal hu hop hf i r hi hcon
  have hne : (indexCandidates nm kb goal).isEmpty = false := by
    cases hl : indexCandidates nm kb goal with
    | nil => rw [hl] at hm; cases hm
    | cons _ _ => rfl
  simp only [topCandidates, hne, Bool.false_eq_true, if_false]
  exact hm

/-- **Bounded completeness of the depth-first search with the candidate lists the code computes**
(no `Covers` hypothesis): `dfs_complete` for `subCands := subCandidates nm kb` and for EVERY
enumeration `order` of the top-level candidates (`find_candidates` hands back a `HashSet`; extra or
repeated entries in `order` do not matter).  What is left as hypotheses is about the TEXT of the
tie only: the rule names are pairwise different and the name of the goal's field is one
`extract_field_from_goal` can recover (`FieldOk`). -/
theorem dfs_complete_code (nm : Naming) (kb : List Rule) (maxDepth maxSol : Nat) (goal : Atom)
    (order : List Nat) (st : Store)
    (hu : RuleNamesUnique nm kb) (hf : FieldOk (nm.field goal.field))
    (horder : ∀ i ∈ topCandidates nm kb goal, i ∈ order)
    (hkb : KbCons kb) (hst : Compat kb st.data)
    (h : Nat) (hh : h ≤ maxDepth + 1) (hd : Deriv kb st.data h goal) :
    (query kb .dfs maxDepth maxSol (subCandidates nm kb) goal order st).provable = true := by
  refine dfs_complete kb maxDepth maxSol (subCandidates nm kb) goal order st hkb hst ?_
    (fun _ _ b _ => subCandidates_covers nm kb b) h hh hd
  intro r hr hcon
  obtain ⟨i, hi, hk⟩ := topCandidates_covers nm kb goal hu hd.op_eq hf r hr hcon
  exact ⟨i, horder i hi, hk⟩

/-- oracle (iv) with the code's candidate lists: `dfs_complete_oracle` without `Covers` hypotheses -/
theorem dfs_complete_oracle_code (nm : Naming) (kb : List Rule) (maxDepth maxSol : Nat) (goal : Atom)
    (order : List Nat) (before : Facts) (fr : List (Frame (Option Val)))
    (hu : RuleNamesUnique nm kb) (hf : FieldOk (nm.field goal.field))
    (horder : ∀ i ∈ topCandidates nm kb goal, i ∈ order)
    (hhorn : isHorn kb before = true) (hni : noIntLit kb = true) (hgo : goal.op = .eq)
    (hder : derivableIn kb (dataOf before) maxDepth goal = true) :
    (query kb .dfs maxDepth maxSol (subCandidates nm kb) goal order ⟨dataOf before, fr⟩).provable = true := by
  refine dfs_complete_oracle kb maxDepth maxSol (subCandidates nm kb) goal order before fr hhorn hni hgo ?_
    (fun _ _ b _ => subCandidates_covers nm kb b) hder
  intro r hr hcon
  obtain ⟨i, hi, hk⟩ := topCandidates_covers nm kb goal hu hgo hf r hr hcon
  exact ⟨i, horder i hi, hk⟩

/-- **The rule names of the tie are pairwise different** (`R<i>`, whatever the field names and the
knowledge base): the hypothesis `RuleNamesUnique` of the theorems above holds for every case the
driver evaluates. -/
theorem ruleNameR_unique (field : Nat → String) (kb : List Rule) : RuleNamesUnique ⟨field, ruleNameR⟩ kb :=
  fun _ _ _ _ h => ruleNameR_inj h

/-- the text of the tie (harness/src/bin/c09.rs, Driver/C09.lean `tieNames`): `FIELDS[i]`, `R<i>` -/
def exNames : Naming :=
  ⟨fun | 0 => "A" | 1 => "B" | 2 => "C" | 3 => "D" | 4 => "E" | 5 => "G" | 6 => "X" | 7 => "Y"
       | 8 => "U.P" | 9 => "U.Q" | _ => "E._return",
   ruleNameR⟩

/-- every field name of the tie is one `extract_field_from_goal` recovers -/
example : ∀ f, f < 11 → FieldOk (exNames.field f) := by decide

/-- R0: X == 1 ⇒ `a==b` := true;  R1: X == 1 ⇒ `a` := true  (field 0 is named `a==b`, field 1 `a`) -/
def oddNames : Naming := ⟨fun | 0 => "a==b" | _ => "a", ruleNameR⟩
def oddKb : List Rule :=
  [ ⟨.atom ⟨6, .eq, .num 1⟩, [(0, .bool true)], []⟩, ⟨.atom ⟨6, .eq, .num 1⟩, [(1, .bool true)], []⟩ ]

/-- **`FieldOk` is needed** (a statement about the model only: no GRL text or query string can name
such a field): with a field called `a==b` the pattern `a==b == true` is cut at its FIRST `==`, the
index is asked for `a`, answers with the rule that sets `a` — not empty, so no fallback — and the
rule that sets `a==b` is not offered. -/
theorem topCandidates_needs_fieldOk :
    RuleNamesUnique oddNames oddKb ∧ ¬ FieldOk (oddNames.field 0) ∧
    topCandidates oddNames oddKb ⟨0, .eq, .bool true⟩ = [1] ∧
    ¬ Covers oddKb (topCandidates oddNames oddKb ⟨0, .eq, .bool true⟩) ⟨0, .eq, .bool true⟩ := by
  decide

/-! Non-vacuity of the `…_covers` / `…_code` theorems, on `hornKb` with the names of the tie -/
example : RuleNamesUnique exNames hornKb ∧ FieldOk (exNames.field wGoal.field) := by decide
-- the index proposes exactly the two rules that set `G`; the heuristic, for `A == true`, the two that set `A`
example : topCandidates exNames hornKb wGoal = [1, 2] := by decide
example : subCandidates exNames hornKb ⟨0, .eq, .bool true⟩ = [3, 6] := by decide
-- whatever order the HashSet yields
example : (query hornKb .dfs 2 1 (subCandidates exNames hornKb) wGoal [2, 1] ⟨dataOf wBefore, []⟩).provable = true :=
  dfs_complete_oracle_code exNames hornKb 2 1 wGoal [2, 1] wBefore [] (ruleNameR_unique _ _) (by decide) (by decide)
    (by decide) (by decide) rfl (by decide)
example : (query hornKb .dfs 2 3 (subCandidates exNames hornKb) wGoal [1, 2] ⟨dataOf wBefore, []⟩).provable = true :=
  dfs_complete_oracle_code exNames hornKb 2 3 wGoal [1, 2] wBefore [] (ruleNameR_unique _ _) (by decide) (by decide)
    (by decide) (by decide) rfl (by decide)
-- dotted names: the `rfind('.')` branch also proposes the rule that sets the SIBLING field `U.Q` (a superset)
example : topCandidates exNames
    [⟨.atom ⟨6, .eq, .num 1⟩, [(8, .bool true)], []⟩, ⟨.atom ⟨6, .eq, .num 1⟩, [(9, .bool true)], []⟩,
     ⟨.atom ⟨6, .eq, .num 1⟩, [(0, .bool true)], []⟩] ⟨8, .eq, .bool true⟩ = [0, 1] := by decide
-- the fallback: no rule concludes `Y`, the index proposes nothing, and the scan offers the rules whose `Set` field
-- (`A`) occurs in the pattern `Y == "A"` — inside the literal
example : indexCandidates exNames hornKb ⟨7, .eq, .str "A"⟩ = [] ∧
    topCandidates exNames hornKb ⟨7, .eq, .str "A"⟩ = [3, 6] := by decide
-- the sub-goal heuristic is a superset too: for `B == "A"` it offers the rule that sets `B` and those that set `A`
example : subCandidates exNames hornKb ⟨1, .eq, .str "A"⟩ = [3, 4, 6] := by decide

/-- Derivations of nesting 0 on ARBITRARY knowledge bases (no consistency requirement at all):
if the goal already holds, or some candidate rule whose condition is true in the initial facts
fires without a failing action and makes the goal comparison true, the DFS (default `max_solutions = 1`, any `max_depth`, any
candidate order, whatever the other candidates do before it) reports the goal provable. -/
theorem dfs_complete_partial (kb : List Rule) (maxDepth : Nat) (subCands : Atom → List Nat)
    (goal : Atom) (topCands : List Nat) (st : Store)
    (h : evalAtom st.data goal = true ∨
      ∃ i r, i ∈ topCands ∧ kb[i]? = some r ∧ evalCond st.data r.cond = true ∧
        (fireData r st.data).1 = true ∧ evalAtom (fireData r st.data).2 goal = true) :
    (query kb .dfs maxDepth 1 subCands goal topCands st).provable = true := by
  simp only [query, queryG, dfs, searchN]
  by_cases hg : evalAtom st.data goal = true
  · simp [hg]
  · simp only [hg]
    cases h with
    | inl h => exact absurd h hg
    | inr h =>
      obtain ⟨i, r, hi, hk, hc, hok, ha⟩ := h
      -- generalise over the position of `i` in the candidate list and the solution counter
      suffices H : ∀ (cands : List Nat) (ns : Nat), i ∈ cands →
          (tryCands rbCode ⟨kb, 1, subCands⟩ true (searchN rbCode ⟨kb, 1, subCands⟩ maxDepth false) goal cands false
            (st, ns)).1 = true from by
        have := H topCands 0 hi
        simpa using this
      intro cands
      induction cands with
      | nil => intro ns hm; cases hm
      | cons j rest ih =>
        intro ns hm
        have hrec := (searchN_good ⟨kb, 1, subCands⟩ st.data maxDepth).1 false
        have hstep := candStep_good ⟨kb, 1, subCands⟩ true st.data _ hrec goal j false st ns (fun _ => rfl)
        simp only [tryCands]
        cases hcs : candStep ⟨kb, 1, subCands⟩ true (searchN rbCode ⟨kb, 1, subCands⟩ maxDepth false) goal j false st ns with
        | ret res =>
          -- with max_solutions = 1 a returning candidate always returns `(true, …)`
          exact candStep_ret_true hcs
        | cont found' stX ns' =>
          rw [hcs] at hstep
          obtain ⟨he, hf'⟩ := hstep
          have hrb : rbCode st stX = st := eff_rollback he
          have hf0 : found' = false := hf' rfl
          simp only [hrb, hf0]
          by_cases hji : j = i
          · -- the distinguished candidate cannot fall through: its rule fires and the goal check succeeds
            subst hji
            obtain ⟨res, hres⟩ := candStep_fires ⟨kb, 1, subCands⟩ true
              (searchN rbCode ⟨kb, 1, subCands⟩ maxDepth false) goal j false st ns r rfl hk hc hok ha
            rw [hres] at hcs; cases hcs
          · have : i ∈ rest := by
              cases hm with
              | head => exact absurd rfl hji
              | tail _ h => exact h
            exact ih ns' this

/-! Non-vacuity: a two-level chain with a wrong-value rule and a cycle; the DFS proves the goal,
the facts handed back contain the derived intermediate fact, and the failing variant restores. -/
def exKb : List Rule :=
  [ ⟨.atom ⟨6, .eq, .num 1⟩, [(0, .bool true)], []⟩,              -- R0: X == 1 ⇒ A := true
    ⟨.atom ⟨0, .eq, .bool true⟩, [(5, .bool false)], []⟩,          -- R1: A == true ⇒ G := false (wrong value)
    ⟨.and (.atom ⟨0, .eq, .bool true⟩) (.atom ⟨6, .eq, .num 1⟩), [(5, .bool true)], []⟩,  -- R2
    ⟨.atom ⟨5, .eq, .bool true⟩, [(0, .bool true)], []⟩ ]           -- R3: cycle G ⇒ A
def exSub (a : Atom) : List Nat := if a.field = 0 then [0, 3] else if a.field = 5 then [1, 2] else []

example : (query exKb .dfs 3 1 exSub cexGoal [1, 2] cexStore).provable = true := by decide
example : (query exKb .dfs 3 1 exSub cexGoal [1, 2] cexStore).store.data 0 = some (.bool true) := by decide
example : (query exKb .dfs 3 1 exSub cexGoal [1, 2] cexStore).store.frames = [] := by decide
-- depth gate: with max_depth 0 the sub-goal `A == true` cannot be searched
example : (query exKb .dfs 0 1 exSub cexGoal [1, 2] cexStore).provable = false := by decide
-- F-C09 witness (R0, R1 only): not provable after the fix, and the store is untouched
example : (query (exKb.take 2) .dfs 3 1 exSub cexGoal [1] cexStore).provable = false := by decide
example : (query (exKb.take 2) .dfs 3 1 exSub cexGoal [1] cexStore).store.data 0 = none := by decide

end C09
