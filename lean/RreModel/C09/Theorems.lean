import RreModel.C09.Lemmas
/-
C09 — property theorems for the backward-chaining search model (only; lemmas in Lemmas.lean).

"If a query is reported provable, the goal comparison is true in the facts handed back and those
facts are forward-reachable from the initial facts; under DFS a goal with a bounded derivation is
reported provable."  Every statement quantifies over every knowledge base (any number of rules,
And/Or condition trees, any literal assignments), every initial store with any enclosing undo
frames, every goal, every `max_depth`, and — because the top-level candidate order comes from a
`HashSet` and the sub-goal candidates from a substring heuristic — over EVERY candidate order
`topCands` and EVERY sub-goal candidate function `subCands`.
-/
namespace C09
open C10

/-- **Every store the search hands back is forward-reachable** (all three strategies, every
`max_solutions`): it is obtained from the initial facts by firing rules of the KB, each with its
condition true in the store it fired on; everything else was rolled back. -/
theorem search_facts_reachable (kb : List Rule) (strategy : Strategy) (maxDepth maxSol : Nat)
    (subCands : Atom → List Nat) (goal : Atom) (topCands : List Nat) (st : Store) :
    Reach kb st.data (query kb strategy maxDepth maxSol subCands goal topCands st).store.data := by
  cases strategy with
  | dfs =>
    exact ((searchN_good ⟨kb, maxSol, subCands⟩ st.data (maxDepth + 1)).1 true goal topCands (st, 0)).reach .refl
  | bfs =>
    simp only [query, queryG, bfs]
    split
    · rw [data_commit]; exact .refl
    · have h := bfsLoop_good kb st.data goal topCands (gstep st .begin)
      split
      · rw [data_commit]; exact h.2.1 .refl
      · have : rbCode st (bfsLoop kb goal topCands (gstep st .begin)).2 = st := eff_rollback h.1
        simp only [this]; exact .refl
  | iterative =>
    simp only [query, queryG]
    split
    · exact .refl
    · exact ((searchN_good ⟨kb, 1, subCands⟩ st.data (0 + 1)).1 true goal topCands (st, 0)).reach .refl

/-- **A `provable` answer is guarded by a successful goal check on the store handed back**:
BFS and iterative for every `max_solutions`, DFS for `max_solutions = 1`. -/
theorem provable_goal_holds (kb : List Rule) (strategy : Strategy) (maxDepth maxSol : Nat)
    (subCands : Atom → List Nat) (goal : Atom) (topCands : List Nat) (st : Store)
    (hms : maxSol = 1 ∨ strategy ≠ .dfs)
    (hp : (query kb strategy maxDepth maxSol subCands goal topCands st).provable = true) :
    evalAtom (query kb strategy maxDepth maxSol subCands goal topCands st).store.data goal = true := by
  cases strategy with
  | dfs =>
    have h1 : maxSol = 1 := by cases hms with | inl h => exact h | inr h => exact absurd rfl h
    exact ((searchN_good ⟨kb, maxSol, subCands⟩ st.data (maxDepth + 1)).1 true goal topCands (st, 0)).holds h1 hp
  | bfs =>
    simp only [query, queryG, bfs] at hp ⊢
    split
    · rename_i hg; rw [data_commit]; exact hg
    · rename_i hg
      simp only [hg] at hp
      have h := bfsLoop_good kb st.data goal topCands (gstep st .begin)
      split
      · rename_i hb; rw [data_commit]; exact h.2.2 hb
      · rename_i hb; simp [hb] at hp
  | iterative =>
    simp only [query, queryG] at hp ⊢
    split
    · rename_i he; simp [he] at hp
    · rename_i he
      simp only [he] at hp
      exact ((searchN_good ⟨kb, 1, subCands⟩ st.data (0 + 1)).1 true goal topCands (st, 0)).holds rfl hp

/-- full soundness statement (every strategy, every `max_solutions`) -/
def query_sound_full : Prop :=
  ∀ (kb : List Rule) (strategy : Strategy) (maxDepth maxSol : Nat) (subCands : Atom → List Nat)
    (goal : Atom) (topCands : List Nat) (st : Store),
    let o := query kb strategy maxDepth maxSol subCands goal topCands st
    Reach kb st.data o.store.data ∧ (o.provable = true → evalAtom o.store.data goal = true)

/-- **Soundness**, proved for BFS / iterative with any `max_solutions` and DFS with
`max_solutions = 1` (the default). -/
theorem query_sound_partial (kb : List Rule) (strategy : Strategy) (maxDepth maxSol : Nat)
    (subCands : Atom → List Nat) (goal : Atom) (topCands : List Nat) (st : Store)
    (hms : maxSol = 1 ∨ strategy ≠ .dfs) :
    let o := query kb strategy maxDepth maxSol subCands goal topCands st
    Reach kb st.data o.store.data ∧ (o.provable = true → evalAtom o.store.data goal = true) :=
  ⟨search_facts_reachable kb strategy maxDepth maxSol subCands goal topCands st,
   provable_goal_holds kb strategy maxDepth maxSol subCands goal topCands st hms⟩

/-- witness for the `max_solutions > 1` gap (finding F-C09c): one rule `X == 1 ⇒ G := true`, query
`G == true`, `max_solutions = 3`: the only solution is rolled back while the search looks for two
more, the query is still reported provable, and `G` is absent from the facts handed back. -/
def cexKb : List Rule := [⟨.atom ⟨6, .eq, .num 1⟩, [(5, .bool true)]⟩]
def cexStore : Store := ⟨fun k => if k = 6 then some (.num 1) else none, []⟩
def cexGoal : Atom := ⟨5, .eq, .bool true⟩

theorem query_sound_counterexample : ¬ query_sound_full := by
  intro h
  have h2 := (h cexKb .dfs 3 3 (fun _ => [0]) cexGoal [0] cexStore).2
  revert h2
  decide

/-- the driver's fast search (saved store instead of `rollback_undo_frame`) is the model's search -/
theorem query_eq_fast (kb : List Rule) (strategy : Strategy) (maxDepth maxSol : Nat)
    (subCands : Atom → List Nat) (goal : Atom) (topCands : List Nat) (st : Store) :
    query kb strategy maxDepth maxSol subCands goal topCands st =
      queryFast kb strategy maxDepth maxSol subCands goal topCands st := by
  cases strategy with
  | dfs =>
    have h : dfs rbCode ⟨kb, maxSol, subCands⟩ maxDepth goal topCands st =
        dfs rbSaved ⟨kb, maxSol, subCands⟩ maxDepth goal topCands st := by
      simp only [dfs, (searchN_good ⟨kb, maxSol, subCands⟩ st.data (maxDepth + 1)).2]
    simp only [query, queryFast, queryG, h]
  | bfs =>
    simp only [query, queryFast, queryG, bfs]
    split
    · rfl
    · split
      · rfl
      · have h := bfsLoop_good kb st.data goal topCands (gstep st .begin)
        have : rbCode st (bfsLoop kb goal topCands (gstep st .begin)).2 = st := eff_rollback h.1
        simp only [this, rbSaved]
  | iterative =>
    have h : dfs rbCode ⟨kb, 1, subCands⟩ 0 goal topCands st =
        dfs rbSaved ⟨kb, 1, subCands⟩ 0 goal topCands st := by
      simp only [dfs, (searchN_good ⟨kb, 1, subCands⟩ st.data (0 + 1)).2]
    simp only [query, queryFast, queryG, h]

/-! ### bounded completeness (DFS) -/

/-- full statement: on a consistent-Horn knowledge base (conjunctive equality conditions, one
value per field across rule actions and initial facts, literals that survive the goal-pattern
round trip), with candidate lists that contain every rule concluding the (sub-)goal's field, a
goal derivable with sub-goal nesting ≤ `max_depth` (`derivableIn`, the oracle's reference
computation) is reported provable by the default DFS. -/
def dfs_complete_full : Prop :=
  ∀ (kb : List Rule) (maxDepth : Nat) (subCands : Atom → List Nat) (goal : Atom) (topCands : List Nat)
    (before : Facts) (fr : List (Frame (Option Val))),
    isHorn kb before = true → goal.op = .eq →
    (∀ r ∈ kb, ∀ a ∈ condAtoms r.cond, reparse a = a) →
    (∀ i r, kb[i]? = some r → concludes r goal.field goal.val = true → i ∈ topCands) →
    (∀ a i r, kb[i]? = some r → concludes r a.field a.val = true → i ∈ subCands a) →
    derivableIn kb (dataOf before) maxDepth goal = true →
    (query kb .dfs maxDepth 1 subCands goal topCands ⟨dataOf before, fr⟩).provable = true

/-- **Proved part**: derivations of nesting 0, on ARBITRARY knowledge bases (no Horn restriction):
if the goal already holds, or some candidate rule whose condition is true in the initial facts
makes the goal comparison true, the DFS (default `max_solutions = 1`, any `max_depth`, any
candidate order, whatever the other candidates do before it) reports the goal provable.
Deeper derivations are covered on the implementation by oracle (iv). -/
theorem dfs_complete_partial (kb : List Rule) (maxDepth : Nat) (subCands : Atom → List Nat)
    (goal : Atom) (topCands : List Nat) (st : Store)
    (h : evalAtom st.data goal = true ∨
      ∃ i r, i ∈ topCands ∧ kb[i]? = some r ∧ evalCond st.data r.cond = true ∧
        evalAtom (applyActsData r.acts st.data) goal = true) :
    (query kb .dfs maxDepth 1 subCands goal topCands st).provable = true := by
  simp only [query, queryG, dfs, searchN]
  by_cases hg : evalAtom st.data goal = true
  · simp [hg]
  · simp only [hg]
    cases h with
    | inl h => exact absurd h hg
    | inr h =>
      obtain ⟨i, r, hi, hk, hc, ha⟩ := h
      -- generalise over the position of `i` in the candidate list and the solution counter
      suffices H : ∀ (cands : List Nat) (ns : Nat), i ∈ cands →
          (tryCands rbCode ⟨kb, 1, subCands⟩ true (searchN rbCode ⟨kb, 1, subCands⟩ maxDepth false) goal cands false
            (st, ns)).1 = true from by
        have := H topCands 0 hi
        simpa using this
      intro cands
      induction cands with
      | nil => intro ns hm; cases hm
      | cons j rest ih =>
        intro ns hm
        have hrec := (searchN_good ⟨kb, 1, subCands⟩ st.data maxDepth).1 false
        have hstep := candStep_good ⟨kb, 1, subCands⟩ true st.data _ hrec goal j false st ns (fun _ => rfl)
        simp only [tryCands]
        cases hcs : candStep ⟨kb, 1, subCands⟩ true (searchN rbCode ⟨kb, 1, subCands⟩ maxDepth false) goal j false st ns with
        | ret res =>
          -- with max_solutions = 1 a returning candidate always returns `(true, …)`
          exact candStep_ret_true hcs
        | cont found' stX ns' =>
          rw [hcs] at hstep
          obtain ⟨he, hf'⟩ := hstep
          have hrb : rbCode st stX = st := eff_rollback he
          have hf0 : found' = false := hf' rfl
          simp only [hrb, hf0]
          by_cases hji : j = i
          · -- the distinguished candidate cannot fall through: its rule fires and the goal check succeeds
            subst hji
            obtain ⟨res, hres⟩ := candStep_fires ⟨kb, 1, subCands⟩ true
              (searchN rbCode ⟨kb, 1, subCands⟩ maxDepth false) goal j false st ns r rfl hk hc ha
            rw [hres] at hcs; cases hcs
          · have : i ∈ rest := by
              cases hm with
              | head => exact absurd rfl hji
              | tail _ h => exact h
            exact ih ns' this

/-! Non-vacuity: a two-level chain with a wrong-value rule and a cycle; the DFS proves the goal,
the facts handed back contain the derived intermediate fact, and the failing variant restores. -/
def exKb : List Rule :=
  [ ⟨.atom ⟨6, .eq, .num 1⟩, [(0, .bool true)]⟩,              -- R0: X == 1 ⇒ A := true
    ⟨.atom ⟨0, .eq, .bool true⟩, [(5, .bool false)]⟩,          -- R1: A == true ⇒ G := false (wrong value)
    ⟨.and (.atom ⟨0, .eq, .bool true⟩) (.atom ⟨6, .eq, .num 1⟩), [(5, .bool true)]⟩,  -- R2
    ⟨.atom ⟨5, .eq, .bool true⟩, [(0, .bool true)]⟩ ]           -- R3: cycle G ⇒ A
def exSub (a : Atom) : List Nat := if a.field = 0 then [0, 3] else if a.field = 5 then [1, 2] else []

example : (query exKb .dfs 3 1 exSub cexGoal [1, 2] cexStore).provable = true := by decide
example : (query exKb .dfs 3 1 exSub cexGoal [1, 2] cexStore).store.data 0 = some (.bool true) := by decide
example : (query exKb .dfs 3 1 exSub cexGoal [1, 2] cexStore).store.frames = [] := by decide
-- depth gate: with max_depth 0 the sub-goal `A == true` cannot be searched
example : (query exKb .dfs 0 1 exSub cexGoal [1, 2] cexStore).provable = false := by decide
-- F-C09 witness (R0, R1 only): not provable after the fix, and the store is untouched
example : (query (exKb.take 2) .dfs 3 1 exSub cexGoal [1] cexStore).provable = false := by decide
example : (query (exKb.take 2) .dfs 3 1 exSub cexGoal [1] cexStore).store.data 0 = none := by decide

end C09
