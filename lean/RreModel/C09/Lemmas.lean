import RreModel.C09.Spec
import RreModel.C10.Lemmas
/-
C09 / C10-B — helper lemmas for the search model.

`Eff s s'`: the search moved the store from `s` to `s'` by a *well-bracketed* sequence of store
operations (every frame it opened it also closed, by commit or rollback).  All of C10's frame
lemmas then apply: a `rollback` after such an effect inside a fresh frame gives back the saved
store exactly (`eff_rollback`), a `commit` yields again a well-bracketed effect (`eff_commit`).
`Reach`: forward reachability of fact stores under the evaluator of the backward engine.
-/
namespace C09
open C10

def Eff (s s' : Store) : Prop := ∃ ops : List (GOp (Option Val)), GBal ops ∧ grun s ops = s'

theorem Eff.refl (s : Store) : Eff s s := ⟨[], .nil, rfl⟩

theorem Eff.trans {a b c : Store} : Eff a b → Eff b c → Eff a c
  | ⟨o1, h1, e1⟩, ⟨o2, h2, e2⟩ => ⟨o1 ++ o2, h1.append h2, by rw [grun_append, e1, e2]⟩

theorem Eff.modify (s : Store) (k : Nat) (f : Option Val → Option Val) : Eff s (gstep s (.modify k f)) :=
  ⟨[.modify k f], .modify k f .nil, rfl⟩

theorem eff_applyActs (acts : List (Nat × Val)) (s : Store) : Eff s (applyActs acts s) := by
  induction acts generalizing s with
  | nil => exact Eff.refl s
  | cons a rest ih =>
    obtain ⟨f, v⟩ := a
    simp only [applyActs]
    exact (Eff.modify s f _).trans (ih _)

theorem eff_applyWrites (ws : List (Nat × Option Val)) (s : Store) : Eff s (applyWrites ws s) := by
  induction ws generalizing s with
  | nil => exact Eff.refl s
  | cons w rest ih =>
    obtain ⟨f, v⟩ := w
    simp only [applyWrites]
    exact (Eff.modify s f _).trans (ih _)

theorem eff_applyMore (acts : List Act) (s : Store) : Eff s (applyMore acts s).2 := by
  induction acts generalizing s with
  | nil => exact Eff.refl s
  | cons a rest ih =>
    simp only [applyMore]
    split
    · exact Eff.refl s
    · exact (eff_applyWrites _ s).trans (ih _)

/-- firing a rule — all of its actions, or those before the first failing one — is a
well-bracketed sequence of recording writes -/
theorem eff_fire (r : Rule) (s : Store) : Eff s (fire r s).2 :=
  (eff_applyActs r.acts s).trans (eff_applyMore r.more _)

/-- C10's frame theorem, in the form the search uses it -/
theorem eff_rollback {s s2 : Store} (h : Eff (gstep s .begin) s2) : gstep s2 .rollback = s := by
  obtain ⟨ops, hb, he⟩ := h
  have := grollback_restores ops hb s
  rw [grun_cons, grun_append, he] at this
  simpa [grun] using this

theorem eff_commit {s s2 : Store} (h : Eff (gstep s .begin) s2) : Eff s (gstep s2 .commit) := by
  obtain ⟨ops, hb, he⟩ := h
  refine ⟨.begin :: (ops ++ [.commit]), by simpa using GBal.commit hb GBal.nil, ?_⟩
  rw [grun_cons, grun_append, he]; rfl

/-! frame depth is preserved by well-bracketed effects -/

theorem record_frames_length (k : Nat) (s : Store) : (record k s).frames.length = s.frames.length := by
  unfold record
  split
  · rfl
  · split <;> simp_all

theorem record_data (k : Nat) (s : Store) : (record k s).data = s.data := by
  unfold record
  split
  · rfl
  · split <;> rfl

theorem gstep_modify_length (s : Store) (k : Nat) (f : Option Val → Option Val) :
    (gstep s (.modify k f)).frames.length = s.frames.length := by
  simp [gstep, record_frames_length]

theorem gstep_commit_length (s : Store) : (gstep s .commit).frames.length = s.frames.length - 1 := by
  obtain ⟨d, fr⟩ := s
  match fr with
  | [] => rfl
  | [_] => rfl
  | _ :: _ :: _ => simp [gstep]

theorem gstep_rollback_length (s : Store) : (gstep s .rollback).frames.length = s.frames.length - 1 := by
  obtain ⟨d, fr⟩ := s
  match fr with
  | [] => rfl
  | _ :: _ => simp [gstep]

theorem gbal_length {ops : List (GOp (Option Val))} (hb : GBal ops) :
    ∀ s : Store, (grun s ops).frames.length = s.frames.length := by
  induction hb with
  | nil => intro s; rfl
  | modify k f _ ih => intro s; rw [grun_cons, ih, gstep_modify_length]
  | commit _ _ iha ihb =>
    intro s
    rw [grun_cons, grun_append, grun_cons, ihb, gstep_commit_length, iha]
    simp [gstep]
  | rollback _ _ iha ihb =>
    intro s
    rw [grun_cons, grun_append, grun_cons, ihb, gstep_rollback_length, iha]
    simp [gstep]

theorem eff_length {s s' : Store} (h : Eff s s') : s'.frames.length = s.frames.length := by
  obtain ⟨ops, hb, he⟩ := h
  rw [← he]; exact gbal_length hb s

/-! data-level facts -/

theorem data_commit (s : Store) : (gstep s .commit).data = s.data := by
  obtain ⟨d, fr⟩ := s
  match fr with
  | [] => rfl
  | [_] => rfl
  | _ :: _ :: _ => rfl

theorem data_modify_const (s : Store) (f : Nat) (v : Val) :
    (gstep s (.modify f (fun _ => some v))).data = upd s.data f (some v) := by
  simp [gstep, record_data]

theorem data_modify_const' (s : Store) (f : Nat) (v : Option Val) :
    (gstep s (.modify f (fun _ => v))).data = upd s.data f v := by
  simp [gstep, record_data]

theorem applyActs_data (acts : List (Nat × Val)) (s : Store) :
    (applyActs acts s).data = applyActsData acts s.data := by
  induction acts generalizing s with
  | nil => rfl
  | cons a rest ih =>
    obtain ⟨f, v⟩ := a
    simp only [applyActs, applyActsData]
    rw [ih, data_modify_const]

theorem applyWrites_data (ws : List (Nat × Option Val)) (s : Store) :
    (applyWrites ws s).data = applyWritesData ws s.data := by
  induction ws generalizing s with
  | nil => rfl
  | cons w rest ih =>
    obtain ⟨f, v⟩ := w
    simp only [applyWrites, applyWritesData]
    rw [ih, data_modify_const']

theorem applyMore_data (acts : List Act) (s : Store) :
    (applyMore acts s).1 = (applyMoreData acts s.data).1 ∧
    (applyMore acts s).2.data = (applyMoreData acts s.data).2 := by
  induction acts generalizing s with
  | nil => exact ⟨rfl, rfl⟩
  | cons a rest ih =>
    simp only [applyMore, applyMoreData]
    split
    · exact ⟨rfl, rfl⟩
    · rw [← applyWrites_data]; exact ih _

theorem fire_data (r : Rule) (s : Store) :
    (fire r s).1 = (fireData r s.data).1 ∧ (fire r s).2.data = (fireData r s.data).2 := by
  have h := applyMore_data r.more (applyActs r.acts s)
  rw [applyActs_data] at h
  exact h

/-- a rule without further actions fires by its `Set` actions alone and never fails -/
theorem fire_plain {r : Rule} (h : r.more = []) (s : Store) : fire r s = (true, applyActs r.acts s) := by
  simp [fire, h, applyMore]

theorem fireData_plain {r : Rule} (h : r.more = []) (d : Data) : fireData r d = (true, applyActsData r.acts d) := by
  simp [fireData, h, applyMoreData]

/-- forward reachability: the stores obtainable from `d0` by firing rules of `kb`, each with its
condition true (under the backward engine's evaluator) in the store it fires on.  (A rule one of
whose actions fails stops there: `fireData` is what it wrote up to that point; the depth-first
search always rolls such a firing back, the breadth-first search keeps it.) -/
inductive Reach (kb : List Rule) (d0 : Data) : Data → Prop
  | refl : Reach kb d0 d0
  | fire {d : Data} {r : Rule} : Reach kb d0 d → r ∈ kb → evalCond d r.cond = true →
      Reach kb d0 (fireData r d).2

/-! ### what every (sub-)search result satisfies -/

/-- a search of goal `goal` started on store `st` returned `r` -/
structure Good (env : Env) (d0 : Data) (goal : Atom) (st : Store) (r : Bool × SS) : Prop where
  eff : Eff st r.2.1
  restore : r.1 = false → r.2.1 = st
  reach : Reach env.kb d0 st.data → Reach env.kb d0 r.2.1.data
  holds : env.maxSol = 1 → r.1 = true → evalAtom r.2.1.data goal = true

/-- proving a condition group: no restoration promise (the enclosing candidate frame undoes it) -/
structure Good2 (env : Env) (d0 : Data) (st : Store) (r : Bool × SS) : Prop where
  eff : Eff st r.2.1
  reach : Reach env.kb d0 st.data → Reach env.kb d0 r.2.1.data

theorem proveCond_good (env : Env) (d0 : Data) (rec : Rec)
    (hrec : ∀ g c s, Good env d0 g s.1 (rec g c s)) :
    ∀ (c : Cond) (s : SS), Good2 env d0 s.1 (proveCond env rec c s) := by
  intro c
  induction c with
  | atom a =>
    intro s
    simp only [proveCond]
    split
    · exact ⟨Eff.refl _, id⟩
    · exact ⟨(hrec _ _ s).eff, (hrec _ _ s).reach⟩
  | and l r ihl ihr =>
    intro s
    simp only [proveCond]
    split
    · have h1 := ihl s
      have h2 := ihr (proveCond env rec l s).2
      exact ⟨h1.eff.trans h2.eff, fun h => h2.reach (h1.reach h)⟩
    · exact ⟨(ihl s).eff, (ihl s).reach⟩
  | or l r ihl ihr =>
    intro s
    simp only [proveCond]
    split
    · exact ⟨(ihl s).eff, (ihl s).reach⟩
    · have h1 := ihl s
      have h2 := ihr (proveCond env rec l s).2
      exact ⟨h1.eff.trans h2.eff, fun h => h2.reach (h1.reach h)⟩

theorem mem_of_getElem? {α} {l : List α} {i : Nat} {a : α} (h : l[i]? = some a) : a ∈ l :=
  List.mem_of_getElem? h

/-- a candidate whose frame is committed after the rule fired and the goal check succeeded -/
theorem good_commit (env : Env) (d0 : Data) (goal : Atom) (st stA : Store) (r : Rule) (ns : Nat)
    (hmem : r ∈ env.kb) (heff : Eff (gstep st .begin) stA)
    (hreach : Reach env.kb d0 st.data → Reach env.kb d0 stA.data)
    (hc : evalCond stA.data r.cond = true)
    (hg : evalAtom (fire r stA).2.data goal = true) :
    Good env d0 goal st (true, (gstep (fire r stA).2 .commit, ns)) where
  eff := eff_commit (heff.trans (eff_fire _ _))
  restore := by simp
  reach := by
    intro h
    simp only [data_commit, (fire_data r stA).2]
    exact .fire (hreach h) hmem hc
  holds := by
    intro _ _
    simpa [data_commit] using hg

end C09

namespace C09
open C10

/-- what one iteration of the candidate loop guarantees -/
def CandGood (env : Env) (d0 : Data) (goal : Atom) (st : Store) : CandOut → Prop
  | .ret r => Good env d0 goal st r
  | .cont found' stX _ =>
    Eff (gstep st .begin) stX ∧ (env.maxSol = 1 → found' = false)

theorem execOut_good (env : Env) (top : Bool) (d0 : Data) (goal : Atom) (found : Bool) (st stA : Store) (r : Rule)
    (ns : Nat) (hf : env.maxSol = 1 → found = false)
    (hmem : r ∈ env.kb) (heff : Eff (gstep st .begin) stA)
    (hreach : Reach env.kb d0 st.data → Reach env.kb d0 stA.data)
    (hc : evalCond stA.data r.cond = true) :
    CandGood env d0 goal st (execOut env top goal found stA r ns) := by
  unfold execOut
  by_cases hok : (fire r stA).1 = true
  · simp only [hok, Bool.not_true, Bool.false_eq_true, if_false]
    by_cases hg : evalAtom (fire r stA).2.data goal = true
    · simp only [hg, if_true]
      by_cases hm : (env.maxSol == 1 || !top || decide (ns + 1 ≥ env.maxSol)) = true
      · simp only [hm, if_true]
        exact good_commit env d0 goal st stA r (ns + 1) hmem heff hreach hc hg
      · simp only [hm]
        refine ⟨heff.trans (eff_fire _ _), ?_⟩
        intro h1
        simp [h1] at hm
    · simp only [hg]
      exact ⟨heff.trans (eff_fire _ _), hf⟩
  · simp only [hok, Bool.not_false, if_true]
    exact ⟨heff.trans (eff_fire _ _), hf⟩

theorem candStep_good (env : Env) (top : Bool) (d0 : Data) (rec : Rec)
    (hrec : ∀ g c s, Good env d0 g s.1 (rec g c s)) (goal : Atom) (i : Nat) (found : Bool)
    (st : Store) (ns : Nat) (hf : env.maxSol = 1 → found = false) :
    CandGood env d0 goal st (candStep env top rec goal i found st ns) := by
  unfold candStep
  cases hk : env.kb[i]? with
  | none => exact ⟨Eff.refl _, hf⟩
  | some r =>
    have hmem : r ∈ env.kb := List.mem_of_getElem? hk
    simp only
    by_cases hc : evalCond (gstep st .begin).data r.cond = true
    · simp only [hc, if_true]
      exact execOut_good env top d0 goal found st _ r ns hf hmem (Eff.refl _) (fun h => h) hc
    · simp only [hc]
      have hp := proveCond_good env d0 rec hrec r.cond (gstep st .begin, ns)
      by_cases h2 : ((proveCond env rec r.cond (gstep st .begin, ns)).1 &&
          evalCond (proveCond env rec r.cond (gstep st .begin, ns)).2.1.data r.cond) = true
      · simp only [h2, if_true]
        have hc2 : evalCond (proveCond env rec r.cond (gstep st .begin, ns)).2.1.data r.cond = true := by
          simp only [Bool.and_eq_true] at h2; exact h2.2
        exact execOut_good env top d0 goal found st _ r _ hf hmem hp.eff (fun h => hp.reach h) hc2
      · simp only [h2]
        exact ⟨hp.eff, hf⟩

theorem tryCands_good (env : Env) (top : Bool) (d0 : Data) (rec : Rec)
    (hrec : ∀ g c s, Good env d0 g s.1 (rec g c s)) (goal : Atom) :
    ∀ (cands : List Nat) (found : Bool) (st : Store) (ns : Nat), (env.maxSol = 1 → found = false) →
      Good env d0 goal st (tryCands rbCode env top rec goal cands found (st, ns)) ∧
      tryCands rbCode env top rec goal cands found (st, ns) =
        tryCands rbSaved env top rec goal cands found (st, ns) := by
  intro cands
  induction cands with
  | nil =>
    intro found st ns hf
    refine ⟨⟨Eff.refl _, fun _ => rfl, id, ?_⟩, rfl⟩
    intro h1 h2
    simp only [tryCands] at h2
    rw [hf h1] at h2; cases h2
  | cons i rest ih =>
    intro found st ns hf
    have hstep := candStep_good env top d0 rec hrec goal i found st ns hf
    simp only [tryCands]
    cases hcs : candStep env top rec goal i found st ns with
    | ret r =>
      rw [hcs] at hstep
      exact ⟨hstep, rfl⟩
    | cont found' stX ns' =>
      rw [hcs] at hstep
      obtain ⟨he, hf'⟩ := hstep
      have hrb : rbCode st stX = st := eff_rollback he
      simp only [hrb, rbSaved]
      exact ih found' st ns' hf'

theorem searchN_good (env : Env) (d0 : Data) :
    ∀ n : Nat, (∀ top g c (s : SS), Good env d0 g s.1 (searchN rbCode env n top g c s)) ∧
      searchN rbCode env n = searchN rbSaved env n := by
  intro n
  induction n with
  | zero =>
    refine ⟨?_, ?_⟩
    · intro top g c s
      exact ⟨Eff.refl _, fun _ => rfl, id, by intro _ h; simp [searchN] at h⟩
    · funext top; rfl
  | succ n ih =>
    obtain ⟨ihg, iheq⟩ := ih
    refine ⟨?_, ?_⟩
    · intro top g c s
      obtain ⟨st, ns⟩ := s
      simp only [searchN]
      split
      · rename_i hg
        exact ⟨Eff.refl _, fun h => by simp at h, id, fun _ _ => hg⟩
      · exact (tryCands_good env top d0 _ (ihg false) g c false st ns (fun _ => rfl)).1
    · funext top g c s
      obtain ⟨st, ns⟩ := s
      simp only [searchN]
      split
      · rfl
      · rw [← iheq]
        exact (tryCands_good env top d0 _ (ihg false) g c false st ns (fun _ => rfl)).2

/-! ### breadth-first loop -/

theorem bfsLoop_good (kb : List Rule) (d0 : Data) (goal : Atom) :
    ∀ (cands : List Nat) (st : Store),
      Eff st (bfsLoop kb goal cands st).2 ∧
      (Reach kb d0 st.data → Reach kb d0 (bfsLoop kb goal cands st).2.data) ∧
      ((bfsLoop kb goal cands st).1 = true → evalAtom (bfsLoop kb goal cands st).2.data goal = true) := by
  intro cands
  induction cands with
  | nil => intro st; exact ⟨Eff.refl _, id, by simp [bfsLoop]⟩
  | cons i rest ih =>
    intro st
    simp only [bfsLoop]
    cases hk : kb[i]? with
    | none => exact ih st
    | some r =>
      have hmem : r ∈ kb := List.mem_of_getElem? hk
      simp only
      by_cases hc : evalCond st.data r.cond = true
      · simp only [hc, if_true]
        have hreach : Reach kb d0 st.data → Reach kb d0 (fire r st).2.data := by
          intro h; rw [(fire_data r st).2]; exact .fire h hmem hc
        by_cases hg : ((fire r st).1 && evalAtom (fire r st).2.data goal) = true
        · simp only [hg, if_true]
          refine ⟨eff_fire _ _, hreach, fun _ => ?_⟩
          simp only [Bool.and_eq_true] at hg; exact hg.2
        · simp only [hg]
          have h := ih (fire r st).2
          exact ⟨(eff_fire _ _).trans h.1, fun hr => h.2.1 (hreach hr), h.2.2⟩
      · simp only [hc]
        exact ih st

theorem execOut_ret_true {env : Env} {top : Bool} {goal : Atom} {found : Bool} {stA : Store} {r : Rule} {ns : Nat}
    {res : Bool × SS} (h : execOut env top goal found stA r ns = .ret res) : res.1 = true := by
  simp only [execOut] at h
  split at h
  · cases h
  · split at h
    · split at h
      · cases h; rfl
      · cases h
    · cases h

theorem candStep_ret_true {env : Env} {top : Bool} {rec : Rec} {goal : Atom} {i : Nat} {found : Bool} {st : Store}
    {ns : Nat} {res : Bool × SS} (h : candStep env top rec goal i found st ns = .ret res) : res.1 = true := by
  simp only [candStep] at h
  split at h
  · cases h
  · split at h
    · exact execOut_ret_true h
    · split at h
      · exact execOut_ret_true h
      · cases h

theorem candStep_fires (env : Env) (top : Bool) (rec : Rec) (goal : Atom) (i : Nat) (found : Bool) (st : Store)
    (ns : Nat) (r : Rule) (hms : env.maxSol = 1) (hk : env.kb[i]? = some r)
    (hc : evalCond st.data r.cond = true) (hok : (fireData r st.data).1 = true)
    (ha : evalAtom (fireData r st.data).2 goal = true) :
    ∃ res, candStep env top rec goal i found st ns = .ret res := by
  have hd : (gstep st .begin).data = st.data := rfl
  have hok' : (fire r (gstep st .begin)).1 = true := by
    rw [(fire_data r _).1, hd]; exact hok
  have ha' : evalAtom (fire r (gstep st .begin)).2.data goal = true := by
    rw [(fire_data r _).2, hd]; exact ha
  simp only [candStep, hk, hd, hc, if_true, execOut, hok', ha', hms]
  exact ⟨_, rfl⟩

end C09
