import RreModel.C09.Model
import RreModel.C16.Model
/-
C09 — the candidate lists the backward search is started with, computed the way the code does.

* top level: `BackwardEngine::find_candidate_rules` (`src/backward/backward_engine.rs`) =
  `ConclusionIndex::find_candidates(&goal.pattern)` (`src/backward/conclusion_index.rs`; the index was
  built by `ConclusionIndex::from_rules(&kb.get_rules())` in `BackwardEngine::new` / `with_config` /
  `rebuild_index`) and, only when the index proposes nothing, the linear scan with
  `rule_could_prove_goal`.  The index itself is NOT modelled a second time: this file runs C16's model
  of it (`C16.cFromRules`, `C16.cFind`, `C16.extractField` — `RreModel/C16/Model.lean`, section Concl)
  on the rules of the C09 knowledge base, so C16's theorem `from_rules_complete` applies to it.
* sub-goals: `DepthFirstSearch::try_prove_single_condition` (`src/backward/search.rs`): the goal
  pattern is `condition_to_goal_pattern(condition)`, the candidates are the rules of
  `kb.get_rules()` (equal salience: insertion order) that pass `rule_could_prove_pattern`.

Both work on TEXT: the goal pattern `"<field> <op> <literal>"`, the field names of the actions and the
rule names.  The search model (`Model.lean`) numbers fields and rules; `Naming` gives the text back:
field `f` is the fact key `nm.field f`, the rule at position `i` of `kb.get_rules()` is registered
under the name `nm.rule i` (`goal.candidate_rules` holds names; `kb.get_rule(&name)` turns a name into
the rule again, so a candidate list of names is the list of positions carrying those names).

Rules of the model have no `enabled` flag: every rule of the knowledge base is enabled (`Rule::new`),
which is what `ConclusionIndex::add_rule` requires to index it.
-/
namespace C09

/-- the text of the tie: fact key of a field number, registered name of the rule at a position -/
structure Naming where
  field : Nat → String
  rule : Nat → String

/-- the rule names of the tie (harness/src/bin/c09.rs: `format!("R{}", i)`) -/
def ruleNameR (i : Nat) : String := "R" ++ toString i

/-- `str::contains(&str)` -/
def contains (s pat : String) : Bool := C16.isInfix pat.toList s.toList

-- `cmpStr`, `litStr` (how `condition_to_goal_pattern` prints operator and literal): `Model.lean`

/-- `condition_to_goal_pattern`: `format!("{} {} {}", field, op_str, value_str)`; the query text of
the tie has the same shape -/
def patternOf (nm : Naming) (a : Atom) : String :=
  nm.field a.field ++ " " ++ cmpStr a.op ++ " " ++ litStr a.val

/-- the rule's action list `rule.actions`, in order -/
def allActs (r : Rule) : List Act := r.acts.map (fun e => Act.set e.1 e.2) ++ r.more

/-- what `extract_conclusions` / `rule_could_prove_pattern` look at in an action: its kind and the
names in it (`MethodCall` methods of the tie: `setSpeed`, `getSpeed`; `Append` is none of the kinds
they distinguish) -/
def actKind (nm : Naming) : Act → C16.Act
  | .set f _ => .set (nm.field f)
  | .append _ _ => .other
  | .retract f => .retract (nm.field f)
  | .call f _ => .method (nm.field f) "setSpeed"
  | .get f _ => .method (nm.field f) "getSpeed"

/-- the rule at position `i`, as the index and the heuristics see it -/
def toCRule (nm : Naming) (i : Nat) (r : Rule) : C16.CRule :=
  ⟨nm.rule i, true, (allActs r).map (actKind nm)⟩

/-- `kb.get_rules()` from position `i` on -/
def crulesFrom (nm : Naming) : Nat → List Rule → List C16.CRule
  | _, [] => []
  | i, r :: rs => toCRule nm i r :: crulesFrom nm (i + 1) rs

/-- `rule_could_prove_pattern` (search.rs): a `Set` whose field, or a `MethodCall` whose object or
method, occurs somewhere in the pattern text -/
def couldProvePattern (pat : String) (r : C16.CRule) : Bool :=
  r.actions.any fun
    | .set f => contains pat f
    | .method o m => contains pat o || contains pat m
    | _ => false

/-- `rule_could_prove_goal` (backward_engine.rs): the same, after a look for the rule's name in the
pattern -/
def couldProveGoal (pat : String) (r : C16.CRule) : Bool :=
  contains pat r.name || couldProvePattern pat r

/-- the positions `i` of `kb.get_rules()` whose rule passes `p` (in order) -/
def positionsWhere (kb : List Rule) (p : Nat → Rule → Bool) : List Nat :=
  (List.range kb.length).filter fun i =>
    match kb[i]? with
    | some r => p i r
    | none => false

/-- **sub-goal candidates** (`try_prove_single_condition`): the loop over `kb.get_rules()` with
`rule_could_prove_pattern` on the pattern of the condition -/
def subCandidates (nm : Naming) (kb : List Rule) (a : Atom) : List Nat :=
  positionsWhere kb fun i r => couldProvePattern (patternOf nm a) (toCRule nm i r)

/-- `self.conclusion_index.find_candidates(&goal.pattern)` on the index built by `from_rules` from
`kb.get_rules()`, as positions (the code's list of names comes out of a `HashSet`: its order is
arbitrary — the search theorems quantify over every order) -/
def indexCandidates (nm : Naming) (kb : List Rule) (goal : Atom) : List Nat :=
  let names := C16.cFind (C16.cFromRules (crulesFrom nm 0 kb)) (patternOf nm goal)
  (List.range kb.length).filter fun i => decide (nm.rule i ∈ names)

/-- **top-level candidates** (`find_candidate_rules`): the index lookup; if it proposes nothing
(`goal.candidate_rules.is_empty()`), the scan of `kb.get_rules()` with `rule_could_prove_goal` -/
def topCandidates (nm : Naming) (kb : List Rule) (goal : Atom) : List Nat :=
  let viaIndex := indexCandidates nm kb goal
  if viaIndex.isEmpty then
    positionsWhere kb fun i r => couldProveGoal (patternOf nm goal) (toCRule nm i r)
  else viaIndex

end C09
