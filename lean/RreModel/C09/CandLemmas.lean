import RreModel.C09.Complete
import RreModel.C09.Candidates
import RreModel.C16.Theorems
/-
C09 — lemmas behind `topCandidates_covers` / `subCandidates_covers` (Theorems.lean): the goal
pattern's field is found again by `extract_field_from_goal`, the pattern contains the field it
starts with, and the rules of a knowledge base with unique names satisfy the hypothesis of C16's
`from_rules_complete`.  Core Lean only.
-/
namespace C09
open C16 (isInfix findSub trim trimL extractField extractFieldAux goalOps CRule COp cCurrent cFromRules cFind)

/-- What the completeness theorem needs of the NAME of the goal's field: it does not contain `==`
(`extract_field_from_goal` cuts the pattern at the first `==`) and `str::trim` leaves it unchanged
(the cut piece is trimmed).  Every field name that can be written in GRL (`[A-Za-z0-9_.]+`) is one. -/
def FieldOk (s : String) : Prop :=
  isInfix "==".toList s.toList = false ∧ trim s.toList = s.toList

instance (s : String) : Decidable (FieldOk s) := by unfold FieldOk; infer_instance

/-- `KnowledgeBase::add_rule` rejects a name that is already registered: the rules of
`kb.get_rules()` have pairwise different names -/
def RuleNamesUnique (nm : Naming) (kb : List Rule) : Prop :=
  ∀ i, i < kb.length → ∀ j, j < kb.length → nm.rule i = nm.rule j → i = j

instance (nm : Naming) (kb : List Rule) : Decidable (RuleNamesUnique nm kb) := by
  unfold RuleNamesUnique; infer_instance

theorem ruleNameR_inj {i j : Nat} (h : ruleNameR i = ruleNameR j) : i = j := by
  have h1 := congrArg String.toList h
  simp only [ruleNameR, String.toList_append, Nat.toString_eq_repr, Nat.toList_repr] at h1
  have h2 : Nat.toDigits 10 i = Nat.toDigits 10 j := List.append_cancel_left h1
  have h3 := congrArg (fun l => Nat.ofDigitChars 10 l 0) h2
  simpa using h3

/-! ### text -/

theorem isInfix_append_right (p rest : List Char) : isInfix p (p ++ rest) = true := by
  cases h : p ++ rest with
  | nil =>
    have hp : p = [] := (List.append_eq_nil_iff.mp h).1
    simp [isInfix, hp]
  | cons c cs =>
    simp only [isInfix, Bool.or_eq_true]
    left
    rw [← h]
    simp

/-- the pattern contains the field name it starts with -/
theorem contains_pattern_field (nm : Naming) (a : Atom) :
    contains (patternOf nm a) (nm.field a.field) = true := by
  simp only [contains, patternOf, String.toList_append, List.append_assoc]
  exact isInfix_append_right _ _

/-- the first `==` of `<name> == …` is the separator when the name contains none -/
theorem findSub_eqeq (xs rest : List Char) (i : Nat) (h : isInfix ['=', '='] xs = false) :
    findSub ['=', '='] (xs ++ ' ' :: '=' :: '=' :: rest) i = some (i + xs.length + 1) := by
  induction xs generalizing i with
  | nil => simp [findSub, List.isPrefixOf]
  | cons c cs ih =>
    simp only [isInfix, Bool.or_eq_false_iff] at h
    have hpre : List.isPrefixOf ['=', '='] (c :: (cs ++ ' ' :: '=' :: '=' :: rest)) = false := by
      cases cs with
      | nil => simp [List.isPrefixOf]
      | cons d ds => simpa [List.isPrefixOf] using h.1
    simp only [List.cons_append, findSub, hpre, Bool.false_eq_true, if_false]
    rw [ih (i + 1) h.2]
    simp only [List.length_cons]
    congr 1
    omega

theorem trimL_length_le (s : List Char) : (trimL s).length ≤ s.length := by
  induction s with
  | nil => simp [trimL]
  | cons c cs ih =>
    simp only [trimL]
    split
    · simp only [List.length_cons]; omega
    · exact Nat.le_refl _

theorem trim_length_le (s : List Char) : (trim s).length ≤ (trimL s).length := by
  simp only [trim, List.length_reverse]
  exact Nat.le_trans (trimL_length_le _) (by simp)

/-- a name that `trim` leaves alone still comes back after a blank was appended -/
theorem trim_append_blank (xs : List Char) (h : trim xs = xs) : trim (xs ++ [' ']) = xs := by
  cases xs with
  | nil => simp [trim, trimL]
  | cons c cs =>
    have hc : c.isWhitespace = false := by
      cases hw : c.isWhitespace with
      | false => rfl
      | true =>
        have h1 := trim_length_le (c :: cs)
        have h2 : trimL (c :: cs) = trimL cs := by simp [trimL, hw]
        have h3 := trimL_length_le cs
        rw [h, h2] at h1
        simp only [List.length_cons] at h1
        omega
    have e1 : trimL (c :: cs ++ [' ']) = c :: cs ++ [' '] := by simp [trimL, hc]
    have e2 : trimL (c :: cs) = c :: cs := by simp [trimL, hc]
    have hb : (' ' : Char).isWhitespace = true := by decide
    have e3 : trimL (' ' :: (c :: cs).reverse) = trimL (c :: cs).reverse := by
      simp only [trimL, hb, if_true]
    have h' : (trimL (c :: cs).reverse).reverse = c :: cs := by
      simpa only [trim, e2] using h
    simp only [trim, e1, List.reverse_append, List.reverse_cons, List.reverse_nil, List.nil_append,
      List.singleton_append]
    simp only [List.reverse_cons] at e3 h'
    rw [e3]
    exact h'

theorem take_length_succ (xs : List Char) (c : Char) (rest : List Char) :
    (xs ++ c :: rest).take (xs.length + 1) = xs ++ [c] := by
  induction xs with
  | nil => simp
  | cons x xs ih => simpa using ih

/-- **`extract_field_from_goal` finds the field of an equality pattern again** -/
theorem extractField_pattern (nm : Naming) (a : Atom) (hop : a.op = .eq) (hf : FieldOk (nm.field a.field)) :
    extractField (patternOf nm a) = nm.field a.field := by
  obtain ⟨h1, h2⟩ := hf
  have hs : (patternOf nm a).toList =
      (nm.field a.field).toList ++ ' ' :: '=' :: '=' :: (' ' :: (litStr a.val).toList) := by
    simp only [patternOf, hop, cmpStr, String.toList_append, List.append_assoc]
    rfl
  have hq : "==".toList = ['=', '='] := rfl
  rw [hq] at h1
  have hfind := findSub_eqeq (nm.field a.field).toList (' ' :: (litStr a.val).toList) 0 h1
  simp only [extractField, goalOps, extractFieldAux, hs, hq, hfind, Nat.zero_add]
  rw [take_length_succ, trim_append_blank _ h2, String.ofList_toList]

/-! ### the knowledge base as the index sees it -/

theorem mem_crulesFrom (nm : Naming) (kb : List Rule) (s i : Nat) (r : Rule) (h : kb[i]? = some r) :
    toCRule nm (s + i) r ∈ crulesFrom nm s kb := by
  induction kb generalizing s i with
  | nil => simp at h
  | cons r0 rs ih =>
    cases i with
    | zero =>
      simp only [List.getElem?_cons_zero, Option.some.injEq] at h
      subst h
      simp [crulesFrom]
    | succ i =>
      simp only [List.getElem?_cons_succ] at h
      have := ih (s + 1) i h
      simp only [crulesFrom, List.mem_cons]
      right
      have e : s + (i + 1) = s + 1 + i := by omega
      rw [e]
      exact this

theorem name_of_mem_crulesFrom (nm : Naming) (kb : List Rule) (s : Nat) (c : CRule)
    (h : c ∈ crulesFrom nm s kb) : ∃ j, s ≤ j ∧ j < s + kb.length ∧ c.name = nm.rule j := by
  induction kb generalizing s with
  | nil => simp [crulesFrom] at h
  | cons r0 rs ih =>
    simp only [crulesFrom, List.mem_cons] at h
    cases h with
    | inl h => exact ⟨s, Nat.le_refl _, by simp, by rw [h]; rfl⟩
    | inr h =>
      obtain ⟨j, h1, h2, h3⟩ := ih (s + 1) h
      exact ⟨j, by omega, by simp only [List.length_cons]; omega, h3⟩

theorem crulesFrom_names_nodup (nm : Naming) (kb : List Rule) (s : Nat)
    (hinj : ∀ i j, s ≤ i → i < s + kb.length → s ≤ j → j < s + kb.length → nm.rule i = nm.rule j → i = j) :
    ((crulesFrom nm s kb).map (·.name)).Nodup := by
  induction kb generalizing s with
  | nil => simp [crulesFrom]
  | cons r0 rs ih =>
    simp only [crulesFrom, List.map_cons, List.nodup_cons]
    refine ⟨?_, ih (s + 1) ?_⟩
    · intro hm
      obtain ⟨c, hc, hn⟩ := List.mem_map.mp hm
      obtain ⟨j, h1, h2, h3⟩ := name_of_mem_crulesFrom nm rs (s + 1) c hc
      have : s = j := hinj s j (Nat.le_refl _) (by simp) (by omega)
        (by simp only [List.length_cons]; omega) (by rw [← h3, hn]; rfl)
      omega
    · intro i j h1 h2 h3 h4 he
      exact hinj i j (by omega) (by simp only [List.length_cons]; omega) (by omega)
        (by simp only [List.length_cons]; omega) he

/-- the rule at position `i` is the one the index has registered under its name (names unique) -/
theorem current_of_crules (nm : Naming) (kb : List Rule) (hu : RuleNamesUnique nm kb) (i : Nat) (r : Rule)
    (h : kb[i]? = some r) :
    (((crulesFrom nm 0 kb).map COp.add).foldl cCurrent []).find (toCRule nm i r).name = some (toCRule nm i r) := by
  let m : C16.Map String CRule := (crulesFrom nm 0 kb).map (fun c => (c.name, c))
  have hvals : m.map (·.2) = crulesFrom nm 0 kb := by simp [m, List.map_map, Function.comp_def]
  have hkeys : m.map (·.1) = (crulesFrom nm 0 kb).map (·.name) := by simp [m, List.map_map, Function.comp_def]
  have hnd : C16.Map.NodupKeys m := by
    unfold C16.Map.NodupKeys
    rw [hkeys]
    exact crulesFrom_names_nodup nm kb 0 (fun i j _ hi _ hj he => hu i (by omega) j (by omega) he)
  have hinv : C16.KbInv m := ⟨hnd, by
    intro k c hm
    obtain ⟨c', _, he⟩ := List.mem_map.mp hm
    cases he
    rfl⟩
  have hmem : toCRule nm i r ∈ crulesFrom nm 0 kb := by
    have := mem_crulesFrom nm kb 0 i r h
    simpa using this
  have hm : ((toCRule nm i r).name, toCRule nm i r) ∈ m := List.mem_map.mpr ⟨_, hmem, rfl⟩
  have hcur := C16.current_of_kb m hinv [] (toCRule nm i r).name
  rw [hvals] at hcur
  have hk : (toCRule nm i r).name ∈ m.map (·.1) := List.mem_map.mpr ⟨_, hm, rfl⟩
  rw [if_pos hk, C16.Map.find_of_mem m hnd hm] at hcur
  exact hcur

/-- a rule that assigns the wanted value has, for the index, a `Set` on the field's name -/
theorem set_mem_of_concludes (nm : Naming) (i : Nat) (r : Rule) (f : Nat) (v : Val)
    (h : concludes r f v = true) : C16.Act.set (nm.field f) ∈ (toCRule nm i r).actions := by
  simp only [concludes, List.any_eq_true, Bool.and_eq_true, beq_iff_eq] at h
  obtain ⟨e, he, h1, _⟩ := h
  simp only [toCRule, allActs, List.map_append, List.map_map, List.mem_append, List.mem_map]
  left
  exact ⟨e, he, by simp [actKind, h1]⟩

theorem mem_positionsWhere {kb : List Rule} {p : Nat → Rule → Bool} {i : Nat} {r : Rule}
    (h : kb[i]? = some r) (hp : p i r = true) : i ∈ positionsWhere kb p := by
  have hi : i < kb.length := by
    rcases Nat.lt_or_ge i kb.length with hlt | hge
    · exact hlt
    · rw [List.getElem?_eq_none hge] at h; cases h
  simp only [positionsWhere, List.mem_filter, List.mem_range]
  exact ⟨hi, by simp [h, hp]⟩

/-- the index lookup proposes every position whose rule assigns the wanted value -/
theorem mem_indexCandidates (nm : Naming) (kb : List Rule) (goal : Atom)
    (hu : RuleNamesUnique nm kb) (hop : goal.op = .eq) (hf : FieldOk (nm.field goal.field))
    (i : Nat) (r : Rule) (h : kb[i]? = some r) (hcon : concludes r goal.field goal.val = true) :
    i ∈ indexCandidates nm kb goal := by
  have hi : i < kb.length := by
    rcases Nat.lt_or_ge i kb.length with hlt | hge
    · exact hlt
    · rw [List.getElem?_eq_none hge] at h; cases h
  have hset : C16.Act.set (extractField (patternOf nm goal)) ∈ (toCRule nm i r).actions := by
    rw [extractField_pattern nm goal hop hf]
    exact set_mem_of_concludes nm i r goal.field goal.val hcon
  have hfound := C16.from_rules_complete (crulesFrom nm 0 kb) (patternOf nm goal) (toCRule nm i r)
    (current_of_crules nm kb hu i r h) rfl hset
  simp only [indexCandidates, List.mem_filter, List.mem_range, decide_eq_true_eq]
  exact ⟨hi, hfound⟩

end C09
