import RreModel.C09.Theorems
import RreModel.C09.HistTheorems
import RreModel.C10.SearchTheorems
/-
C09 / C10-B — value classes and operators of the search model (S09): `Value::Null` as a PRESENT value, the string operators and
`In` of `Operator::evaluate`, and the goal-pattern round trip (`reparse`) modelled on the TEXT
(`condition_to_goal_pattern` → `parse_goal_pattern` → `parse_value_string`).

Every theorem of `Theorems.lean`, `ExtTheorems.lean`, `HistTheorems.lean`, `C10/SearchTheorems.lean` is stated for every `Val`,
`Cmp`, `Data` and so covers the new constructors as it stands (soundness, reachability, exact restoration, no leaked frames,
bounded completeness).  The completeness theorems (`dfs_complete`, `dfs_complete_code`, `dfs_complete_oracle_code`) keep exactly
their hypotheses: consistent actions (`KbCons` / `isHorn`), a compatible initial store, conjunctive EQUALITY conditions, rule names
unique + `FieldOk` (text of the tie), and `reparse b = b` for the condition atoms on the derivation (`noIntLit`) — which is now a
statement about the text round trip: it fails for Integer literals (F-C09b, `dfs_complete_needs_noIntLit`), for string literals
containing an operator the parser's table tries first (F-C09j, `dfs_complete_needs_roundtrip_str`) and for every `In` condition.
No hypothesis about Null is needed (`cmpEval_eq_refl`: a `Set` of exactly the literal makes the equality goal true, for `null`
and `"null"` as well).
-/
namespace C09
open C10

/-! ### Null -/

/-- **a present `Null` is not an absent key**: `F == null` holds on the first and not on the second; `F != true` on both -/
theorem null_is_not_absent (f : Nat) :
    evalAtom (fun _ => some .null) ⟨f, .eq, .null⟩ = true ∧ evalAtom (fun _ => none) ⟨f, .eq, .null⟩ = false ∧
    evalAtom (fun _ => some .null) ⟨f, .ne, .bool true⟩ = true ∧ evalAtom (fun _ => none) ⟨f, .ne, .bool true⟩ = true :=
  ⟨rfl, rfl, rfl, rfl⟩

/-- **`==` is reflexive on every value** (the `null` special case of `Operator::evaluate` included): a rule that `Set`s exactly
the literal of an equality goal makes the goal comparison true — why the completeness theorems need no hypothesis about Null -/
theorem cmpEval_eq_refl (v : Val) : cmpEval .eq v v = true := by
  simp [cmpEval]

example : cmpEval .eq .null .null = true ∧ cmpEval .eq (.str "null") (.str "null") = true := by decide

/-- the quirk of `Operator::evaluate`: as soon as ONE side is `Value::Null`, the string `"null"` counts as null -/
theorem null_string_quirk :
    cmpEval .eq (.str "null") .null = true ∧ cmpEval .eq .null (.str "null") = true ∧
    cmpEval .ne .null (.str "null") = false ∧ cmpEval .eq .null (.bool false) = false ∧
    cmpEval .ne .null (.num 0) = true := by
  decide

theorem parse_ne_null : parseGoalPattern ("F " ++ cmpStr .ne ++ " " ++ litStr .null) = some ("F", .ne, .null) := by decide

/-- the round trip of an atom is decided by the text behind the field name -/
theorem reparse_of_parse (f : Nat) (op op' : Cmp) (v v' : Val)
    (h : parseGoalPattern ("F " ++ cmpStr op ++ " " ++ litStr v) = some ("F", op', v')) :
    reparse ⟨f, op, v⟩ = ⟨f, op', v'⟩ := by
  simp [reparse, h]

/-- booleans and `null` survive the goal-pattern round trip under `==` / `!=`, on every field -/
theorem reparse_bool_null (f : Nat) (b : Bool) :
    reparse ⟨f, .eq, .bool b⟩ = ⟨f, .eq, .bool b⟩ ∧ reparse ⟨f, .ne, .bool b⟩ = ⟨f, .ne, .bool b⟩ ∧
    reparse ⟨f, .eq, .null⟩ = ⟨f, .eq, .null⟩ ∧ reparse ⟨f, .ne, .null⟩ = ⟨f, .ne, .null⟩ := by
  cases b <;>
  exact ⟨reparse_of_parse f _ _ _ _ (by decide), reparse_of_parse f _ _ _ _ (by decide),
         reparse_of_parse f _ _ _ _ (by decide), reparse_of_parse f _ _ _ _ (by decide)⟩

/-! ### the round trip on text: what survives and what does not -/

/-- what survives (negative numbers, strings with blanks at the ends, quotes inside, every string operator) and what is lost:
an Integer comes back as a Number; a string containing an operator that the table tries earlier cuts the text (the field
is lost, the literal is the rest); `In` does not parse at all; after fix F-C09i a lone quote is a one-character string -/
theorem reparse_table :
    reparse ⟨3, .eq, .num (-5)⟩ = ⟨3, .eq, .num (-5)⟩ ∧
    reparse ⟨3, .eq, .str " x "⟩ = ⟨3, .eq, .str " x "⟩ ∧
    reparse ⟨3, .eq, .str "a\"b"⟩ = ⟨3, .eq, .str "a\"b"⟩ ∧
    reparse ⟨3, .eq, .str "a == b"⟩ = ⟨3, .eq, .str "a == b"⟩ ∧
    reparse ⟨3, .contains, .str "a b"⟩ = ⟨3, .contains, .str "a b"⟩ ∧
    reparse ⟨3, .notContains, .str "q"⟩ = ⟨3, .notContains, .str "q"⟩ ∧
    reparse ⟨3, .startsWith, .str "q"⟩ = ⟨3, .startsWith, .str "q"⟩ ∧
    reparse ⟨3, .endsWith, .str "q"⟩ = ⟨3, .endsWith, .str "q"⟩ ∧
    reparse ⟨3, .matches, .str "q"⟩ = ⟨3, .matches, .str "q"⟩ ∧
    reparse ⟨3, .eq, .int 5⟩ = ⟨3, .eq, .num 5⟩ ∧
    reparse ⟨3, .eq, .str "x>=y"⟩ = ⟨lostField, .ge, .str "y\""⟩ ∧
    reparse ⟨3, .ne, .str "a == b"⟩ = ⟨lostField, .eq, .str "b\""⟩ ∧
    reparse ⟨3, .contains, .str "!="⟩ = ⟨lostField, .ne, .str "\""⟩ ∧
    reparse ⟨3, .startsWith, .str "a > b"⟩ = ⟨lostField, .gt, .str "b\""⟩ ∧
    reparse ⟨3, .isIn, .arr [.str "a", .num 1]⟩ = ⟨lostField, .eq, .null⟩ := by
  decide

/-- X == 1 ⇒ A := "x>=y";  A == "x>=y" ⇒ G := true -/
def strKb : List Rule :=
  [ ⟨.atom ⟨6, .eq, .num 1⟩, [(0, .str "x>=y")], []⟩, ⟨.atom ⟨0, .eq, .str "x>=y"⟩, [(5, .bool true)], []⟩ ]

/-- **the round-trip hypothesis is needed for strings too** (finding F-C09j): no Integer literal anywhere, consistent Horn
knowledge base, the goal derivable at nesting 1 — but the sub-goal `A == "x>=y"` is cut at `>=` into a comparison on a field that
does not exist, is never seen as proven, and the derivable goal is reported not provable -/
theorem dfs_complete_needs_roundtrip_str :
    isHorn strKb wBefore = true ∧ noIntLit strKb = false ∧
    (strKb.all fun r => (condAtoms r.cond).all fun a => match a.val with | .int _ => false | _ => true) = true ∧
    Covers strKb [1] wGoal ∧ (∀ r ∈ strKb, ∀ b ∈ condAtoms r.cond, Covers strKb (wSub strKb b) b) ∧
    derivableIn strKb (dataOf wBefore) 3 wGoal = true ∧
    (query strKb .dfs 3 1 (wSub strKb) wGoal [1] ⟨dataOf wBefore, []⟩).provable = false := by
  decide

/-- X == 1 ⇒ A := "abc";  A contains "ab" ⇒ G := true -/
def containsKb : List Rule :=
  [ ⟨.atom ⟨6, .eq, .num 1⟩, [(0, .str "abc")], []⟩, ⟨.atom ⟨0, .contains, .str "ab"⟩, [(5, .bool true)], []⟩ ]

/-- X == 1 ⇒ A := "ab";  A in ["ab", 1] ⇒ G := true -/
def inKb : List Rule :=
  [ ⟨.atom ⟨6, .eq, .num 1⟩, [(0, .str "ab")], []⟩, ⟨.atom ⟨0, .isIn, .arr [.str "ab", .num 1]⟩, [(5, .bool true)], []⟩ ]

/-- **string-operator conditions are proven as sub-goals** (the pattern text parses back), **`In` conditions never are** (the
pattern does not parse: every check of the sub-goal is `false`), although firing the two rules forward makes the goal true -/
theorem string_op_subgoal_proven_in_never :
    (query containsKb .dfs 3 1 (wSub containsKb) wGoal [1] ⟨dataOf wBefore, []⟩).provable = true ∧
    (query containsKb .dfs 3 1 (wSub containsKb) wGoal [1] ⟨dataOf wBefore, []⟩).store.data 0 = some (.str "abc") ∧
    evalCond (fireData inKb[0] (dataOf wBefore)).2 inKb[1].cond = true ∧
    (query inKb .dfs 3 1 (wSub inKb) wGoal [1] ⟨dataOf wBefore, []⟩).provable = false := by
  decide

/-! ### bounded completeness over histories -/

/-- **after ANY history of edits, `rebuild_index` leaves an engine that answers like one freshly built from the present rule
list**: the same candidates for every pattern, hence the same depth-first query (only the version counter differs) -/
theorem rebuild_eq_new (nm : Naming) (e0 : Eng) (ops : List EngOp) :
    let e := engStep nm (ops.foldl (engStep nm) e0) .rebuild
    (∀ pat, topCandsHist nm e pat = topCandsHist nm (engNew nm e.kb.rules) pat) ∧
    (∀ maxDepth maxSol goal ord st, histQuery nm e maxDepth maxSol goal ord st
        = histQuery nm (engNew nm e.kb.rules) maxDepth maxSol goal ord st) := by
  have hs : ∀ e e' : Eng, e.kb.rules = e'.kb.rules → subCandsHist nm e = subCandsHist nm e' := by
    intro e e' h; funext a; simp [subCandsHist, Eng.krules, h]
  constructor
  · intro pat; simp [topCandsHist, engStep, engNew]
  · intro maxDepth maxSol goal ord st
    have h1 := hs (engStep nm (ops.foldl (engStep nm) e0) .rebuild)
      (engNew nm (engStep nm (ops.foldl (engStep nm) e0) .rebuild).kb.rules) rfl
    simp only [histQuery, h1]
    simp [topCandsHist, engStep, engNew, Eng.krules]

/-! ### candidate coverage on engine states (arbitrary rule names, disabled rules) -/

theorem mem_positionsOf {crs : List C16.CRule} {p : C16.CRule → Bool} {i : Nat} {c : C16.CRule}
    (h : crs[i]? = some c) (hp : p c = true) : i ∈ positionsOf crs p := by
  have hi : i < crs.length := by
    rcases Nat.lt_or_ge i crs.length with hlt | hge
    · exact hlt
    · rw [List.getElem?_eq_none hge] at h; cases h
  simp only [positionsOf, List.mem_filter, List.mem_range]
  exact ⟨hi, by simp [h, hp]⟩

/-- **sub-goal candidates cover, for arbitrary rule names and with disabled rules present**: every ENABLED live rule that assigns
the wanted value is offered (renumbered to its position among the enabled rules) by `rule_could_prove_pattern` over the live
`kb.get_rules()` — on every engine state, whatever its history and however stale its index (sub-goals never use the index) -/
theorem subCandsHist_covers (nm : Naming) (e : Eng) (b : Atom) :
    Covers (enabledRules e.krules) (subCandsHist nm e b) b := by
  intro r hr hcon
  simp only [enabledRules, List.mem_map, List.mem_filter] at hr
  obtain ⟨k, ⟨hk, hen⟩, hkr⟩ := hr
  obtain ⟨p, hp⟩ := List.mem_iff_getElem?.mp hk
  refine ⟨remap e.krules p, ?_, ?_⟩
  · simp only [subCandsHist, List.mem_map]
    refine ⟨p, ?_, rfl⟩
    simp only [Eng.krules, List.getElem?_map, Option.map_eq_some_iff] at hp
    obtain ⟨nr, hnr, hnk⟩ := hp
    have hc : (crulesN nm e.kb.rules)[p]? =
        some ⟨nm.rule nr.name, nr.k.enabled, (allActs nr.k.rule).map (actKind nm)⟩ := by
      simp [crulesN, hnr]
    refine mem_positionsOf hc ?_
    have hset := set_mem_of_concludes nm 0 r b.field b.val hcon
    simp only [couldProvePattern, List.any_eq_true]
    refine ⟨C16.Act.set (nm.field b.field), ?_, contains_pattern_field nm b⟩
    rw [hnk, hkr]
    simpa [toCRule] using hset
  · rw [← hkr]
    exact remap_enabled e.krules p k hp hen


section
open C16 (CRule COp cCurrent cFind cFromRules)

/-- a rule list with pairwise different names: every rule is the one the index has registered under its name -/
theorem current_of_nodup (crs : List CRule) (hnd : (crs.map (·.name)).Nodup) (c : CRule) (hc : c ∈ crs) :
    ((crs.map COp.add).foldl cCurrent []).find c.name = some c := by
  let m : C16.Map String CRule := crs.map (fun c => (c.name, c))
  have hvals : m.map (·.2) = crs := by simp [m, List.map_map, Function.comp_def]
  have hkeys : m.map (·.1) = crs.map (·.name) := by simp [m, List.map_map, Function.comp_def]
  have hnd' : C16.Map.NodupKeys m := by
    unfold C16.Map.NodupKeys
    rw [hkeys]
    exact hnd
  have hinv : C16.KbInv m := ⟨hnd', by
    intro k c hm
    obtain ⟨c', _, he⟩ := List.mem_map.mp hm
    cases he
    rfl⟩
  have hm : (c.name, c) ∈ m := List.mem_map.mpr ⟨_, hc, rfl⟩
  have hcur := C16.current_of_kb m hinv [] c.name
  rw [hvals] at hcur
  have hk : c.name ∈ m.map (·.1) := List.mem_map.mpr ⟨_, hm, rfl⟩
  rw [if_pos hk, C16.Map.find_of_mem m hnd' hm] at hcur
  exact hcur

/-- with pairwise different names, the live position of a rule's name is the rule's position -/
theorem livePos_of_nodup (live : List CRule) (hnd : (live.map (·.name)).Nodup) (p : Nat) (c : CRule)
    (h : live[p]? = some c) : livePos live c.name = p := by
  have hp : p < live.length := by
    rcases Nat.lt_or_ge p live.length with hlt | hge
    · exact hlt
    · rw [List.getElem?_eq_none hge] at h; cases h
  have hc : live[p] = c := by
    rw [List.getElem?_eq_getElem hp] at h; exact Option.some.inj h
  unfold livePos
  have : live.findIdx? (fun r => r.name == c.name) = some p := by
    rw [List.findIdx?_eq_some_iff_getElem]
    refine ⟨hp, by simp [hc], ?_⟩
    intro j hj
    have hjl : j < live.length := by omega
    simp only [beq_iff_eq]
    intro heq
    have hj' : j < (live.map (·.name)).length := by simpa using hjl
    have hp' : p < (live.map (·.name)).length := by simpa using hp
    have h1 : (live.map (·.name))[j] = (live.map (·.name))[p] := by simp [heq, hc]
    exact (List.pairwise_iff_getElem.mp hnd) j p hj' hp' hj h1
  rw [this]

/-- **top-level candidates cover, for arbitrary (pairwise different) rule names and with disabled rules present**, on an engine
whose index is fresh: every ENABLED live rule that assigns the wanted value is proposed by the index (`C16.from_rules_complete`),
the non-empty lookup keeps the fallback off, the name leads back to the rule's live position (`livePos_of_nodup`), which is
renumbered to its position among the enabled rules (`remap_enabled`) -/
theorem topCandsHist_covers (nm : Naming) (e : Eng) (goal : Atom) (hfresh : indexFresh nm e = true)
    (hnd : (e.kb.rules.map fun r => nm.rule r.name).Nodup) (hop : goal.op = .eq) (hf : FieldOk (nm.field goal.field)) :
    Covers (enabledRules e.krules) ((topCandsHist nm e (patternOf nm goal)).1.map (remap e.krules)) goal := by
  have hidx : e.idx = crulesN nm e.kb.rules := of_decide_eq_true hfresh
  have hnd' : ((crulesN nm e.kb.rules).map (·.name)).Nodup := by
    simpa [crulesN, List.map_map, Function.comp_def] using hnd
  intro r hr hcon
  simp only [enabledRules, List.mem_map, List.mem_filter] at hr
  obtain ⟨k, ⟨hk, hen⟩, hkr⟩ := hr
  obtain ⟨p, hp⟩ := List.mem_iff_getElem?.mp hk
  have hp' := hp
  simp only [Eng.krules, List.getElem?_map, Option.map_eq_some_iff] at hp'
  obtain ⟨nr, hnr, hnk⟩ := hp'
  let c : CRule := ⟨nm.rule nr.name, nr.k.enabled, (allActs nr.k.rule).map (actKind nm)⟩
  have hc : (crulesN nm e.kb.rules)[p]? = some c := by simp [crulesN, hnr, c]
  have hcm : c ∈ crulesN nm e.kb.rules := List.mem_of_getElem? hc
  have hset : C16.Act.set (C16.extractField (patternOf nm goal)) ∈ c.actions := by
    rw [extractField_pattern nm goal hop hf]
    have := set_mem_of_concludes nm 0 r goal.field goal.val hcon
    show _ ∈ (allActs nr.k.rule).map (actKind nm)
    rw [hnk, hkr]
    simpa [toCRule] using this
  have hfound := C16.from_rules_complete (crulesN nm e.kb.rules) (patternOf nm goal) c
    (current_of_nodup _ hnd' c hcm) (by simp [c, hnk, hen]) hset
  refine ⟨remap e.krules p, ?_, ?_⟩
  · simp only [topCandsHist, hidx, List.mem_map]
    have hne : (cFind (cFromRules (crulesN nm e.kb.rules)) (patternOf nm goal)).isEmpty = false := by
      cases hl : cFind (cFromRules (crulesN nm e.kb.rules)) (patternOf nm goal) with
      | nil => rw [hl] at hfound; cases hfound
      | cons _ _ => rfl
    refine ⟨p, ?_, rfl⟩
    simp only [hne, Bool.false_eq_true, if_false, List.mem_map]
    exact ⟨c.name, hfound, livePos_of_nodup _ hnd' p c hc⟩
  · rw [← hkr]
    exact remap_enabled e.krules p k hp hen


end

/-- `KnowledgeBase` edits keep the registered names pairwise different (`add_rule` rejects an existing name) -/
theorem kbStep_names_nodup (kb : Kb) (op : KbOp) (h : (kb.rules.map (·.name)).Nodup) :
    ((kbStep kb op).rules.map (·.name)).Nodup := by
  cases op with
  | add n k =>
    simp only [kbStep]
    split
    · exact h
    · rename_i hn
      simp only [List.map_append, List.map_cons, List.map_nil]
      refine List.nodup_append.mpr ⟨h, by simp, ?_⟩
      intro a ha b hb
      simp only [List.mem_singleton] at hb
      subst hb
      intro hab
      subst hab
      apply hn
      obtain ⟨r, hr, hrn⟩ := List.mem_map.mp ha
      simp only [Kb.has, List.any_eq_true, beq_iff_eq]
      exact ⟨r, hr, hrn⟩
  | remove n =>
    simp only [kbStep]
    split
    · exact List.Nodup.sublist (List.Sublist.map _ List.filter_sublist) h
    · exact h
  | enable n b =>
    simp only [kbStep]
    split
    · have : (kb.rules.map (fun r => if r.name == n then (⟨r.name, ⟨r.k.rule, b⟩⟩ : NRule) else r)).map (·.name)
          = kb.rules.map (·.name) := by
        rw [List.map_map]
        apply List.map_congr_left
        intro r _
        simp only [Function.comp]
        split <;> rfl
      rw [this]; exact h
    · exact h
  | clear => simp [kbStep]

/-- the full statement: a goal derivable from the enabled live rules is provable after any sequence of knowledge-base edits
followed by `rebuild_index`, with the candidates the engine computes and every enumeration of the index's answer; the rule
names are pairwise different by POSITION (what `add_rule` maintains: `kbStep_names_nodup`) -/
def hist_complete_full : Prop :=
  ∀ (nm : Naming) (e0 : Eng) (ops : List EngOp) (maxDepth maxSol : Nat) (goal : Atom) (ord : List Nat → List Nat) (st : Store)
    (h : Nat),
    let e := engStep nm (ops.foldl (engStep nm) e0) .rebuild
    (∀ l, ∀ i ∈ l, i ∈ ord l) → (e.kb.rules.map fun r => nm.rule r.name).Nodup →
    FieldOk (nm.field goal.field) →
    KbCons (enabledRules e.krules) → Compat (enabledRules e.krules) st.data → h ≤ maxDepth + 1 →
    Deriv (enabledRules e.krules) st.data h goal →
    (histQuery nm e maxDepth maxSol goal ord st).provable = true

/-- **bounded completeness over histories** (`rebuild_index_fresh` + `dfs_complete`): after any sequence of knowledge-base edits
followed by `rebuild_index`, a goal with a derivation of height ≤ `max_depth + 1` through the ENABLED live rules is provable —
given that the renumbered candidate lists cover the concluding rules (`Covers`; for rule lists named by position and without
disabled rules this is `topCandidates_covers` / `subCandidates_covers`; for arbitrary names / disabled rules the coverage of
`topCandsHist` ∘ `remap` is what `hist_complete_full` still asks for) -/
theorem hist_complete_partial (nm : Naming) (e0 : Eng) (ops : List EngOp) (maxDepth maxSol : Nat) (goal : Atom)
    (ord : List Nat → List Nat) (st : Store) (h : Nat) :
    let e := engStep nm (ops.foldl (engStep nm) e0) .rebuild
    indexFresh nm e = true ∧
    (KbCons (enabledRules e.krules) → Compat (enabledRules e.krules) st.data →
     Covers (enabledRules e.krules) (ord ((topCandsHist nm e (patternOf nm goal)).1.map (remap e.krules))) goal →
     (∀ r ∈ enabledRules e.krules, ∀ b ∈ condAtoms r.cond, Covers (enabledRules e.krules) (subCandsHist nm e b) b) →
     h ≤ maxDepth + 1 → Deriv (enabledRules e.krules) st.data h goal →
     (histQuery nm e maxDepth maxSol goal ord st).provable = true) := by
  refine ⟨rebuild_index_fresh nm _, ?_⟩
  intro hkb hst htop hsub hh hd
  exact dfs_complete _ maxDepth maxSol _ goal _ st hkb hst htop hsub h hh hd

/-- **bounded completeness over histories, no coverage hypothesis left**: after ANY sequence of knowledge-base edits followed
by `rebuild_index`, for arbitrary (pairwise different) rule names and with disabled rules present, a goal with a derivation of
height ≤ `max_depth + 1` through the ENABLED live rules is provable by the depth-first query with the candidates the engine
computes (`topCandsHist_covers`, `subCandsHist_covers`), for every enumeration of the index's answer -/
theorem hist_complete_full_holds : hist_complete_full := by
  intro nm e0 ops maxDepth maxSol goal ord st h e hord hnd hf hkb hst hh hd
  have hp := (hist_complete_partial nm e0 ops maxDepth maxSol goal ord st h).2
  refine hp hkb hst ?_ (fun _ _ b _ => subCandsHist_covers nm _ b) hh hd
  intro r hr hcon
  obtain ⟨i, hi, hk⟩ := topCandsHist_covers nm e goal (rebuild_index_fresh nm _) hnd hd.op_eq hf r hr hcon
  exact ⟨i, hord _ i hi, hk⟩

/-- non-vacuity of the name hypothesis and of the coverage lemmas: a DISABLED rival `R1`, rules registered under the names 0, 1, 4
(not their positions), `R0` removed and re-added (it moves to the end) — the names stay pairwise different, and the candidates of
`G == true` on the rebuilt index are exactly the position of the enabled concluding rule among the enabled rules -/
example :
    let nm : Naming := ⟨fun i => (["A", "B", "C", "D", "E", "G", "X", "Y"][i]?).getD "?", ruleNameR⟩
    let r0 : KRule := ⟨⟨.atom ⟨6, .eq, .num 1⟩, [(5, .bool true)], []⟩, true⟩
    let r1 : KRule := ⟨⟨.atom ⟨6, .eq, .num 1⟩, [(5, .bool false)], []⟩, false⟩
    let r4 : KRule := ⟨⟨.atom ⟨7, .eq, .bool true⟩, [(0, .bool true)], []⟩, true⟩
    let e := engStep nm ([EngOp.kb (.remove 0), .kb (.add 0 r0), .kb (.add 1 r1)].foldl (engStep nm)
      (engNew nm [⟨0, r0⟩, ⟨1, r1⟩, ⟨4, r4⟩])) .rebuild
    (e.kb.rules.map fun r => nm.rule r.name).Nodup ∧ e.kb.rules.map (·.name) = [1, 4, 0] ∧
    (topCandsHist nm e (patternOf nm wGoal)).1.map (remap e.krules) = [1] ∧
    enabledRules e.krules = [r4.rule, r0.rule] := by
  decide +kernel

/-- non-vacuity: R0 (`Y ⇒ G`) removed, R2 (`X == 1 ⇒ G`) added, `rebuild_index`: the goal is provable through the new rule;
WITHOUT the rebuild the stale index still names R0 only and the goal is not provable -/
example :
    let nm : Naming := ⟨fun i => (["A", "B", "C", "D", "E", "G", "X", "Y"][i]?).getD "?", ruleNameR⟩
    let r0 : KRule := ⟨⟨.atom ⟨7, .eq, .bool true⟩, [(5, .bool true)], []⟩, true⟩
    let r2 : KRule := ⟨⟨.atom ⟨6, .eq, .num 1⟩, [(5, .bool true)], []⟩, true⟩
    let e1 := [EngOp.kb (.remove 0), .kb (.add 2 r2)].foldl (engStep nm) (engNew nm [⟨0, r0⟩])
    (histQuery nm (engStep nm e1 .rebuild) 3 1 wGoal id ⟨dataOf wBefore, []⟩).provable = true ∧
    (histQuery nm e1 3 1 wGoal id ⟨dataOf wBefore, []⟩).provable = false := by
  decide

end C09

namespace C10
open C09

/-- **a Null fact comes back as Null** (C10 part B): after a query that is not provable — whatever rules were fired and rolled
back on the way, under every strategy and configuration — a field that held `Value::Null` before holds `Value::Null`, not
"absent" (corollary of `not_provable_restores`) -/
theorem failed_query_keeps_null (kb : List Rule) (strategy : Strategy) (maxDepth maxSol : Nat)
    (subCands : Atom → List Nat) (goal : Atom) (topCands : List Nat) (st : Store) (f : Nat)
    (h : (query kb strategy maxDepth maxSol subCands goal topCands st).provable = false)
    (hn : st.data f = some .null) :
    (query kb strategy maxDepth maxSol subCands goal topCands st).store.data f = some .null := by
  rw [not_provable_restores kb strategy maxDepth maxSol subCands goal topCands st h]; exact hn

/-- X == 1 ⇒ A := true;  A == true && Y == true ⇒ G := true  (Y is never derivable) -/
def nullKb : List Rule :=
  [ ⟨.atom ⟨6, .eq, .num 1⟩, [(0, .bool true)], []⟩,
    ⟨.and (.atom ⟨0, .eq, .bool true⟩) (.atom ⟨7, .eq, .bool true⟩), [(5, .bool true)], []⟩ ]

/-- non-vacuity: `A` is Null before the query; the failing proof attempt FIRES the rule that overwrites it (sub-goal `A == true`
proven), then gives up on `Y`; the facts handed back hold `A = Null` again -/
example :
    let st : Store := ⟨dataOf [(0, .null), (6, .num 1)], []⟩
    let q := query nullKb .dfs 3 1 (wSub nullKb) wGoal [1] st
    q.provable = false ∧ q.store.data 0 = some .null ∧
    (proveCond ⟨nullKb, 1, wSub nullKb⟩ (searchN rbCode ⟨nullKb, 1, wSub nullKb⟩ 3 false) (.atom ⟨0, .eq, .bool true⟩)
      (gstep st .begin, 0)).2.1.data 0 = some (.bool true) := by
  decide

end C10
