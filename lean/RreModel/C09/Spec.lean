import RreModel.C09.Model
/-
C09 / C10-B — the properties as decidable predicates over API-level observations
(`QueryResult.provable`, the caller's facts before / after `BackwardEngine::query`, undo depth
after).  These are the runtime oracles; none of them runs the search model:

 (i)   provable ⇒ the goal comparison is true in the facts handed back            (`goalHolds`)
 (ii)  the facts handed back are forward-reachable from the initial facts          (`inReach`)
 (iii) not provable ⇒ facts after = facts before;  no undo frame is left open      (`restored`)
 (iv)  DFS on a consistent-Horn KB: the goal has a derivation whose sub-goal nesting is
       ≤ max_depth ⇒ provable                                                     (`complete`)
       — a theorem of the model for KBs without `Integer` condition literals: `C09.dfs_complete_oracle`
 (iv-b) DFS on an all-conjunctive KB with conflicting assignments: derivation tree within
       max_depth AND goal true in a forward-reachable store ⇒ provable            (`completeInconsistent`)
-/
namespace C09

/-- observed fact store: `(field, value)` pairs sorted by field -/
abbrev Facts := List (Nat × Val)

def dataOf (l : Facts) : Data := fun k => (l.find? (fun e => e.1 == k)).map (·.2)

/-- a store over the field universe `0 … nf-1` as a plain list (for the explicit forward search) -/
abbrev Row := List (Option Val)

def rowData (r : Row) : Data := fun k => (r[k]?).bind id
def rowOf (nf : Nat) (d : Data) : Row := (List.range nf).map d

/-- one forward step: every rule whose condition is true in the row, applied (all of its actions,
or those before the first failing one: `fireData`) -/
def successors (nf : Nat) (kb : List Rule) (r : Row) : List Row :=
  (kb.filter (fun rule => evalCond (rowData r) rule.cond)).map
    (fun rule => rowOf nf (fireData rule (rowData r)).2)

/-- `Append` makes the reachable set infinite (arrays only grow): rows in which some array is longer
than `cap` are not expanded, and the search is then reported incomplete (like running out of fuel) -/
def rowSmall (cap : Nat) (r : Row) : Bool :=
  r.all fun c => match c with | some (.arr l) => l.length ≤ cap | _ => true

def maxArr (r : Row) : Nat :=
  r.foldl (fun m c => match c with | some (.arr l) => max m l.length | _ => m) 0

def hasAppend (kb : List Rule) : Bool :=
  kb.any fun r => r.more.any fun a => match a with | .append _ _ => true | _ => false

/-- explicit forward search (`Reach`): worklist with a visited list and fuel; returns the visited
rows and whether the search completed (within the fuel, no row cut off by the array cap) -/
def reachLoop (nf : Nat) (kb : List Rule) (cap : Nat) : Nat → List Row → List Row → Bool → List Row × Bool
  | 0, _, visited, _ => (visited, false)
  | _ + 1, [], visited, ok => (visited, ok)
  | fuel + 1, r :: work, visited, ok =>
    let succ := (successors nf kb r).eraseDups
    let small := succ.filter (rowSmall cap)
    let new := small.filter (fun x => !visited.contains x && !work.contains x)
    reachLoop nf kb cap fuel (work ++ new) (visited ++ new) (ok && small.length == succ.length)

def reachSet (nf : Nat) (kb : List Rule) (init : Row) : List Row × Bool :=
  reachLoop nf kb (maxArr init + 4) (if hasAppend kb then 400 else 4000) [init] [init] true

/-- (i) -/
def goalHolds (goal : Atom) (after : Facts) : Bool := evalAtom (dataOf after) goal

/-- (ii): `none` = the explicit search ran out of fuel (reported, never counted as success) -/
def inReach (nf : Nat) (kb : List Rule) (before after : Facts) : Option Bool :=
  let rs := reachSet nf kb (rowOf nf (dataOf before))
  if rs.1.contains (rowOf nf (dataOf after)) then some true
  else if rs.2 then some false else none

/-- (iii) -/
def restored (before after : Facts) (depthAfter : Nat) (provable : Bool) : Bool :=
  depthAfter == 0 && (provable || before == after)

/-! ### (iv) reference derivation computation for consistent-Horn knowledge bases -/

def condAtoms : Cond → List Atom
  | .atom a => [a]
  | .and l r => condAtoms l ++ condAtoms r
  | .or l r => condAtoms l ++ condAtoms r

def isConj : Cond → Bool
  | .atom a => a.op == .eq
  | .and l r => isConj l && isConj r
  | .or _ _ => false

def allAssignments (kb : List Rule) (before : Facts) : List (Nat × Val) :=
  before ++ kb.flatMap (·.acts)

/-- no two assignments (rule actions or initial facts) give one field different values -/
def consistent (asg : List (Nat × Val)) : Bool :=
  asg.all fun a => asg.all fun b => a.1 != b.1 || a.2 == b.2

/-- every action of every rule is a `Set` -/
def plainKb (kb : List Rule) : Bool := kb.all fun r => r.more.isEmpty

def isHorn (kb : List Rule) (before : Facts) : Bool :=
  kb.all (fun r => isConj r.cond) && plainKb kb && consistent (allAssignments kb before)

/-- no condition literal is changed by the goal-pattern round trip (`reparse`), i.e. no rule
condition carries an `Integer` literal (finding F-C09b is about exactly those); part of the domain
of the completeness THEOREM — the runtime oracle (iv) below does not exclude them -/
def noIntLit (kb : List Rule) : Bool :=
  kb.all fun r => (condAtoms r.cond).all fun a => reparse a == a

def concludes (r : Rule) (f : Nat) (v : Val) : Bool := r.acts.any (fun e => e.1 == f && e.2 == v)

/-- `levels k`: the `(field, value)` pairs derivable by a derivation whose sub-goal nesting is `< k`
(level 0 = nothing; a rule all of whose premises hold initially or are in level `k` puts its
conclusions in level `k+1`).  The universe is the set of rule conclusions. -/
def levels (kb : List Rule) (d0 : Data) : Nat → List (Nat × Val)
  | 0 => []
  | k + 1 =>
    let prev := levels kb d0 k
    (kb.flatMap (·.acts)).filter fun c =>
      kb.any fun r => concludes r c.1 c.2 &&
        (condAtoms r.cond).all fun b => evalAtom d0 b || prev.contains (b.field, b.val)

/-- the goal `field == value` holds initially or is derivable with sub-goal nesting ≤ `maxDepth` -/
def derivableIn (kb : List Rule) (d0 : Data) (maxDepth : Nat) (goal : Atom) : Bool :=
  evalAtom d0 goal || (levels kb d0 (maxDepth + 1)).contains (goal.field, goal.val)

/-- (iv): applies to DFS, consistent-Horn KB, equality goal -/
def completeApplies (kb : List Rule) (before : Facts) (goal : Atom) : Bool :=
  isHorn kb before && goal.op == .eq

def complete (kb : List Rule) (before : Facts) (maxDepth : Nat) (goal : Atom) (provable : Bool) : Bool :=
  !(completeApplies kb before goal && derivableIn kb (dataOf before) maxDepth goal) || provable

/-! ### (iv-b) the same clause outside the consistent fragment (interference, finding F-C09e)

When two assignments give one field different values a syntactic derivation tree need not be
executable (a rule on the way may overwrite a premise proven earlier, or an initial fact), so the
tree alone does not oblige the search.  The clause asks for more: the knowledge base is
all-conjunctive with no `Integer` condition literal, the goal has a derivation tree within
`max_depth`, AND the goal comparison is true in some forward-reachable store (explicit search of
clause (ii)); then DFS must report it provable.  Every failure of this clause is an order /
overwrite interference the search does not recover from (`C09.dfs_complete_needs_consistency`). -/

def interferenceApplies (kb : List Rule) (before : Facts) (goal : Atom) : Bool :=
  goal.op == .eq && kb.all (fun r => isConj r.cond) && plainKb kb && noIntLit kb &&
    !consistent (allAssignments kb before)

/-- the goal comparison is true in some store the explicit forward search visited -/
def goalReachable (nf : Nat) (kb : List Rule) (before : Facts) (goal : Atom) : Bool :=
  (reachSet nf kb (rowOf nf (dataOf before))).1.any fun row => evalAtom (rowData row) goal

def interferenceClause (nf : Nat) (kb : List Rule) (before : Facts) (maxDepth : Nat) (goal : Atom) : Bool :=
  interferenceApplies kb before goal && derivableIn kb (dataOf before) maxDepth goal &&
    goalReachable nf kb before goal

def completeInconsistent (nf : Nat) (kb : List Rule) (before : Facts) (maxDepth : Nat) (goal : Atom)
    (provable : Bool) : Bool :=
  !interferenceClause nf kb before maxDepth goal || provable

/-! ### (iv-c) dead-end rules do not cost completeness (U09)

A rule is a DEAD END for the query when every value it assigns is wanted by nobody: no rule condition and not the goal
compares that field with that value (all comparisons are equalities here).  Tried as a candidate for a sub-goal `f == v`
it fires (or not), the check of `f == v` fails, and its undo frame is rolled back — with everything its firing and the
sub-proofs of its own conditions wrote, in whichever enclosing frame a key was recorded before (C10).  So the verdict is the
one on the knowledge base WITHOUT the dead ends: if that is consistent-Horn (clause (iv)'s fragment) and the goal is derivable
there within `max_depth`, DFS must report it provable — although the whole knowledge base is inconsistent and a dead end may
assign, besides the sub-goal's field, fields that sibling conditions were proven on.  (F-C09e, clause (iv-b), is about rules
that DO prove a wanted value and overwrite on the way; those are not dead ends.) -/

/-- the `(field, value)` pairs some rule condition or the goal asks for -/
def wantedPairs (kb : List Rule) (goal : Atom) : List (Nat × Val) :=
  (goal.field, goal.val) :: kb.flatMap fun r => (condAtoms r.cond).map fun a => (a.field, a.val)

def isDeadEnd (kb : List Rule) (goal : Atom) (r : Rule) : Bool :=
  !r.acts.isEmpty && r.acts.all fun e => !(wantedPairs kb goal).contains e

def withoutDeadEnds (kb : List Rule) (goal : Atom) : List Rule := kb.filter fun r => !isDeadEnd kb goal r

def deadEndClause (kb : List Rule) (before : Facts) (maxDepth : Nat) (goal : Atom) : Bool :=
  goal.op == .eq && kb.all (fun r => isConj r.cond) && plainKb kb && noIntLit kb &&
    kb.any (isDeadEnd kb goal) &&
    isHorn (withoutDeadEnds kb goal) before &&
    derivableIn (withoutDeadEnds kb goal) (dataOf before) maxDepth goal

def completeDeadEnds (kb : List Rule) (before : Facts) (maxDepth : Nat) (goal : Atom) (provable : Bool) : Bool :=
  !deadEndClause kb before maxDepth goal || provable

/-- smallest `k ≤ bound` with the goal in level `k` (for the evidence histogram) -/
def levelOf (kb : List Rule) (d0 : Data) (goal : Atom) (bound : Nat) : Option Nat :=
  if evalAtom d0 goal then some 0
  else (List.range (bound + 1)).find? fun k => (levels kb d0 k).contains (goal.field, goal.val)

end C09
