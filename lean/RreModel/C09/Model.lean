import RreModel.C10.Model
import RreModel.C16.Model
/-
C09 / C10-B — model of the backward-chaining search (`src/backward/search.rs`,
`backward_engine.rs::query_with_rete_engine`, `rule_executor.rs::try_execute_rule`,
`engine/condition_evaluator.rs`, `types.rs::Operator::evaluate`) on knowledge bases whose rules
have And/Or trees of `field op literal` conditions and, as actions, `Set field := literal` and the
other arms of `RuleExecutor::execute_action` that touch the facts: `Append` (`field += literal`),
`Retract` and `MethodCall` (`object.setSpeed(n)`, `object.getSpeed()`), including the arm that fails (`Err`) after earlier
actions of the same rule have already written.

The model follows the code AFTER the fixes F-C09 (per-invocation `found_solution` flag instead of
the shared `solutions` list), F-C10c (a proven candidate *commits* its undo frame before
returning), F-C10b (one undo frame around the whole breadth-first search) and F-C10a (commit
merges, see `RreModel/C10/Model.lean`, whose store `St` is reused here).

What is a parameter of the search model: the candidate lists.  The top-level list comes out of a
`HashSet` (`ConclusionIndex::find_candidates`), the sub-goal lists from the substring heuristic
`rule_could_prove_pattern` over `kb.get_rules()`; the search model takes `topCands : List Nat` and
`subCands : Atom → List Nat` (rule indices) as inputs, and the soundness / restoration theorems
hold for EVERY choice of them.  `Candidates.lean` computes them the way the code does
(`topCandidates`, `subCandidates`; the driver runs those), and the completeness theorems are
instantiated with them (`dfs_complete_code`).

Faithful quirks: a missing field makes only `!=` true; `Integer` and `Number` literals are never
`==`; a condition that is turned into a sub-goal goes through a string (`condition_to_goal_pattern`
→ `parse_goal_pattern`), which turns an `Integer` literal into a `Number` (`reparse`); the
`GoalStatus::InProgress` cycle check never fires for sub-goals (each is a fresh `Goal`), so cycles
are cut by `max_depth` only; `max_solutions > 1` counts solutions of *all* recursion levels and
rolls a found solution of the QUERY goal back while it looks for more (sub-goals stop at their first proof); the iterative strategy probes with the
non-executing search, which succeeds at depth limit 0 iff the goal has a candidate rule, so it is
"DFS with max_depth 0 and max_solutions 1, or failure when there is no candidate".
-/
namespace C09
open C10 (St GOp gstep grun upd)

/-- scalar literals: the elements of the arrays that `Append` builds -/
inductive Elem where
  | bool (b : Bool)
  | num (n : Int)
  | int (n : Int)
  | str (s : String)
deriving Repr, DecidableEq, Inhabited

inductive Val where
  | bool (b : Bool)
  | num (n : Int)      -- `Value::Number`, whole values only in the tie (no rounding involved)
  | int (n : Int)      -- `Value::Integer`
  | str (s : String)   -- `Value::String`, non-numeric text in the tie
  | arr (l : List Elem) -- `Value::Array` of scalars (what the `Append` action builds / extends)
  | obj (speed : Int)  -- `Value::Object {"Speed": Number(speed)}`: the receiver of `setSpeed` / `getSpeed`
  | null               -- `Value::Null` as a PRESENT value (`Data f = some .null`; an absent key is `none`)
deriving Repr, DecidableEq, Inhabited

/-- `types.rs::Operator`, all twelve -/
inductive Cmp where
  | eq | ne | gt | lt | ge | le
  | contains | notContains | startsWith | endsWith | matches | isIn
deriving Repr, DecidableEq, Inhabited

/-- `-?[0-9]+` as a whole number: what `str::parse::<f64>` accepts among the texts of the tie (no other float syntax —
fractions, exponents, `inf`, `nan` — reaches it there) -/
def parseWhole (s : List Char) : Option Int :=
  let digs := fun (ds : List Char) =>
    if ds.isEmpty || !ds.all Char.isDigit then none
    else some (ds.foldl (fun acc c => acc * 10 + (c.toNat - '0'.toNat)) 0)
  match s with
  | '-' :: ds => (digs ds).map fun n => - (Int.ofNat n)
  | ds => (digs ds).map Int.ofNat

/-- `Value::to_number`: a string counts when `str::parse::<f64>` reads it (`"42"`, `"-7"`; no trimming) -/
def Val.toNumber : Val → Option Int
  | .num n => some n
  | .int n => some n
  | .str s => parseWhole s.toList
  | _ => none

/-- `matches!(v, Value::Null) || matches!(v, Value::String(s) if s == "null")`: what `==` / `!=` take for null as soon
as ONE side is `Value::Null` -/
def Val.nullish : Val → Bool
  | .null => true
  | .str s => s == "null"
  | _ => false

def Elem.toVal : Elem → Val
  | .bool b => .bool b
  | .num n => .num n
  | .int n => .int n
  | .str s => .str s

/-- the string operators: both sides `Value::String` (`as_string_ref`), else `false` -/
def strOp (p : List Char → List Char → Bool) (l r : Val) : Bool :=
  match l, r with
  | .str a, .str b => p a.toList b.toList
  | _, _ => false

/-- `str::ends_with` -/
def isSuffix (pat s : List Char) : Bool := pat.reverse.isPrefixOf s.reverse

/-- `Operator::evaluate` (a present `Value::Null` included; `Matches` is "just use contains as a simple match") -/
def cmpEval (op : Cmp) (l r : Val) : Bool :=
  match op with
  | .eq => if l == .null || r == .null then l.nullish == r.nullish else l == r
  | .ne => if l == .null || r == .null then l.nullish != r.nullish else l != r
  | .contains => strOp (fun a b => C16.isInfix b a) l r
  | .notContains => strOp (fun a b => !C16.isInfix b a) l r
  | .startsWith => strOp (fun a b => b.isPrefixOf a) l r
  | .endsWith => strOp (fun a b => isSuffix b a) l r
  | .matches => strOp (fun a b => C16.isInfix b a) l r
  | .isIn => match r with | .arr es => es.any (fun e => e.toVal == l) | _ => false
  | .gt => match l.toNumber, r.toNumber with | some a, some b => decide (a > b) | _, _ => false
  | .lt => match l.toNumber, r.toNumber with | some a, some b => decide (a < b) | _, _ => false
  | .ge => match l.toNumber, r.toNumber with | some a, some b => decide (a ≥ b) | _, _ => false
  | .le => match l.toNumber, r.toNumber with | some a, some b => decide (a ≤ b) | _, _ => false

structure Atom where
  field : Nat
  op : Cmp
  val : Val
deriving Repr, DecidableEq, Inhabited

inductive Cond where
  | atom (a : Atom)
  | and (l r : Cond)
  | or (l r : Cond)
deriving Repr, DecidableEq, Inhabited

/-- an action of `RuleExecutor::execute_action` that writes to the facts.  (`Log`, `Custom`,
`ActivateAgendaGroup`, `ScheduleRule`, `CompleteWorkflow`, `SetWorkflowData` do not touch them.) -/
inductive Act where
  /-- `Set { field, value }`: `facts.set(field, literal)` -/
  | set (f : Nat) (v : Val)
  /-- `Append { field, value }`: the field's array with the literal pushed — a fresh one-element
  array when the field is absent or holds something that is not an array — written with `facts.set` -/
  | append (f : Nat) (e : Elem)
  /-- `Retract { object }`: `facts.remove(object)` -/
  | retract (f : Nat)
  /-- `MethodCall { object, "setSpeed", [Number n] }`: `Err` when the object is absent ("Object not
  found") or not an `Object` (`call_method` fails); else the updated object is written back with
  `facts.set` (the method returns `Null`: no `_return` entry) -/
  | call (f : Nat) (n : Int)
  /-- `MethodCall { object, "getSpeed", [] }`: the same failures; else the object is written back
  unchanged and the returned speed goes to the key `<object>._return` (field `ret`), both with
  `facts.set` -/
  | get (f : Nat) (ret : Nat)
deriving Repr, DecidableEq, Inhabited

/-- A rule's action list is `acts.map Set ++ more`: `acts` are its leading `Set` actions (all of
them for the plain rules C09's completeness theorems speak about: `more = []`), `more` is the
rest of the list from the first action that is not a `Set` (it may contain further `Set`s). -/
structure Rule where
  cond : Cond
  acts : List (Nat × Val)
  more : List Act
deriving Repr, DecidableEq, Inhabited

abbrev Data := Nat → Option Val
abbrev Store := St (Option Val)

/-- `ConditionEvaluator::evaluate_condition` for a `Field` expression: missing field ⇒ only `!=` -/
def evalAtom (d : Data) (a : Atom) : Bool :=
  match d a.field with
  | some v => cmpEval a.op v a.val
  | none => a.op == .ne

def evalCond (d : Data) : Cond → Bool
  | .atom a => evalAtom d a
  | .and l r => evalCond d l && evalCond d r
  | .or l r => evalCond d l || evalCond d r

/-- `execute_actions` with `Set` actions: `facts.set(field, literal)` (records undo) -/
def applyActs : List (Nat × Val) → Store → Store
  | [], s => s
  | (f, v) :: rest, s => applyActs rest (gstep s (.modify f (fun _ => some v)))

/-- the data-level effect of the same actions -/
def applyActsData : List (Nat × Val) → Data → Data
  | [], d => d
  | (f, v) :: rest, d => applyActsData rest (upd d f (some v))

/-- the writes (`facts.set` / `facts.remove`, in order: field, new value) the action performs on
facts `d`; `none` = the action fails (`execute_action` returns `Err`, nothing is written) -/
def Act.writes : Act → Data → Option (List (Nat × Option Val))
  | .set f v, _ => some [(f, some v)]
  | .append f e, d =>
    match d f with
    | some (.arr l) => some [(f, some (.arr (l ++ [e])))]
    | _ => some [(f, some (.arr [e]))]
  | .retract f, _ => some [(f, none)]
  | .call f n, d =>
    match d f with
    | some (.obj _) => some [(f, some (.obj n))]
    | _ => none
  | .get f ret, d =>
    match d f with
    | some (.obj n) => some [(f, some (.obj n)), (ret, some (.num n))]
    | _ => none

/-- each write is ONE recording mutation of its top-level key -/
def applyWrites : List (Nat × Option Val) → Store → Store
  | [], s => s
  | (f, v) :: rest, s => applyWrites rest (gstep s (.modify f (fun _ => v)))

def applyWritesData : List (Nat × Option Val) → Data → Data
  | [], d => d
  | (f, v) :: rest, d => applyWritesData rest (upd d f v)

/-- `execute_actions` on the rest of the action list: the first failing action stops the loop
(`?`), what was written before it stays.  Result: (no action failed, store). -/
def applyMore : List Act → Store → Bool × Store
  | [], s => (true, s)
  | a :: rest, s =>
    match a.writes s.data with
    | none => (false, s)
    | some ws => applyMore rest (applyWrites ws s)

def applyMoreData : List Act → Data → Bool × Data
  | [], d => (true, d)
  | a :: rest, d =>
    match a.writes d with
    | none => (false, d)
    | some ws => applyMoreData rest (applyWritesData ws d)

/-- `execute_actions(rule, facts)`: `(Ok?, facts afterwards)` -/
def fire (r : Rule) (s : Store) : Bool × Store := applyMore r.more (applyActs r.acts s)

/-- the data-level effect of firing a rule (up to its first failing action) -/
def fireData (r : Rule) (d : Data) : Bool × Data := applyMoreData r.more (applyActsData r.acts d)

/-! ### the goal-pattern round trip of a condition that becomes a sub-goal

`try_prove_single_condition` PRINTS the condition (`condition_to_goal_pattern`: `"<field> <op> <literal>"`) and every check of
the sub-goal PARSES that text back (`check_goal_in_facts` → `parse_goal_pattern` → `parse_value_string`).  Both directions are
modelled on the text.  What does not survive: an `Integer` literal (`parse::<f64>` is tried first: F-C09b), a string literal
whose text contains an operator of the parser's table that is looked for EARLIER than the condition's own operator (the text
is cut there: the "field" becomes `X != "a` — no fact has that name —, the literal the rest), `In` (not in the table at all:
`None`, the check is `false`), and a string literal with surrounding blanks that lost its quotes through such a cut. -/

def cmpStr : Cmp → String
  | .eq => "==" | .ne => "!=" | .gt => ">" | .lt => "<" | .ge => ">=" | .le => "<="
  | .contains => "contains" | .notContains => "not_contains" | .startsWith => "starts_with" | .endsWith => "ends_with"
  | .matches => "matches" | .isIn => "in"

/-- `<str as Debug>::fmt` on the printable ASCII text of the tie: `"` and `\` are escaped -/
def debugStr (s : String) : String :=
  "\"" ++ String.ofList (s.toList.flatMap fun c => if c = '"' || c = '\\' then ['\\', c] else [c]) ++ "\""

/-- `{:?}` of a scalar `Value` (whole `f64`s below 1e16 print as `<int>.0`) -/
def debugElem : Elem → String
  | .bool b => "Boolean(" ++ (if b then "true" else "false") ++ ")"
  | .num n => "Number(" ++ toString n ++ ".0)"
  | .int n => "Integer(" ++ toString n ++ ")"
  | .str s => "String(" ++ debugStr s ++ ")"

/-- the literal as `condition_to_goal_pattern` prints it (and as the query text carries it):
`b.to_string()`, `n.to_string()` (whole numbers: no fraction digits), `i.to_string()`, `"\"{}\""` (NO escaping), `null`,
and `{:?}` for the rest (arrays of scalars in the tie; a condition literal is never an object there) -/
def litStr : Val → String
  | .bool b => if b then "true" else "false"
  | .num n => toString n
  | .int n => toString n
  | .str s => "\"" ++ s ++ "\""
  | .arr l => "Array([" ++ ", ".intercalate (l.map debugElem) ++ "])"
  | .obj _ => "?"
  | .null => "null"

/-- the operator table of `parse_goal_pattern`, in the order it is tried -/
def goalOpTable : List (String × Cmp) :=
  [(">=", .ge), ("<=", .le), ("==", .eq), ("!=", .ne), (" > ", .gt), (" < ", .lt), (" contains ", .contains),
   (" not_contains ", .notContains), (" starts_with ", .startsWith), (" startsWith ", .startsWith),
   (" ends_with ", .endsWith), (" endsWith ", .endsWith), (" matches ", .matches)]

/-- `parse_value_string` (after fix F-C09i: a lone quote character is not a quoted string; before it `&s[1..0]` panicked) -/
def parseValueString (s : List Char) : Val :=
  let s := C16.trim s
  if s = "true".toList then .bool true
  else if s = "false".toList then .bool false
  else if s = "null".toList then .null
  else if s.length ≥ 2 && ((s.head? == some '"' && s.getLast? == some '"') || (s.head? == some '\'' && s.getLast? == some '\''))
  then .str (String.ofList (s.drop 1).dropLast)
  else match parseWhole s with
    | some n => .num n
    | none => .str (String.ofList s)

/-- `parse_goal_pattern`: the first operator OF THE TABLE that occurs anywhere in the text cuts it -/
def parseGoalPatternAux (p : List Char) : List (String × Cmp) → Option (List Char × Cmp × Val)
  | [] => none
  | (t, op) :: rest =>
    match C16.findSub t.toList p 0 with
    | some pos => some (C16.trim (p.take pos), op, parseValueString (p.drop (pos + t.length)))
    | none => parseGoalPatternAux p rest

def parseGoalPattern (p : String) : Option (String × Cmp × Val) :=
  (parseGoalPatternAux p.toList goalOpTable).map fun r => (String.ofList r.1, r.2)

/-- the number of a key that no fact store of the tie holds: where the goal-pattern round trip lands when the text in
front of the operator it found is not the field name any more (`X contains "a` …) -/
def lostField : Nat := 1000000

/-- print and parse back.  The field names of the tie contain neither blanks nor `= ! < >`, so only the text BEHIND the
name matters: the round trip is run with the stand-in name `F`.  A pattern that does not parse (`In`) makes every check of the
sub-goal `false`, as a comparison `==` on a missing field does. -/
def reparse (a : Atom) : Atom :=
  match parseGoalPattern ("F " ++ cmpStr a.op ++ " " ++ litStr a.val) with
  | some (f, op, v) => ⟨if f = "F" then a.field else lostField, op, v⟩
  | none => ⟨lostField, .eq, .null⟩

structure Env where
  kb : List Rule
  maxSol : Nat
  subCands : Atom → List Nat

/-- search state: the caller's fact store and `self.solutions.len()` -/
abbrev SS := Store × Nat

/-- type of "search this (sub-)goal one level deeper" -/
abbrev Rec := Atom → List Nat → SS → Bool × SS

/-- `try_prove_condition_group` / `try_prove_single_condition` -/
def proveCond (env : Env) (rec : Rec) : Cond → SS → Bool × SS
  | .atom a, s =>
    if evalAtom s.1.data a then (true, s) else rec (reparse a) (env.subCands a) s
  | .and l r, s =>
    let r1 := proveCond env rec l s
    if r1.1 then proveCond env rec r r1.2 else (false, r1.2)
  | .or l r, s =>
    let r1 := proveCond env rec l s
    if r1.1 then (true, r1.2) else proveCond env rec r r1.2

/-- How a speculative frame is undone.  The code calls `rollback_undo_frame` (`rbCode`); by the
C10 frame theorem that gives back the store saved at the matching `begin`, so the executable
driver may simply keep that saved store (`rbSaved`) — `C09.query_eq_fast` proves the two searches
equal.  (Only an efficiency device: closures of `upd` would otherwise pile up over a long search.) -/
abbrev Rb := (saved cur : Store) → Store
def rbCode : Rb := fun _ cur => gstep cur .rollback
def rbSaved : Rb := fun saved _ => saved

/-- outcome of one iteration of the candidate loop -/
inductive CandOut where
  /-- the goal is proven and enough solutions are known: the candidate's frame has been
  committed and the search returns this -/
  | ret (r : Bool × SS)
  /-- the loop goes on: the candidate's frame (current store `stX`) is to be rolled back -/
  | cont (found : Bool) (stX : Store) (ns : Nat)

/-- after `try_execute_rule` found the rule's conditions true on `stA` and ran its actions: the arm
`Err(_)` ("execution error - continue to next rule"; on the second attempt the `_` arm) when an
action failed — whatever the rule wrote before is left to the candidate's rollback —, the arm
`Ok(true) if self.check_goal_in_facts(goal, facts)` and the plain `Ok(true)` arm -/
def execOut (env : Env) (top : Bool) (goal : Atom) (found : Bool) (stA : Store) (r : Rule) (ns : Nat) : CandOut :=
  let f := fire r stA
  let st' := f.2
  if !f.1 then .cont found st' ns
  else if evalAtom st'.data goal then
    -- a solution: pushed on the shared list, `found_solution = true`
    -- sub-goals (`depth > 0`, `top = false`) need one proof only: their changes stay for the parent
    if env.maxSol == 1 || !top || ns + 1 ≥ env.maxSol then .ret (true, (gstep st' .commit, ns + 1))
    else .cont true st' (ns + 1)
  else .cont found st' ns

/-- the body of the candidate loop for rule index `i`, started on store `st` -/
def candStep (env : Env) (top : Bool) (rec : Rec) (goal : Atom) (i : Nat) (found : Bool) (st : Store) (ns : Nat) : CandOut :=
  let st1 := gstep st .begin
  match env.kb[i]? with
  | none => .cont found st1 ns
  | some r =>
    if evalCond st1.data r.cond then execOut env top goal found st1 r ns   -- `try_execute_rule` = Ok(true)
    else
      -- Ok(false): prove the conditions by sub-goals, then execute again
      let pr := proveCond env rec r.cond (st1, ns)
      if pr.1 && evalCond pr.2.1.data r.cond then execOut env top goal found pr.2.1 r pr.2.2
      else .cont found pr.2.1 pr.2.2

/-- the candidate loop of `search_recursive_with_execution`; at the end of the list the goal
counts as proven iff one of ITS OWN candidates proved it (`found_solution`, fix F-C09) -/
def tryCands (rb : Rb) (env : Env) (top : Bool) (rec : Rec) (goal : Atom) : List Nat → Bool → SS → Bool × SS
  | [], found, s => (found, s)
  | i :: rest, found, (st, ns) =>
    match candStep env top rec goal i found st ns with
    | .ret r => r
    | .cont found' stX ns' => tryCands rb env top rec goal rest found' (rb st stX, ns')

/-- `search_recursive_with_execution`; the fuel is `max_depth + 1 - depth` (fuel 0 = the depth gate
`depth > max_depth`) -/
def searchN (rb : Rb) (env : Env) : Nat → Bool → Rec
  | 0, _ => fun _ _ s => (false, s)
  | n + 1, top => fun goal cands s =>
    if evalAtom s.1.data goal then (true, s)
    else tryCands rb env top (searchN rb env n false) goal cands false s

/-- `DepthFirstSearch::search_with_execution` (the query goal is at depth 0: `top = true`) -/
def dfs (rb : Rb) (env : Env) (maxDepth : Nat) (goal : Atom) (topCands : List Nat) (st : Store) : Bool × SS :=
  searchN rb env (maxDepth + 1) true goal topCands (st, 0)

/-- the candidate loop of `BreadthFirstSearch::search_with_execution` (no rollback between
candidates; stops at the first rule after which the goal holds) -/
def bfsLoop (kb : List Rule) (goal : Atom) : List Nat → Store → Bool × Store
  | [], st => (false, st)
  | i :: rest, st =>
    match kb[i]? with
    | none => bfsLoop kb goal rest st
    | some r =>
      if evalCond st.data r.cond then
        -- `Err(_)` ("continue to next rule") keeps what the rule wrote before its failing action
        let f := fire r st
        if f.1 && evalAtom f.2.data goal then (true, f.2) else bfsLoop kb goal rest f.2
      else bfsLoop kb goal rest st

/-- fixed BFS: one frame around the search; the query goal has no sub-goals, so only depth 0 -/
def bfs (rb : Rb) (kb : List Rule) (goal : Atom) (topCands : List Nat) (st : Store) : Bool × Store :=
  let st1 := gstep st .begin
  if evalAtom st1.data goal then (true, gstep st1 .commit)
  else
    let r := bfsLoop kb goal topCands st1
    if r.1 then (true, gstep r.2 .commit) else (false, rb st r.2)

inductive Strategy where
  | dfs | bfs | iterative
deriving Repr, DecidableEq

structure QueryOut where
  provable : Bool
  store : Store
  nsol : Nat

/-- `BackwardEngine::query` on a fresh engine -/
def queryG (rb : Rb) (kb : List Rule) (strategy : Strategy) (maxDepth maxSol : Nat) (subCands : Atom → List Nat)
    (goal : Atom) (topCands : List Nat) (st : Store) : QueryOut :=
  match strategy with
  | .dfs =>
    let r := dfs rb ⟨kb, maxSol, subCands⟩ maxDepth goal topCands st
    ⟨r.1, r.2.1, if r.1 then r.2.2 else 0⟩
  | .bfs =>
    let r := bfs rb kb goal topCands st
    ⟨r.1, r.2, 0⟩
  | .iterative =>
    -- probe at depth limit 0 succeeds iff there is a candidate rule; then DFS(0) with max_solutions 1
    if topCands.isEmpty then ⟨false, st, 0⟩
    else
      let r := dfs rb ⟨kb, 1, subCands⟩ 0 goal topCands st
      ⟨r.1, r.2.1, if r.1 then r.2.2 else 0⟩

/-- the model of the code -/
abbrev query := queryG rbCode
/-- what the driver runs (proved equal: `C09.query_eq_fast`) -/
abbrev queryFast := queryG rbSaved

end C09
