import RreModel.C09.Ext
import RreModel.C09.Lemmas
/-
C09 / C10-B — theorems about the two extensions of `RreModel/C09/Ext.lean`.

DISABLED rules: the search model runs on `enabledRules ks` (the knowledge base filtered to its enabled rules FIRST), so
every theorem of `Theorems.lean` / `C10/SearchTheorems.lean` — stated for every `kb`, every candidate list and every
sub-goal candidate function — speaks about the enabled rules only: `Reach (enabledRules ks)` is the forward closure that
ignores disabled rules.  What ties the candidate lists (computed on the FULL rule list by position) to that model is
`remap`: `remap_enabled` (an enabled rule is executed as itself), `remap_disabled` + `candStep_disabled_noop` (a disabled
or unknown candidate opens a frame and nothing else — the loop then rolls it back: never executed).

NEGATED query goal (`queryNeg`): facts handed back are forward-reachable, a `not provable` answer — which for a negated
goal is reached THROUGH found proofs that were each rolled back — hands back exactly the store it was given, frames are
balanced; the driver's fast variant is the model.
-/
namespace C09
open C10

/-! ### disabled rules -/

theorem enabledRules_cons (k : KRule) (ks : List KRule) :
    enabledRules (k :: ks) = if k.enabled then k.rule :: enabledRules ks else enabledRules ks := by
  unfold enabledRules
  by_cases h : k.enabled = true <;> simp [List.filter, h]

theorem enabledRules_take_getElem (ks : List KRule) :
    ∀ (p : Nat) (k : KRule), ks[p]? = some k → k.enabled = true →
      (enabledRules ks)[((ks.take p).filter (·.enabled)).length]? = some k.rule := by
  induction ks with
  | nil => intro p k h; simp at h
  | cons a rest ih =>
    intro p k h he
    cases p with
    | zero =>
      simp only [List.getElem?_cons_zero, Option.some.injEq] at h
      subst h
      simp [enabledRules_cons, he]
    | succ p =>
      simp only [List.getElem?_cons_succ] at h
      have := ih p k h he
      by_cases ha : a.enabled = true
      · simpa [enabledRules_cons, ha, List.take, List.filter] using this
      · simpa [enabledRules_cons, ha, List.take, List.filter] using this

/-- **an enabled rule offered as a candidate (by its position in `kb.get_rules()`) is executed as itself** -/
theorem remap_enabled (ks : List KRule) (p : Nat) (k : KRule) (h : ks[p]? = some k) (he : k.enabled = true) :
    (enabledRules ks)[remap ks p]? = some k.rule := by
  simp only [remap, h, he, if_true]
  exact enabledRules_take_getElem ks p k h he

/-- **a disabled rule (or an unknown name) offered as a candidate names no rule of the search model** -/
theorem remap_disabled (ks : List KRule) (p : Nat)
    (h : ∀ k, ks[p]? = some k → k.enabled = false) : (enabledRules ks)[remap ks p]? = none := by
  have hlen : ∀ n, (enabledRules ks)[(enabledRules ks).length + n]? = none := by
    intro n; exact List.getElem?_eq_none (Nat.le_add_right _ _)
  unfold remap
  cases hk : ks[p]? with
  | none => exact hlen p
  | some k => simp only [h k hk]; exact hlen p

/-- **… so it is never executed**: its iteration of the candidate loop opens a frame and does nothing else (the loop
then rolls the empty frame back) — `kb.get_rule(..).filter(|r| r.enabled)` = `None` after fix F-C09f -/
theorem candStep_disabled_noop (ks : List KRule) (maxSol : Nat) (sub : Atom → List Nat) (top : Bool) (rec : Rec)
    (goal : Atom) (p : Nat) (found : Bool) (st : Store) (ns : Nat)
    (h : ∀ k, ks[p]? = some k → k.enabled = false) :
    candStep ⟨enabledRules ks, maxSol, sub⟩ top rec goal (remap ks p) found st ns = .cont found (gstep st .begin) ns := by
  simp only [candStep, remap_disabled ks p h]

example : enabledRules [⟨⟨.atom ⟨6, .eq, .num 1⟩, [(0, .bool true)], []⟩, false⟩,
    ⟨⟨.atom ⟨0, .eq, .bool true⟩, [(5, .bool true)], []⟩, true⟩] =
    [⟨.atom ⟨0, .eq, .bool true⟩, [(5, .bool true)], []⟩] := by decide

/-! ### negated query goal -/

/-- what the search of a negated query goal guarantees -/
structure GoodNeg (env : Env) (d0 : Data) (st : Store) (r : Bool × SS) : Prop where
  eff : Eff st r.2.1
  restore : r.1 = false → r.2.1 = st
  reach : Reach env.kb d0 st.data → Reach env.kb d0 r.2.1.data

theorem tryCandsNeg_good (env : Env) (d0 : Data) (rec : Rec)
    (hrec : ∀ g c s, Good env d0 g s.1 (rec g c s)) (goal : Atom) :
    ∀ (cands : List Nat) (found : Bool) (st : Store) (ns : Nat), (env.maxSol = 1 → found = false) →
      GoodNeg env d0 st (tryCandsNeg rbCode env rec goal cands found (st, ns)) ∧
      tryCandsNeg rbCode env rec goal cands found (st, ns) =
        tryCandsNeg rbSaved env rec goal cands found (st, ns) := by
  intro cands
  induction cands with
  | nil =>
    intro found st ns _
    exact ⟨⟨Eff.refl _, fun _ => rfl, id⟩, rfl⟩
  | cons i rest ih =>
    intro found st ns hf
    have hstep := candStep_good env true d0 rec hrec goal i found st ns hf
    simp only [tryCandsNeg]
    cases hcs : candStep env true rec goal i found st ns with
    | ret r =>
      rw [hcs] at hstep
      exact ⟨⟨hstep.eff, hstep.restore, hstep.reach⟩, rfl⟩
    | cont found' stX ns' =>
      rw [hcs] at hstep
      obtain ⟨he, hf'⟩ := hstep
      have hrb : rbCode st stX = st := eff_rollback he
      simp only [hrb, rbSaved]
      exact ih found' st ns' hf'

theorem dfsNeg_good (env : Env) (maxDepth : Nat) (goal : Atom) (cands : List Nat) (st : Store) :
    GoodNeg env st.data st (dfsNeg rbCode env maxDepth goal cands st) ∧
    dfsNeg rbCode env maxDepth goal cands st = dfsNeg rbSaved env maxDepth goal cands st := by
  have hs := searchN_good env st.data maxDepth
  simp only [dfsNeg]
  split
  · exact ⟨⟨Eff.refl _, fun _ => rfl, id⟩, rfl⟩
  · rw [← hs.2]
    exact tryCandsNeg_good env st.data _ (hs.1 false) goal cands false st 0 (fun _ => rfl)

/-- **facts handed back by a negated query are forward-reachable** (every strategy, `max_depth`, `max_solutions`,
candidate lists) -/
theorem neg_search_facts_reachable (kb : List Rule) (strategy : Strategy) (maxDepth maxSol : Nat)
    (subCands : Atom → List Nat) (goal : Atom) (topCands : List Nat) (st : Store) :
    Reach kb st.data (queryNeg kb strategy maxDepth maxSol subCands goal topCands st).store.data := by
  cases strategy with
  | dfs => exact (dfsNeg_good ⟨kb, maxSol, subCands⟩ maxDepth goal topCands st).1.reach .refl
  | bfs =>
    simp only [queryNeg, queryNegG, bfs]
    split
    · rw [data_commit]; exact .refl
    · have h := bfsLoop_good kb st.data goal topCands (gstep st .begin)
      split
      · rw [data_commit]; exact h.2.1 .refl
      · have : rbCode st (bfsLoop kb goal topCands (gstep st .begin)).2 = st := eff_rollback h.1
        simp only [this]; exact .refl
  | iterative =>
    simp only [queryNeg, queryNegG]
    split
    · exact .refl
    · exact (dfsNeg_good ⟨kb, 1, subCands⟩ 0 goal topCands st).1.reach .refl

/-- the driver's fast search of a negated query is the model's -/
theorem queryNeg_eq_fast (kb : List Rule) (strategy : Strategy) (maxDepth maxSol : Nat)
    (subCands : Atom → List Nat) (goal : Atom) (topCands : List Nat) (st : Store) :
    queryNeg kb strategy maxDepth maxSol subCands goal topCands st =
      queryNegFast kb strategy maxDepth maxSol subCands goal topCands st := by
  cases strategy with
  | dfs => simp only [queryNeg, queryNegFast, queryNegG, (dfsNeg_good ⟨kb, maxSol, subCands⟩ maxDepth goal topCands st).2]
  | bfs =>
    simp only [queryNeg, queryNegFast, queryNegG, bfs]
    split
    · rfl
    · split
      · rfl
      · have h := bfsLoop_good kb st.data goal topCands (gstep st .begin)
        have : rbCode st (bfsLoop kb goal topCands (gstep st .begin)).2 = st := eff_rollback h.1
        simp only [this, rbSaved]
  | iterative => simp only [queryNeg, queryNegFast, queryNegG, (dfsNeg_good ⟨kb, 1, subCands⟩ 0 goal topCands st).2]

end C09

namespace C10
open C09

/-- the well-bracketed-effect invariant for a NEGATED query `NOT <goal>` -/
theorem neg_query_effect (kb : List Rule) (strategy : Strategy) (maxDepth maxSol : Nat)
    (subCands : Atom → List Nat) (goal : Atom) (topCands : List Nat) (st : Store) :
    Eff st (queryNeg kb strategy maxDepth maxSol subCands goal topCands st).store ∧
    ((queryNeg kb strategy maxDepth maxSol subCands goal topCands st).provable = false →
      (queryNeg kb strategy maxDepth maxSol subCands goal topCands st).store = st) := by
  cases strategy with
  | dfs =>
    have h := (dfsNeg_good ⟨kb, maxSol, subCands⟩ maxDepth goal topCands st).1
    exact ⟨h.eff, h.restore⟩
  | bfs =>
    simp only [queryNeg, queryNegG, bfs]
    split
    · exact ⟨eff_commit (Eff.refl _), by simp⟩
    · have h := bfsLoop_good kb st.data goal topCands (gstep st .begin)
      split
      · exact ⟨eff_commit h.1, by simp⟩
      · have : rbCode st (bfsLoop kb goal topCands (gstep st .begin)).2 = st := eff_rollback h.1
        simp only [this]
        exact ⟨Eff.refl _, by simp⟩
  | iterative =>
    simp only [queryNeg, queryNegG]
    split
    · exact ⟨Eff.refl _, fun _ => rfl⟩
    · have h := (dfsNeg_good ⟨kb, 1, subCands⟩ 0 goal topCands st).1
      exact ⟨h.eff, h.restore⟩

/-- **A negated query reported not provable hands back exactly the store it was given** — although, under DFS, that
verdict is reached through proofs of the positive form that were found (sub-goal facts derived, the rule fired) and each
rolled back (`found_solution ⇒ return !is_negated`); every `max_solutions`, strategy, candidate list. -/
theorem neg_not_provable_restores (kb : List Rule) (strategy : Strategy) (maxDepth maxSol : Nat)
    (subCands : Atom → List Nat) (goal : Atom) (topCands : List Nat) (st : Store)
    (h : (queryNeg kb strategy maxDepth maxSol subCands goal topCands st).provable = false) :
    (queryNeg kb strategy maxDepth maxSol subCands goal topCands st).store = st :=
  (neg_query_effect kb strategy maxDepth maxSol subCands goal topCands st).2 h

theorem neg_query_frames_balanced (kb : List Rule) (strategy : Strategy) (maxDepth maxSol : Nat)
    (subCands : Atom → List Nat) (goal : Atom) (topCands : List Nat) (st : Store) :
    (queryNeg kb strategy maxDepth maxSol subCands goal topCands st).store.frames.length = st.frames.length :=
  eff_length (neg_query_effect kb strategy maxDepth maxSol subCands goal topCands st).1

end C10
