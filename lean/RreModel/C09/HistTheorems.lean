import RreModel.C09.Hist
import RreModel.C09.ExtTheorems
/-
C09 — histories on one engine: what the engine operations do to the state a query depends on.
-/
namespace C09
open C10

/-- **`rebuild_index` makes the index the one a freshly built engine has** (whatever edits came before) -/
theorem rebuild_index_fresh (nm : Naming) (e : Eng) : indexFresh nm (engStep nm e .rebuild) = true := by
  simp [indexFresh, engStep]

/-- … and a freshly built engine (`new` / `with_config`) starts with it -/
theorem engNew_fresh (nm : Naming) (rules : List NRule) : indexFresh nm (engNew nm rules) = true := by
  simp [indexFresh, engNew]

/-- **`set_config` is transparent** for knowledge base and index: the next query differs from the one a fresh engine with
that configuration would answer only through the state left by the edits -/
theorem set_config_transparent (nm : Naming) (e : Eng) : engStep nm e .setConfig = e := rfl

/-- knowledge-base edits never touch the index (only `rebuild_index` does): after an edit the index is the old one -/
theorem kb_edit_keeps_index (nm : Naming) (e : Eng) (op : KbOp) : (engStep nm e (.kb op)).idx = e.idx := rfl

/-- rebuilding twice is rebuilding once; rebuilding an engine whose index is fresh changes nothing -/
theorem rebuild_idem (nm : Naming) (e : Eng) :
    engStep nm (engStep nm e .rebuild) .rebuild = engStep nm e .rebuild := rfl

theorem rebuild_fresh_noop (nm : Naming) (e : Eng) (h : indexFresh nm e = true) : engStep nm e .rebuild = e := by
  have : e.idx = crulesN nm e.kb.rules := of_decide_eq_true h
  cases e; simp_all [engStep]

/-- **a replaced rule keeps the rule count and makes the index stale**: witness that "same number of rules" does not mean
"same rule set" (`R0: Y ⇒ G` replaced by `R2: X == 1 ⇒ G`) -/
theorem replace_same_count_stale :
    let nm : Naming := ⟨fun i => (["A", "B", "C", "D", "E", "G", "X", "Y"][i]?).getD "?", ruleNameR⟩
    let r0 : KRule := ⟨⟨.atom ⟨7, .eq, .bool true⟩, [(5, .bool true)], []⟩, true⟩
    let r1 : KRule := ⟨⟨.atom ⟨6, .eq, .num 1⟩, [(0, .bool true)], []⟩, true⟩
    let r2 : KRule := ⟨⟨.atom ⟨6, .eq, .num 1⟩, [(5, .bool true)], []⟩, true⟩
    let e0 := engNew nm [⟨0, r0⟩, ⟨1, r1⟩]
    let e1 := engStep nm (engStep nm e0 (.kb (.remove 0))) (.kb (.add 2 r2))
    e1.kb.rules.length = e0.kb.rules.length ∧ indexFresh nm e1 = false
      ∧ indexFresh nm (engStep nm e1 .rebuild) = true := by
  decide

/-- **a name the stale index still proposes for a rule that is gone is never executed**: its iteration of the candidate
loop opens a frame and does nothing else (`kb.get_rule(&name)` = `None`) -/
theorem stale_candidate_noop (ks : List KRule) (maxSol : Nat) (sub : Atom → List Nat) (top : Bool) (rec : Rec)
    (goal : Atom) (p : Nat) (hp : ks.length ≤ p) (found : Bool) (st : Store) (ns : Nat) :
    candStep ⟨enabledRules ks, maxSol, sub⟩ top rec goal (remap ks p) found st ns = .cont found (gstep st .begin) ns := by
  apply candStep_disabled_noop
  intro k hk
  rw [List.getElem?_eq_none hp] at hk
  cases hk

/-- `livePos` of a name that no live rule carries is past the end of the live list -/
theorem livePos_missing (live : List C16.CRule) (s : String) (h : ∀ r ∈ live, r.name ≠ s) :
    live.length ≤ livePos live s := by
  unfold livePos
  cases hf : live.findIdx? (fun r => r.name == s) with
  | none => exact Nat.le_refl _
  | some p =>
    have := List.findIdx?_eq_some_iff_getElem.mp hf
    obtain ⟨hlt, hp, _⟩ := this
    have hm : live[p] ∈ live := List.getElem_mem hlt
    have := h _ hm
    simp_all

end C09
