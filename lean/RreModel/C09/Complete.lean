import RreModel.C09.Lemmas
/-
C09 — lemmas for bounded completeness of the depth-first search.

Two invariants on top of `Good` (Lemmas.lean):

* `Grow kb st st'` — on a knowledge base whose actions are pairwise consistent (`KbCons`) and a
  store compatible with them (`Compat`), whatever the search does to the store between two
  points that are not separated by a rollback is an EXTENSION (`Ext`): facts are only added, a
  field that is present keeps its value, and the store stays compatible.  (A failed candidate is
  rolled back to exactly the saved store — C10's frame theorem through `eff_rollback`.)
* `Deriv kb d0 h a` — the equality atom `a` has a derivation tree of height ≤ `h` from the facts
  `d0` through rules of `kb` with conjunctive equality conditions whose literals survive the
  goal-pattern round trip.

`searchN_complete`: by induction on the derivation, with the store generalised to every
compatible extension of `d0`: the atom already holds or `search_recursive_with_execution` with
`h` levels of depth budget left proves it.
-/
namespace C09
open C10

/-! ### extension order on fact stores, consistency -/

/-- `d'` extends `d`: every fact of `d` is a fact of `d'`, with the same value -/
def Ext (d d' : Data) : Prop := ∀ k v, d k = some v → d' k = some v

theorem Ext.refl (d : Data) : Ext d d := fun _ _ h => h

theorem Ext.trans {a b c : Data} (h1 : Ext a b) (h2 : Ext b c) : Ext a c :=
  fun k v h => h2 k v (h1 k v h)

/-- every action of the knowledge base is a `Set` (`more = []`), and no two of them give one field
different values -/
def KbCons (kb : List Rule) : Prop :=
  (∀ r ∈ kb, r.more = []) ∧
  ∀ r ∈ kb, ∀ r' ∈ kb, ∀ e ∈ r.acts, ∀ e' ∈ r'.acts, e.1 = e'.1 → e.2 = e'.2

/-- a field that some rule assigns is absent from the store or has the value the rules give it -/
def Compat (kb : List Rule) (d : Data) : Prop :=
  ∀ r ∈ kb, ∀ e ∈ r.acts, ∀ v, d e.1 = some v → v = e.2

theorem upd_act {kb : List Rule} {d : Data} (hkb : KbCons kb) (hd : Compat kb d) {r : Rule}
    {e : Nat × Val} (hr : r ∈ kb) (he : e ∈ r.acts) :
    Ext d (upd d e.1 (some e.2)) ∧ Compat kb (upd d e.1 (some e.2)) := by
  refine ⟨?_, ?_⟩
  · intro k v h
    by_cases hk : k = e.1
    · subst hk
      have := hd r hr e he v h
      simp [upd, this]
    · simp [upd, hk, h]
  · intro r' hr' e' he' v h
    by_cases hk : e'.1 = e.1
    · simp only [upd, hk, if_true] at h
      have h1 : e.2 = v := by injection h
      rw [← h1]
      exact hkb.2 r hr r' hr' e he e' he' hk.symm
    · simp only [upd, hk, if_false] at h
      exact hd r' hr' e' he' v h

theorem applyActsData_grow {kb : List Rule} (hkb : KbCons kb) {r : Rule} (hr : r ∈ kb) :
    ∀ (acts : List (Nat × Val)) (d : Data), (∀ e ∈ acts, e ∈ r.acts) → Compat kb d →
      Ext d (applyActsData acts d) ∧ Compat kb (applyActsData acts d) ∧
      ∀ e ∈ acts, applyActsData acts d e.1 = some e.2 := by
  intro acts
  induction acts with
  | nil => intro d _ hd; exact ⟨Ext.refl _, hd, by intro e he; cases he⟩
  | cons a rest ih =>
    intro d hsub hd
    obtain ⟨f, v⟩ := a
    have ha : (f, v) ∈ r.acts := hsub _ (List.mem_cons_self ..)
    obtain ⟨h1, h2⟩ := upd_act hkb hd hr ha
    obtain ⟨i1, i2, i3⟩ := ih (upd d f (some v)) (fun e he => hsub e (List.mem_cons_of_mem _ he)) h2
    simp only [applyActsData]
    refine ⟨h1.trans i1, i2, ?_⟩
    intro e he
    cases he with
    | head => exact i1 f v (by simp [upd])
    | tail _ he => exact i3 e he

/-! ### equality atoms are monotone in the store -/

theorem evalAtom_mono {d d' : Data} {a : Atom} (ha : a.op = .eq) (h : Ext d d')
    (he : evalAtom d a = true) : evalAtom d' a = true := by
  unfold evalAtom at he ⊢
  cases hd : d a.field with
  | none => simp [hd, ha] at he
  | some v => rw [h _ _ hd]; simpa [hd] using he

theorem isConj_atoms : ∀ {c : Cond}, isConj c = true → ∀ a ∈ condAtoms c, a.op = .eq := by
  intro c
  induction c with
  | atom a =>
    intro h b hb
    simp only [condAtoms, List.mem_singleton] at hb
    subst hb
    simpa [isConj] using h
  | and l r ihl ihr =>
    intro h b hb
    simp only [isConj, Bool.and_eq_true] at h
    simp only [condAtoms, List.mem_append] at hb
    cases hb with
    | inl hb => exact ihl h.1 b hb
    | inr hb => exact ihr h.2 b hb
  | or l r _ _ => intro h; simp [isConj] at h

theorem evalCond_mono {d d' : Data} (h : Ext d d') :
    ∀ {c : Cond}, isConj c = true → evalCond d c = true → evalCond d' c = true := by
  intro c
  induction c with
  | atom a =>
    intro hc he
    simp only [evalCond] at he ⊢
    exact evalAtom_mono (by simpa [isConj] using hc) h he
  | and l r ihl ihr =>
    intro hc he
    simp only [isConj, Bool.and_eq_true] at hc
    simp only [evalCond, Bool.and_eq_true] at he ⊢
    exact ⟨ihl hc.1 he.1, ihr hc.2 he.2⟩
  | or l r _ _ => intro hc; simp [isConj] at hc

/-- a conjunctive condition is true iff all its atoms are -/
theorem evalCond_conj {d : Data} : ∀ {c : Cond}, isConj c = true →
    (evalCond d c = true ↔ ∀ a ∈ condAtoms c, evalAtom d a = true) := by
  intro c
  induction c with
  | atom a => intro _; simp [evalCond, condAtoms]
  | and l r ihl ihr =>
    intro hc
    simp only [isConj, Bool.and_eq_true] at hc
    simp only [evalCond, Bool.and_eq_true, condAtoms, List.mem_append, ihl hc.1, ihr hc.2]
    constructor
    · rintro ⟨h1, h2⟩ a (ha | ha)
      · exact h1 a ha
      · exact h2 a ha
    · intro h
      exact ⟨fun a ha => h a (Or.inl ha), fun a ha => h a (Or.inr ha)⟩
  | or l r _ _ => intro hc; simp [isConj] at hc

theorem concludes_mem {r : Rule} {f : Nat} {v : Val} (h : concludes r f v = true) : (f, v) ∈ r.acts := by
  simp only [concludes, List.any_eq_true, Bool.and_eq_true, beq_iff_eq] at h
  obtain ⟨e, he, h1, h2⟩ := h
  obtain ⟨e1, e2⟩ := e
  simp only at h1 h2
  subst h1; subst h2
  exact he

theorem evalAtom_of_get {d : Data} {a : Atom} (ha : a.op = .eq) (h : d a.field = some a.val) :
    evalAtom d a = true := by
  simp [evalAtom, h, ha, cmpEval]

/-! ### `Grow`: between two points not separated by a rollback the store only grows -/

def Grow (kb : List Rule) (st st' : Store) : Prop :=
  Compat kb st.data → Ext st.data st'.data ∧ Compat kb st'.data

theorem Grow.refl (kb : List Rule) (st : Store) : Grow kb st st := fun h => ⟨Ext.refl _, h⟩

theorem Grow.trans {kb : List Rule} {a b c : Store} (h1 : Grow kb a b) (h2 : Grow kb b c) : Grow kb a c :=
  fun h => ⟨(h1 h).1.trans (h2 (h1 h).2).1, (h2 (h1 h).2).2⟩

theorem grow_applyActs {kb : List Rule} (hkb : KbCons kb) {r : Rule} (hr : r ∈ kb) (st : Store) :
    Grow kb st (fire r st).2 := by
  intro h
  rw [fire_plain (hkb.1 r hr)]
  simp only
  rw [applyActs_data]
  have := applyActsData_grow hkb hr r.acts st.data (fun _ he => he) h
  exact ⟨this.1, this.2.1⟩

theorem proveCond_grow (env : Env) (rec : Rec)
    (hrec : ∀ g c (s : SS), Grow env.kb s.1 (rec g c s).2.1) :
    ∀ (c : Cond) (s : SS), Grow env.kb s.1 (proveCond env rec c s).2.1 := by
  intro c
  induction c with
  | atom a =>
    intro s
    simp only [proveCond]
    split
    · exact Grow.refl _ _
    · exact hrec _ _ s
  | and l r ihl ihr =>
    intro s
    simp only [proveCond]
    split
    · exact (ihl s).trans (ihr (proveCond env rec l s).2)
    · exact ihl s
  | or l r ihl ihr =>
    intro s
    simp only [proveCond]
    split
    · exact ihl s
    · exact (ihl s).trans (ihr (proveCond env rec l s).2)

/-- a returning candidate hands back an extension of the store the loop was started on -/
def CandGrow (kb : List Rule) (st : Store) : CandOut → Prop
  | .ret r => Grow kb st r.2.1
  | .cont _ _ _ => True

theorem execOut_grow (env : Env) (hkb : KbCons env.kb) (top : Bool) (goal : Atom) (found : Bool)
    (st stA : Store) (r : Rule) (ns : Nat) (hr : r ∈ env.kb) (hA : Grow env.kb st stA) :
    CandGrow env.kb st (execOut env top goal found stA r ns) := by
  unfold execOut
  simp only
  split
  · trivial
  · split
    · split
      · intro h
        have h2 := (hA.trans (grow_applyActs hkb hr stA)) h
        simpa [data_commit] using h2
      · trivial
    · trivial

theorem candStep_grow (env : Env) (hkb : KbCons env.kb) (top : Bool) (rec : Rec)
    (hrec : ∀ g c (s : SS), Grow env.kb s.1 (rec g c s).2.1) (goal : Atom) (i : Nat) (found : Bool)
    (st : Store) (ns : Nat) :
    CandGrow env.kb st (candStep env top rec goal i found st ns) := by
  unfold candStep
  have hb : Grow env.kb st (gstep st .begin) := fun h => ⟨Ext.refl _, h⟩
  cases hk : env.kb[i]? with
  | none => trivial
  | some r =>
    have hmem : r ∈ env.kb := List.mem_of_getElem? hk
    simp only
    split
    · exact execOut_grow env hkb top goal found st _ r ns hmem hb
    · split
      · exact execOut_grow env hkb top goal found st _ r _ hmem
          (hb.trans (proveCond_grow env rec hrec r.cond (gstep st .begin, ns)))
      · trivial

theorem tryCands_grow (env : Env) (hkb : KbCons env.kb) (top : Bool) (d0 : Data) (rec : Rec)
    (hrec : ∀ g c s, Good env d0 g s.1 (rec g c s))
    (hrecG : ∀ g c (s : SS), Grow env.kb s.1 (rec g c s).2.1) (goal : Atom) :
    ∀ (cands : List Nat) (found : Bool) (st : Store) (ns : Nat), (env.maxSol = 1 → found = false) →
      Grow env.kb st (tryCands rbCode env top rec goal cands found (st, ns)).2.1 := by
  intro cands
  induction cands with
  | nil => intro found st ns _; exact Grow.refl _ _
  | cons i rest ih =>
    intro found st ns hf
    have hstep := candStep_good env top d0 rec hrec goal i found st ns hf
    have hgrow := candStep_grow env hkb top rec hrecG goal i found st ns
    simp only [tryCands]
    cases hcs : candStep env top rec goal i found st ns with
    | ret r =>
      rw [hcs] at hgrow
      exact hgrow
    | cont found' stX ns' =>
      rw [hcs] at hstep
      obtain ⟨he, hf'⟩ := hstep
      have hrb : rbCode st stX = st := eff_rollback he
      simp only [hrb]
      exact ih found' st ns' hf'

theorem searchN_grow (env : Env) (hkb : KbCons env.kb) :
    ∀ (n : Nat) (top : Bool) (g : Atom) (c : List Nat) (s : SS),
      Grow env.kb s.1 (searchN rbCode env n top g c s).2.1 := by
  intro n
  induction n with
  | zero => intro top g c s; exact Grow.refl _ _
  | succ n ih =>
    intro top g c s
    obtain ⟨st, ns⟩ := s
    simp only [searchN]
    split
    · exact Grow.refl _ _
    · exact tryCands_grow env hkb top st.data _ ((searchN_good env st.data n).1 false) (ih false) g c false st ns
        (fun _ => rfl)

/-! ### derivations -/

/-- `Deriv kb d0 h a`: the equality atom `a` has a derivation of height ≤ `h` from the facts `d0`:
it holds in `d0` (height 0), or some rule with a conjunctive equality condition, whose literals
survive the goal-pattern round trip (`reparse`, finding F-C09b), assigns `a.field := a.val` and
each of its condition atoms has a derivation of height ≤ `h - 1`. -/
inductive Deriv (kb : List Rule) (d0 : Data) : Nat → Atom → Prop
  | fact {h : Nat} {a : Atom} : a.op = .eq → evalAtom d0 a = true → Deriv kb d0 h a
  | rule {h : Nat} {a : Atom} (r : Rule) : a.op = .eq → r ∈ kb → isConj r.cond = true →
      (∀ b ∈ condAtoms r.cond, reparse b = b) → concludes r a.field a.val = true →
      (∀ b ∈ condAtoms r.cond, Deriv kb d0 h b) → Deriv kb d0 (h + 1) a

theorem Deriv.op_eq {kb : List Rule} {d0 : Data} {h : Nat} {a : Atom} (hd : Deriv kb d0 h a) : a.op = .eq := by
  cases hd with
  | fact ha _ => exact ha
  | rule _ ha _ _ _ _ _ => exact ha

theorem Deriv.succ {kb : List Rule} {d0 : Data} {h : Nat} {a : Atom} (hd : Deriv kb d0 h a) :
    Deriv kb d0 (h + 1) a := by
  induction hd with
  | fact ha he => exact .fact ha he
  | rule r ha hr hc hi hcon _ ih => exact .rule r ha hr hc hi hcon ih

theorem Deriv.mono {kb : List Rule} {d0 : Data} {h h' : Nat} {a : Atom} (hle : h ≤ h')
    (hd : Deriv kb d0 h a) : Deriv kb d0 h' a := by
  induction hle with
  | refl => exact hd
  | step _ ih => exact ih.succ

/-- the candidate list offers (an index of) every rule that assigns the atom's value to its field -/
def Covers (kb : List Rule) (cands : List Nat) (a : Atom) : Prop :=
  ∀ r ∈ kb, concludes r a.field a.val = true → ∃ i ∈ cands, kb[i]? = some r

instance (kb : List Rule) (cands : List Nat) (a : Atom) : Decidable (Covers kb cands a) := by
  unfold Covers; infer_instance

/-- `index-style` coverage (every index of a concluding rule is offered) implies `Covers` -/
theorem covers_of_indices {kb : List Rule} {cands : List Nat} {a : Atom}
    (h : ∀ i r, kb[i]? = some r → concludes r a.field a.val = true → i ∈ cands) : Covers kb cands a := by
  intro r hr hcon
  obtain ⟨i, hi⟩ := List.mem_iff_getElem?.mp hr
  exact ⟨i, h i r hi hcon, hi⟩

/-! ### a proven goal holds in the store handed back (sub-goals: every `max_solutions`) -/

/-- the situations in which a `true` answer of the search is backed by the goal comparison on the
store it returns: `max_solutions = 1`, or a sub-goal (`depth > 0`), which stops at its first
proof.  (The query goal under `max_solutions > 1` is finding F-C09c.) -/
def Sure (env : Env) (top : Bool) : Prop := env.maxSol = 1 ∨ top = false

def CandHolds (env : Env) (top : Bool) (goal : Atom) : CandOut → Prop
  | .ret r => evalAtom r.2.1.data goal = true
  | .cont found' _ _ => Sure env top → found' = false

theorem execOut_holds (env : Env) (top : Bool) (goal : Atom) (found : Bool) (stA : Store) (r : Rule)
    (ns : Nat) (hf : Sure env top → found = false) :
    CandHolds env top goal (execOut env top goal found stA r ns) := by
  unfold execOut
  simp only
  split
  · exact hf
  · split
    · rename_i hg
      split
      · simpa [CandHolds, data_commit] using hg
      · rename_i hm
        intro hs
        cases hs with
        | inl h1 => simp [h1] at hm
        | inr h2 => simp [h2] at hm
    · exact hf

theorem candStep_holds (env : Env) (top : Bool) (rec : Rec) (goal : Atom) (i : Nat) (found : Bool)
    (st : Store) (ns : Nat) (hf : Sure env top → found = false) :
    CandHolds env top goal (candStep env top rec goal i found st ns) := by
  unfold candStep
  cases env.kb[i]? with
  | none => exact hf
  | some r =>
    simp only
    split
    · exact execOut_holds env top goal found _ _ ns hf
    · split
      · exact execOut_holds env top goal found _ _ _ hf
      · exact hf

theorem tryCands_holds (rb : Rb) (env : Env) (top : Bool) (rec : Rec) (goal : Atom) (hs : Sure env top) :
    ∀ (cands : List Nat) (found : Bool) (s : SS), found = false →
      (tryCands rb env top rec goal cands found s).1 = true →
      evalAtom (tryCands rb env top rec goal cands found s).2.1.data goal = true := by
  intro cands
  induction cands with
  | nil => intro found s hf h; simp [tryCands, hf] at h
  | cons i rest ih =>
    intro found s hf
    obtain ⟨st, ns⟩ := s
    have hstep := candStep_holds env top rec goal i found st ns (fun _ => hf)
    simp only [tryCands]
    cases hcs : candStep env top rec goal i found st ns with
    | ret r => rw [hcs] at hstep; intro _; exact hstep
    | cont found' stX ns' =>
      rw [hcs] at hstep
      exact ih found' _ (hstep hs)

theorem searchN_holds (rb : Rb) (env : Env) :
    ∀ (n : Nat) (top : Bool) (g : Atom) (c : List Nat) (s : SS), Sure env top →
      (searchN rb env n top g c s).1 = true → evalAtom (searchN rb env n top g c s).2.1.data g = true := by
  intro n
  cases n with
  | zero => intro top g c s _ h; simp [searchN] at h
  | succ n =>
    intro top g c s hs
    simp only [searchN]
    split
    · rename_i hg; intro _; exact hg
    · exact tryCands_holds rb env top _ g hs c false s rfl

/-! ### completeness of the candidate loop, of condition proving, of the search -/

/-- the candidate proved the goal: it returned "proven", or (query goal, `max_solutions > 1`) it
recorded a solution and let the loop go on -/
def CandOut.proves : CandOut → Prop
  | .ret r => r.1 = true
  | .cont found' _ _ => found' = true

theorem execOut_found {env : Env} {top : Bool} {goal : Atom} {stA : Store} {r : Rule} {ns : Nat} :
    (execOut env top goal true stA r ns).proves := by
  unfold execOut
  simp only
  split
  · simp [CandOut.proves]
  · split
    · split <;> simp [CandOut.proves]
    · simp [CandOut.proves]

/-- `found_solution` is never reset -/
theorem candStep_found {env : Env} {top : Bool} {rec : Rec} {goal : Atom} {i : Nat} {st : Store} {ns : Nat} :
    (candStep env top rec goal i true st ns).proves := by
  unfold candStep
  cases env.kb[i]? with
  | none => simp [CandOut.proves]
  | some r =>
    simp only
    split
    · exact execOut_found
    · split
      · exact execOut_found
      · simp [CandOut.proves]

theorem tryCands_found (rb : Rb) (env : Env) (top : Bool) (rec : Rec) (goal : Atom) :
    ∀ (cands : List Nat) (s : SS), (tryCands rb env top rec goal cands true s).1 = true := by
  intro cands
  induction cands with
  | nil => intro s; rfl
  | cons i rest ih =>
    intro s
    obtain ⟨st, ns⟩ := s
    have h := @candStep_found env top rec goal i st ns
    simp only [tryCands]
    cases hcs : candStep env top rec goal i true st ns with
    | ret r => rw [hcs] at h; exact h
    | cont found' stX ns' =>
      rw [hcs] at h
      simp only [CandOut.proves] at h
      subst h
      exact ih _

/-- if the candidate at index `i` proves the goal on `st` whatever the solution counter is, the
loop over any list containing `i`, started on `st`, ends proven: an earlier candidate either
proves the goal itself or is rolled back to exactly `st` (C10's frame theorem). -/
theorem tryCands_complete (env : Env) (top : Bool) (d0 : Data) (rec : Rec)
    (hrec : ∀ g c s, Good env d0 g s.1 (rec g c s)) (goal : Atom) (st : Store) (i : Nat)
    (hi : ∀ ns, (candStep env top rec goal i false st ns).proves) :
    ∀ (cands : List Nat) (ns : Nat), i ∈ cands →
      (tryCands rbCode env top rec goal cands false (st, ns)).1 = true := by
  intro cands
  induction cands with
  | nil => intro ns hm; cases hm
  | cons j rest ih =>
    intro ns hm
    have hstep := candStep_good env top d0 rec hrec goal j false st ns (fun _ => rfl)
    simp only [tryCands]
    cases hcs : candStep env top rec goal j false st ns with
    | ret res => exact candStep_ret_true hcs
    | cont found' stX ns' =>
      rw [hcs] at hstep
      obtain ⟨he, _⟩ := hstep
      have hrb : rbCode st stX = st := eff_rollback he
      simp only [hrb]
      cases found' with
      | true => exact tryCands_found rbCode env top rec goal rest _
      | false =>
        by_cases hji : j = i
        · subst hji
          have := hi ns
          rw [hcs] at this
          simp [CandOut.proves] at this
        · have : i ∈ rest := by
            cases hm with
            | head => exact absurd rfl hji
            | tail _ h => exact h
          exact ih ns' this

/-- proving a conjunctive condition all of whose atoms are "true or provable by `rec`" on every
compatible extension of `d0`: succeeds, and the whole condition is true afterwards (atoms proven
earlier stay true because the store only grows). -/
theorem proveCond_complete (env : Env) (d0 : Data) (rec : Rec)
    (hrecH : ∀ g c (s : SS), (rec g c s).1 = true → evalAtom (rec g c s).2.1.data g = true)
    (hrecG : ∀ g c (s : SS), Grow env.kb s.1 (rec g c s).2.1) :
    ∀ (c : Cond), isConj c = true → (∀ b ∈ condAtoms c, reparse b = b) →
      (∀ b ∈ condAtoms c, ∀ (st : Store) (ns : Nat), Ext d0 st.data → Compat env.kb st.data →
        evalAtom st.data b = true ∨ (rec b (env.subCands b) (st, ns)).1 = true) →
      ∀ s : SS, Ext d0 s.1.data → Compat env.kb s.1.data →
        (proveCond env rec c s).1 = true ∧ evalCond (proveCond env rec c s).2.1.data c = true := by
  intro c
  induction c with
  | atom a =>
    intro _ hre hat s he hc
    obtain ⟨st, ns⟩ := s
    simp only [proveCond, evalCond]
    have hra : reparse a = a := hre a (by simp [condAtoms])
    by_cases hev : evalAtom st.data a = true
    · simp [hev]
    · simp only [hev, hra]
      cases hat a (by simp [condAtoms]) st ns he hc with
      | inl h => exact absurd h hev
      | inr h => exact ⟨h, hrecH a (env.subCands a) (st, ns) h⟩
  | and l r ihl ihr =>
    intro hcj hre hat s he hc
    simp only [isConj, Bool.and_eq_true] at hcj
    have hl := ihl hcj.1 (fun b hb => hre b (by simp [condAtoms, hb]))
      (fun b hb => hat b (by simp [condAtoms, hb])) s he hc
    have hgl := proveCond_grow env rec hrecG l s hc
    have hr := ihr hcj.2 (fun b hb => hre b (by simp [condAtoms, hb]))
      (fun b hb => hat b (by simp [condAtoms, hb])) (proveCond env rec l s).2 (he.trans hgl.1) hgl.2
    have hgr := proveCond_grow env rec hrecG r (proveCond env rec l s).2 hgl.2
    simp only [proveCond, hl.1, if_true, evalCond, Bool.and_eq_true]
    exact ⟨hr.1, evalCond_mono hgr.1 hcj.1 hl.2, hr.2⟩
  | or l r _ _ => intro hcj; simp [isConj] at hcj

/-- the candidate whose rule concludes the goal and whose condition atoms are all "true or
provable one level deeper" proves the goal -/
theorem candStep_complete (env : Env) (hkb : KbCons env.kb) (top : Bool) (d0 : Data) (rec : Rec)
    (hrecH : ∀ g c (s : SS), (rec g c s).1 = true → evalAtom (rec g c s).2.1.data g = true)
    (hrecG : ∀ g c (s : SS), Grow env.kb s.1 (rec g c s).2.1)
    (goal : Atom) (hgo : goal.op = .eq) (i : Nat) (r : Rule) (hk : env.kb[i]? = some r)
    (hcj : isConj r.cond = true) (hre : ∀ b ∈ condAtoms r.cond, reparse b = b)
    (hcon : concludes r goal.field goal.val = true)
    (hat : ∀ b ∈ condAtoms r.cond, ∀ (st : Store) (ns : Nat), Ext d0 st.data → Compat env.kb st.data →
        evalAtom st.data b = true ∨ (rec b (env.subCands b) (st, ns)).1 = true)
    (st : Store) (he : Ext d0 st.data) (hc : Compat env.kb st.data) (found : Bool) (ns : Nat) :
    (candStep env top rec goal i found st ns).proves := by
  have hmem : r ∈ env.kb := List.mem_of_getElem? hk
  -- executing the rule on any compatible store makes the goal comparison true
  have hexec : ∀ (stA : Store) (ns' : Nat), Compat env.kb stA.data →
      (execOut env top goal found stA r ns').proves := by
    intro stA ns' hcA
    have h3 := (applyActsData_grow hkb hmem r.acts stA.data (fun _ h => h) hcA).2.2 _ (concludes_mem hcon)
    have hg : evalAtom (applyActs r.acts stA).data goal = true := by
      rw [applyActs_data]; exact evalAtom_of_get hgo h3
    simp only [execOut, fire_plain (hkb.1 r hmem), Bool.not_true, Bool.false_eq_true, if_false, hg, if_true]
    split <;> simp [CandOut.proves]
  have hd : (gstep st .begin).data = st.data := rfl
  simp only [candStep, hk]
  by_cases hcond : evalCond (gstep st .begin).data r.cond = true
  · simp only [hcond, if_true]
    exact hexec _ _ (by rw [hd]; exact hc)
  · simp only [hcond]
    have hp := proveCond_complete env d0 rec hrecH hrecG r.cond hcj hre hat (gstep st .begin, ns)
      (by rw [hd]; exact he) (by rw [hd]; exact hc)
    have hg := proveCond_grow env rec hrecG r.cond (gstep st .begin, ns) (by rw [hd]; exact hc)
    simp only [hp.1, hp.2, Bool.and_self, if_true]
    exact hexec _ _ hg.2

/-- **Main lemma**: a derivation of height ≤ `n`, on every compatible extension `st` of the facts
the derivation starts from, under every candidate list that covers the atom, every
`max_solutions`: the atom is already true in `st`, or the recursive search with `n` levels of
depth budget (`depth = max_depth + 1 - n`) proves it. -/
theorem searchN_complete (env : Env) (hkb : KbCons env.kb) (d0 : Data)
    (hsub : ∀ r ∈ env.kb, ∀ b ∈ condAtoms r.cond, Covers env.kb (env.subCands b) b) :
    ∀ {n : Nat} {a : Atom}, Deriv env.kb d0 n a →
      ∀ (top : Bool) (cands : List Nat) (st : Store) (ns : Nat),
        Covers env.kb cands a → Ext d0 st.data → Compat env.kb st.data →
        evalAtom st.data a = true ∨ (searchN rbCode env n top a cands (st, ns)).1 = true := by
  intro n a hd
  induction hd with
  | fact ha he0 =>
    intro top cands st ns _ he _
    exact Or.inl (evalAtom_mono ha he he0)
  | @rule h a r ha hr hcj hre hcon _ ih =>
    intro top cands st ns hcov he hc
    by_cases hg : evalAtom st.data a = true
    · exact Or.inl hg
    · right
      obtain ⟨i, hi, hk⟩ := hcov r hr hcon
      simp only [searchN, hg]
      have hrec := (searchN_good env st.data h).1 false
      have hrecG := searchN_grow env hkb h false
      have hrecH : ∀ g c (s : SS), (searchN rbCode env h false g c s).1 = true →
          evalAtom (searchN rbCode env h false g c s).2.1.data g = true :=
        fun g c s => searchN_holds rbCode env h false g c s (Or.inr rfl)
      apply tryCands_complete env top st.data _ hrec a st i _ cands ns hi
      intro ns'
      exact candStep_complete env hkb top d0 _ hrecH hrecG a ha i r hk hcj hre hcon
        (fun b hb st' ns'' he' hc' => ih b hb false (env.subCands b) st' ns'' (hsub r hr b hb) he' hc')
        st he hc false ns'

/-! ### from the oracle's reference computation (`Spec.lean`) to derivations -/

theorem deriv_of_levels (kb : List Rule) (d0 : Data) (hconj : ∀ r ∈ kb, isConj r.cond = true)
    (hni : ∀ r ∈ kb, ∀ b ∈ condAtoms r.cond, reparse b = b) :
    ∀ (k : Nat) (a : Atom), a.op = .eq → (levels kb d0 k).contains (a.field, a.val) = true →
      Deriv kb d0 k a := by
  intro k
  induction k with
  | zero => intro a _ h; simp [levels] at h
  | succ k ih =>
    intro a ha h
    simp only [levels, List.contains_iff_mem, List.mem_filter, List.any_eq_true, Bool.and_eq_true,
      List.all_eq_true, Bool.or_eq_true] at h
    obtain ⟨_, r, hr, hcon, hprem⟩ := h
    refine .rule r ha hr (hconj r hr) (hni r hr) hcon ?_
    intro b hb
    have hbo : b.op = .eq := isConj_atoms (hconj r hr) b hb
    cases hprem b hb with
    | inl h0 => exact .fact hbo h0
    | inr hl => exact ih b hbo (by simpa [List.contains_iff_mem] using hl)

/-- conversely, every derivation is found by the oracle's level computation -/
theorem levels_of_deriv (kb : List Rule) (d0 : Data) :
    ∀ {k : Nat} {a : Atom}, Deriv kb d0 k a →
      evalAtom d0 a = true ∨ (levels kb d0 k).contains (a.field, a.val) = true := by
  intro k a hd
  induction hd with
  | fact _ he => exact Or.inl he
  | @rule h a r _ hr _ _ hcon _ ih =>
    right
    simp only [levels, List.contains_iff_mem, List.mem_filter, List.any_eq_true, Bool.and_eq_true,
      List.all_eq_true, Bool.or_eq_true, List.mem_flatMap]
    refine ⟨⟨r, hr, concludes_mem hcon⟩, r, hr, hcon, ?_⟩
    intro b hb
    cases ih b hb with
    | inl h0 => exact Or.inl h0
    | inr hl => exact Or.inr (by simpa [List.contains_iff_mem] using hl)

theorem dataOf_mem {l : Facts} {k : Nat} {v : Val} (h : dataOf l k = some v) : (k, v) ∈ l := by
  simp only [dataOf, Option.map_eq_some_iff] at h
  obtain ⟨e, he, hv⟩ := h
  have hm := List.mem_of_find?_eq_some he
  have hk := List.find?_some he
  simp only [beq_iff_eq] at hk
  obtain ⟨e1, e2⟩ := e
  simp only at hk hv
  subst hk; subst hv
  exact hm

theorem consistent_spec {asg : List (Nat × Val)} (h : consistent asg = true) :
    ∀ a ∈ asg, ∀ b ∈ asg, a.1 = b.1 → a.2 = b.2 := by
  intro a ha b hb hab
  simp only [consistent, List.all_eq_true, Bool.or_eq_true, bne_iff_ne, ne_eq, beq_iff_eq] at h
  cases h a ha b hb with
  | inl h1 => exact absurd hab h1
  | inr h2 => exact h2

theorem isHorn_spec {kb : List Rule} {before : Facts} (h : isHorn kb before = true) :
    (∀ r ∈ kb, isConj r.cond = true) ∧ KbCons kb ∧ Compat kb (dataOf before) := by
  simp only [isHorn, plainKb, Bool.and_eq_true, List.all_eq_true, List.isEmpty_iff] at h
  obtain ⟨⟨hc, hpl⟩, hcons⟩ := h
  have hs := consistent_spec hcons
  have hact : ∀ r ∈ kb, ∀ e ∈ r.acts, e ∈ allAssignments kb before := by
    intro r hr e he
    simp only [allAssignments, List.mem_append, List.mem_flatMap]
    exact Or.inr ⟨r, hr, he⟩
  refine ⟨hc, ⟨hpl, ?_⟩, ?_⟩
  · intro r hr r' hr' e he e' he' hee
    exact hs e (hact r hr e he) e' (hact r' hr' e' he') hee
  · intro r hr e he v hv
    have hm : (e.1, v) ∈ allAssignments kb before := by
      simp only [allAssignments, List.mem_append]
      exact Or.inl (dataOf_mem hv)
    exact hs (e.1, v) hm e (hact r hr e he) rfl

end C09
