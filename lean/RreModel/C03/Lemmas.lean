import RreModel.C03.Spec
import RreModel.C02.Lemmas
namespace C03
open C02

theorem ruleStep_fired_eq (t : Nat) (st : St) (r : Rule) :
    (ruleStep t st r).fired = fireCount (ruleStep t st r).log := by
  rw [fireCount_eq_length, ruleStep_firedRules]
  rcases ruleStep_cases t st r with c | c | c
  · simp [c.2.1]
  · simp [c.2.1]
  · simp [c.2.1]

theorem passLoop_fired_eq (t : Nat) (rs : List Rule) (st : St) :
    (passLoop t rs st).fired = fireCount (passLoop t rs st).log := by
  induction rs generalizing st with
  | nil => simp [passLoop, fireCount]
  | cons r rs ih =>
    simp only [passLoop]
    split
    · simp only [PassOut.andThen, fireCount_append, ih, ruleStep_fired_eq]
    · exact ruleStep_fired_eq t st r

theorem passLoop_evaluated_eq (t : Nat) (rs : List Rule) (st : St) :
    (passLoop t rs st).evaluated = gatePasses t rs st := by
  induction rs generalizing st with
  | nil => simp [passLoop, gatePasses]
  | cons r rs ih =>
    have he : (ruleStep t st r).evaluated = (if gate st t r then 1 else 0) := by
      rcases ruleStep_cases t st r with c | c | c
      · simp [c.2.2.1, c.2.2.2.1]
      · simp [c.2.2.1, c.2.2.2.1]
      · exact c.2.2.1
    simp only [passLoop, gatePasses]
    split
    · simp only [PassOut.andThen, ih, he]
    · simp [he]

/-- a pass that completes without firing leaves the state (and the facts) as they were, and every
rule had its gate or its condition false on that state -/
theorem silent_pass {t : Nat} {rs : List Rule} {st : St} (hok : (passLoop t rs st).ok = true)
    (hf : (passLoop t rs st).fired = 0) :
    (passLoop t rs st).st = st ∧ ∀ r ∈ rs, (gate st t r && r.cond.holds st.facts) = false := by
  induction rs generalizing st with
  | nil => simp [passLoop]
  | cons r rs ih =>
    simp only [passLoop] at hok hf ⊢
    rcases ruleStep_cases t st r with c | c | c
    · simp only [c.1, if_true, PassOut.andThen, c.2.1] at hf; omega
    · simp [c.1] at hok
    · simp only [c.1, if_true, PassOut.andThen, c.2.1, Nat.zero_add, c.2.2.2.2.1] at hok hf ⊢
      obtain ⟨h1, h2⟩ := ih hok hf
      refine ⟨h1, ?_⟩
      intro r' hr'
      rcases List.mem_cons.mp hr' with rfl | hr'
      · exact c.2.2.2.1
      · exact h2 r' hr'

theorem execActions_fail {st : St} {as : List Action} (h : (execActions st as).2.2 = false) :
    ∃ (f : Nat) (k : Int) (s : St), Action.add f k ∈ as ∧ fget s.facts f = none := by
  induction as generalizing st with
  | nil => simp [execActions] at h
  | cons a rest ih =>
    unfold execActions at h
    cases hx : execAction st a with
    | none =>
      cases a with
      | set f v => simp [execAction] at hx
      | activate g => simp [execAction] at hx
      | add f k =>
        refine ⟨f, k, st, by simp, ?_⟩
        simp only [execAction] at hx
        cases hg : fget st.facts f with
        | none => rfl
        | some x => simp [hg] at hx
    | some st' =>
      simp only [hx] at h
      obtain ⟨f, k, s, h1, h2⟩ := ih h
      exact ⟨f, k, s, List.mem_cons_of_mem _ h1, h2⟩

theorem passLoop_fail {t : Nat} {rs : List Rule} {st : St} (h : (passLoop t rs st).ok = false) :
    ∃ (s : St) (r : Rule), r ∈ rs ∧ gate s t r = true ∧ r.cond.holds s.facts = true ∧
      (execActions s r.actions).2.2 = false := by
  induction rs generalizing st with
  | nil => simp [passLoop] at h
  | cons r rs ih =>
    simp only [passLoop] at h
    by_cases ho : (ruleStep t st r).ok = true
    · simp only [ho, if_true, PassOut.andThen] at h
      obtain ⟨s, r', h1, h2⟩ := ih h
      exact ⟨s, r', List.mem_cons_of_mem _ h1, h2⟩
    · rcases ruleStep_cases t st r with c | c | c
      · exact absurd c.1 ho
      · exact ⟨st, r, by simp, c.2.2.2.1, c.2.2.2.2.1, c.2.2.2.2.2.1⟩
      · exact absurd c.1 ho


/-! ### the three ways a cycle can go -/

/-- the pass of the first cycle from `st` -/
def firstPass (t : Nat) (st : St) : PassOut := passLoop t (sortSal st.rules) { st with actFired := [] }

theorem cycles_succ_err {t n : Nat} {st : St} (h : (firstPass t st).ok = false) :
    cycles t (n + 1) st =
      { st := (firstPass t st).st, cycles := 1, evaluated := (firstPass t st).evaluated,
        fired := (firstPass t st).fired, passes := [(firstPass t st).log], ok := false } := by
  simp only [firstPass] at h
  simp [cycles, firstPass, h]

theorem cycles_succ_silent {t n : Nat} {st : St} (h : (firstPass t st).ok = true) (hf : (firstPass t st).fired = 0) :
    cycles t (n + 1) st =
      { st := (firstPass t st).st, cycles := 1, evaluated := (firstPass t st).evaluated,
        fired := (firstPass t st).fired, passes := [(firstPass t st).log], ok := true } := by
  simp only [firstPass] at h hf
  simp [cycles, firstPass, h, hf]

theorem cycles_succ_more {t n : Nat} {st : St} (h : (firstPass t st).ok = true) (hf : (firstPass t st).fired ≠ 0) :
    cycles t (n + 1) st =
      { st := (cycles t n (sync (firstPass t st).st)).st,
        cycles := (cycles t n (sync (firstPass t st).st)).cycles + 1,
        evaluated := (firstPass t st).evaluated + (cycles t n (sync (firstPass t st).st)).evaluated,
        fired := (firstPass t st).fired + (cycles t n (sync (firstPass t st).st)).fired,
        passes := (firstPass t st).log :: (cycles t n (sync (firstPass t st).st)).passes,
        ok := (cycles t n (sync (firstPass t st).st)).ok } := by
  simp only [firstPass] at h hf
  simp [cycles, firstPass, h, hf]

theorem firstPass_rules (t : Nat) (st : St) : (sync (firstPass t st).st).rules = st.rules := by
  simp only [sync, firstPass]; exact (passLoop_rules _ _ _).1

/-! ### the cycle loop -/

theorem getLast?_cons_of_some {α} {a x : α} {l : List α} (h : l.getLast? = some x) : (a :: l).getLast? = some x := by
  cases l with
  | nil => simp at h
  | cons b l' => rw [List.getLast?_cons_cons]; exact h

theorem cycles_count (t n : Nat) (st : St) :
    (cycles t n st).cycles ≤ n ∧ (cycles t n st).cycles = (cycles t n st).passes.length := by
  induction n generalizing st with
  | zero => simp [cycles]
  | succ n ih =>
    simp only [cycles]
    split
    · simp
    · split
      · simp
      · have := ih (sync (passLoop t (sortSal st.rules) { st with actFired := [] }).st)
        simp only [List.length_cons]; omega

theorem cycles_fired (t n : Nat) (st : St) :
    (cycles t n st).fired = fireCount (cycles t n st).passes.flatten := by
  induction n generalizing st with
  | zero => simp [cycles, fireCount]
  | succ n ih =>
    simp only [cycles]
    split
    · simp [passLoop_fired_eq]
    · split
      · simp [passLoop_fired_eq]
      · simp only [List.flatten_cons, fireCount_append, ih, passLoop_fired_eq]

theorem cycles_evaluated (t n : Nat) (st : St) :
    (cycles t n st).evaluated = ((passStarts t n st).map (fun s => gatePasses t (sortSal s.rules) s)).sum ∧
    (cycles t n st).passes = (passStarts t n st).map (fun s => (passLoop t (sortSal s.rules) s).log) := by
  induction n generalizing st with
  | zero => simp [cycles, passStarts]
  | succ n ih =>
    simp only [cycles, passStarts]
    split
    · simp [passLoop_evaluated_eq]
    · split
      · simp [passLoop_evaluated_eq]
      · have := ih (sync (passLoop t (sortSal st.rules) { st with actFired := [] }).st)
        simp only [List.map_cons, List.sum_cons, this.1, this.2, passLoop_evaluated_eq]
        exact ⟨trivial, trivial⟩

theorem cycles_early_stop {t n : Nat} {st : St} (hok : (cycles t n st).ok = true) (hlt : (cycles t n st).cycles < n) :
    ∃ last, (cycles t n st).passes.getLast? = some last ∧ fireCount last = 0 := by
  induction n generalizing st with
  | zero => omega
  | succ n ih =>
    by_cases h1 : (firstPass t st).ok = true
    · by_cases h2 : (firstPass t st).fired = 0
      · rw [cycles_succ_silent h1 h2]
        exact ⟨_, rfl, by rw [← h2]; exact (passLoop_fired_eq _ _ _).symm⟩
      · rw [cycles_succ_more h1 h2] at hok hlt ⊢
        obtain ⟨last, h3, h4⟩ := ih hok (by simp only at hlt; omega)
        exact ⟨last, getLast?_cons_of_some h3, h4⟩
    · rw [cycles_succ_err (by simpa using h1)] at hok
      simp at hok

theorem cycles_silent_is_last {t n : Nat} {st : St} {pre post : List (List Ev)} {p : List Ev}
    (h : (cycles t n st).passes = pre ++ p :: post) (hpost : post ≠ []) : fireCount p ≠ 0 := by
  induction n generalizing st pre with
  | zero => simp [cycles] at h
  | succ n ih =>
    simp only [cycles] at h
    have hlen : ∀ x : List Ev, [x] = pre ++ p :: post → False := by
      intro x hx
      have := congrArg List.length hx
      cases post with
      | nil => exact hpost rfl
      | cons _ _ => simp at this; omega
    split at h
    · exact (hlen _ h).elim
    · split at h
      · exact (hlen _ h).elim
      · rename_i h1 h2
        cases pre with
        | nil =>
          simp only [List.nil_append, List.cons.injEq] at h
          rw [← h.1, ← passLoop_fired_eq]; exact h2
        | cons a pre' =>
          simp only [List.cons_append, List.cons.injEq] at h
          exact ih h.2

theorem cycles_fixpoint {t n : Nat} {st : St} {last : List Ev} (hok : (cycles t n st).ok = true)
    (hl : (cycles t n st).passes.getLast? = some last) (hs : fireCount last = 0) :
    (cycles t n st).st.rules = st.rules ∧ (cycles t n st).st.actFired = [] ∧
    ∀ r ∈ st.rules, (gate (cycles t n st).st t r && r.cond.holds (cycles t n st).st.facts) = false := by
  induction n generalizing st with
  | zero => simp [cycles] at hl
  | succ n ih =>
    by_cases h1 : (firstPass t st).ok = true
    · by_cases h2 : (firstPass t st).fired = 0
      · rw [cycles_succ_silent h1 h2]
        obtain ⟨e1, e2⟩ := silent_pass h1 h2
        simp only [firstPass, e1]
        exact ⟨trivial, trivial, fun r hr => e2 r (mem_sortSal.mpr hr)⟩
      · rw [cycles_succ_more h1 h2] at hok hl ⊢
        cases hp : (cycles t n (sync (firstPass t st).st)).passes with
        | nil =>
          -- the bound was reached right after a pass that fired: `last` is that pass
          rw [hp] at hl
          simp only [List.getLast?_singleton, Option.some.injEq] at hl
          rw [← hl] at hs
          have := passLoop_fired_eq t (sortSal st.rules) { st with actFired := [] }
          simp only [firstPass] at h2 hs
          omega
        | cons b l' =>
          rw [hp, List.getLast?_cons_cons, ← hp] at hl
          have := ih hok hl
          rw [firstPass_rules] at this
          exact this
    · rw [cycles_succ_err (by simpa using h1)] at hok
      simp at hok

theorem cycles_fail {t n : Nat} {st : St} (h : (cycles t n st).ok = false) :
    ∃ (s : St) (r : Rule), r ∈ st.rules ∧ gate s t r = true ∧ r.cond.holds s.facts = true ∧
      (execActions s r.actions).2.2 = false := by
  induction n generalizing st with
  | zero => simp [cycles] at h
  | succ n ih =>
    by_cases h1 : (firstPass t st).ok = true
    · by_cases h2 : (firstPass t st).fired = 0
      · rw [cycles_succ_silent h1 h2] at h; simp at h
      · rw [cycles_succ_more h1 h2] at h
        obtain ⟨s, r, a, b⟩ := ih h
        rw [firstPass_rules] at a
        exact ⟨s, r, a, b⟩
    · obtain ⟨s, r, a, b⟩ := passLoop_fail (t := t) (rs := sortSal st.rules) (st := { st with actFired := [] })
        (by simpa [firstPass] using h1)
      exact ⟨s, r, mem_sortSal.mp a, b⟩

end C03
