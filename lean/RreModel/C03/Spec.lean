import RreModel.C03.Model
import RreModel.C02.Spec
/-
C03 — the clauses evaluated on `GruleExecutionResult {cycle_count, rules_fired, rules_evaluated}`, the
callback count and the final facts.
-/
namespace C03
open C02

/-- counters of one `execute` against `max_cycles`, the number of firings observed (callback count) and
the size of the knowledge base -/
def countersOk (maxc cycles evaluated fired nFirings nRules : Nat) : Bool :=
  cycles ≤ maxc && fired == nFirings && fired ≤ evaluated && evaluated ≤ cycles * nRules
  && (if maxc = 0 then cycles == 0 && evaluated == 0 && fired == 0 else cycles ≥ 1)
  -- every pass but possibly the last fires at least one rule
  && cycles ≤ fired + 1

/-- the eligibility gate at the end of an execution, from the reference bookkeeping of C02's scan
(activation groups are reset at the start of a pass, so they do not block at a fixpoint) -/
def refGate (R : Ref) (active t : Nat) (r : Rule) : Bool :=
  r.enabled && r.group == active && r.activeAt t
  && !(r.noLoop && R.nl.contains r.name) && !(r.lock && R.lk.contains (r.group, r.name))

/-- fixpoint: no rule that is still eligible has a true condition on the final facts -/
def fixpointOk (R : Ref) (active t : Nat) (rules : List Rule) (facts : List (Nat × Int)) : Bool :=
  rules.all (fun r => !(refGate R active t r && r.cond.holds facts))

end C03
