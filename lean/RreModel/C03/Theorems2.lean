import RreModel.C03.Theorems
import RreModel.C02.Theorems2
/-
C03 — property theorems, part 2: `cycle_count` against the segmented replay of the firing log (RreModel/C02/Passes.lean).
-/
namespace C03
open C02

/-- **replay_counts_cycles.** For every state (exact reference state), rule set, timestamp and `max_cycles`: the replay of
the log of an `execute` that returns `Ok`, with the returned `cycle_count` as fuel, is accepted and recovers exactly
`cycle_count` passes; when the call returned before the bound the last recovered pass is empty (the call stopped at a
pass that fired nothing — at a fixpoint, `fixpoint_on_early_stop`). -/
theorem replay_counts_cycles (maxc t : Nat) (st : St) (s : RSt)
    (h : Rel { s with af := [] } { sync st with actFired := [] }) (hok : (exec maxc t st).ok = true) :
    ∃ s' segs, segAccept maxc t (sortSal st.rules) (exec maxc t st).cycles s
        ((exec maxc t st).passes.flatten.map levOfEv) = .ok (s', segs) ∧
      segs.length = (exec maxc t st).cycles ∧ segs.length ≤ maxc ∧
      ((exec maxc t st).cycles < maxc → segs.getLast? = some []) := by
  obtain ⟨s', h1, _, _⟩ := exec_passes_accepted_rel maxc t st s h hok
  refine ⟨s', _, h1, ?_, ?_, ?_⟩
  · rw [List.length_map]; exact ((cycles_count t maxc (sync st)).2).symm
  · rw [List.length_map]
    have := cycles_count t maxc (sync st)
    simp only [exec]; omega
  · intro hlt
    obtain ⟨last, h2, h3⟩ := cycles_early_stop (t := t) (n := maxc) (st := sync st) hok hlt
    simp only [exec, List.getLast?_map, h2, Option.map_some]
    rw [fireCount_eq_length] at h3
    have : firedRules last = [] := List.eq_nil_of_length_eq_zero h3
    rw [this]; rfl

end C03
