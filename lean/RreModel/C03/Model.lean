import RreModel.C02.Model
/-
C03 — "execute always returns, within max_cycles, at a fixpoint or at the bound".
The model of `execute_at_time` / `execute_with_callback` is the one of C02 (`C02.exec`, `C02.cycles`,
`C02.passLoop` in RreModel/C02/Model.lean): `cycles` recurses structurally on the number of cycles left,
i.e. on the code's own bound `max_cycles` — Lean accepts the definition only because that bound exists.
This file adds the ghost bookkeeping the C03 statements talk about: the state each pass starts from and
the number of gate passes of a pass.
-/
namespace C03
open C02

/-- the states the successive passes of `cycles t n st` start from (activation groups already reset) -/
def passStarts (t : Nat) : Nat → St → List St
  | 0, _ => []
  | n + 1, st =>
    let st0 := { st with actFired := [] }
    let p := passLoop t (sortSal st0.rules) st0
    if !p.ok then [st0]
    else if p.fired = 0 then [st0]
    else st0 :: passStarts t n (sync p.st)

/-- number of rules that pass the eligibility gate at their turn during a pass from `st`
(the pass stops at a failing action) -/
def gatePasses (t : Nat) : List Rule → St → Nat
  | [], _ => 0
  | r :: rs, st =>
    (if gate st t r then 1 else 0) +
    (if (ruleStep t st r).ok then gatePasses t rs (ruleStep t st r).st else 0)

end C03
