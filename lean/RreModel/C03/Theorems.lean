import RreModel.C03.Lemmas
import RreModel.C02.ApiLemmas
/-
C03 — property theorems (only). "execute always returns, within max_cycles, at a fixpoint or at the bound."
`exec maxc t st` is total by construction: it is structural recursion on `max_cycles` (the code's own
`for cycle in 0..max_cycles`) around a pass that is structural recursion on the rule vector; so "every
call returns" is the fact that Lean accepted the definitions, and the theorems below say *what* it
returns, for every rule set (self-triggering and mutually triggering ones included), every state and facts,
every evaluation timestamp and every `max_cycles`.
-/
namespace C03
open C02

/-! ## counters -/

/-- **cycle_count_le.** `cycle_count ≤ max_cycles`, and it is the number of passes started. -/
theorem cycle_count_le (maxc t : Nat) (st : St) :
    (exec maxc t st).cycles ≤ maxc ∧ (exec maxc t st).cycles = (exec maxc t st).passes.length :=
  cycles_count t maxc (sync st)

/-- **fired_eq_log_length.** `rules_fired` is the number of firings in the log (= callback calls). -/
theorem fired_eq_log_length (maxc t : Nat) (st : St) :
    (exec maxc t st).fired = (firedRules (exec maxc t st).passes.flatten).length := by
  rw [← fireCount_eq_length]; exact cycles_fired t maxc (sync st)

/-- **evaluated_eq_gate_passes.** `rules_evaluated` is the total, over the passes made, of the number of
rules that passed the eligibility gate at their turn; the passes are the passes over the
salience-sorted vector from the listed start states. -/
theorem evaluated_eq_gate_passes (maxc t : Nat) (st : St) :
    (exec maxc t st).evaluated =
      ((passStarts t maxc (sync st)).map (fun s => gatePasses t (sortSal s.rules) s)).sum ∧
    (exec maxc t st).passes =
      (passStarts t maxc (sync st)).map (fun s => (passLoop t (sortSal s.rules) s).log) :=
  cycles_evaluated t maxc (sync st)

/-! ## stopping -/

/-- **early_stop_iff.** If `execute` returns `Ok` with `cycle_count < max_cycles`, the last pass fired
nothing; and in every execution a pass that fires nothing is the last one (every pass that is followed
by another fired at least one rule). -/
theorem early_stop_iff (maxc t : Nat) (st : St) :
    ((exec maxc t st).ok = true → (exec maxc t st).cycles < maxc →
        ∃ last, (exec maxc t st).passes.getLast? = some last ∧ fireCount last = 0) ∧
    (∀ pre p post, (exec maxc t st).passes = pre ++ p :: post → post ≠ [] → fireCount p ≠ 0) :=
  ⟨cycles_early_stop, fun _ _ _ h hp => cycles_silent_is_last h hp⟩

/-- **fixpoint_on_early_stop.** If `execute` returns `Ok` and its last pass fired nothing (in particular
whenever `cycle_count < max_cycles`), then in the final state and on the final facts no rule of the
knowledge base that passes the eligibility gate has a true condition. (The silent pass left state and
facts unchanged — `silent_pass` — so "eligible at the end" is "eligible when evaluated".) -/
theorem fixpoint_on_early_stop {maxc t : Nat} {st : St} {last : List Ev} (hok : (exec maxc t st).ok = true)
    (hl : (exec maxc t st).passes.getLast? = some last) (hs : fireCount last = 0) :
    (exec maxc t st).st.rules = st.rules ∧
    ∀ r ∈ (exec maxc t st).st.rules, gate (exec maxc t st).st t r = true →
      r.cond.holds (exec maxc t st).st.facts = false := by
  obtain ⟨h1, _, h3⟩ := cycles_fixpoint hok hl hs
  have hr : (sync st).rules = st.rules := rfl
  refine ⟨h1.trans hr, ?_⟩
  intro r hr' hg
  have hmem : r ∈ (sync st).rules := by
    have : (exec maxc t st).st.rules = (sync st).rules := h1
    rw [this] at hr'; exact hr'
  have := h3 r hmem
  simp only [exec] at hg ⊢
  simpa [hg] using this

/-- the form in the property text: stopping before the bound ⇒ fixpoint -/
theorem fixpoint_before_bound {maxc t : Nat} {st : St} (hok : (exec maxc t st).ok = true)
    (hlt : (exec maxc t st).cycles < maxc) :
    ∀ r ∈ (exec maxc t st).st.rules, gate (exec maxc t st).st t r = true →
      r.cond.holds (exec maxc t st).st.facts = false := by
  obtain ⟨last, h1, h2⟩ := cycles_early_stop hok hlt
  exact (fixpoint_on_early_stop hok h1 h2).2

/-- a completed pass that fires nothing changes neither the engine state nor the facts -/
theorem silent_pass_unchanged {t : Nat} {rs : List Rule} {st : St} (hok : (passLoop t rs st).ok = true)
    (hf : (passLoop t rs st).fired = 0) : (passLoop t rs st).st = st :=
  (silent_pass hok hf).1

/-- **max_cycles_zero.** With `max_cycles = 0` no pass is made and all counters are 0 (only the pending
workflow activations are synchronised). -/
theorem max_cycles_zero (t : Nat) (st : St) :
    exec 0 t st = { st := sync st, cycles := 0, evaluated := 0, fired := 0, passes := [], ok := true } := rfl

/-- **error_returns.** An `Err` result is still a return within the bound, and it has a cause: some rule
of the knowledge base passed the gate with a true condition and one of its actions — a `field + k`
assignment whose field is missing — failed. (Nothing else in the modelled fragment can fail.) -/
theorem error_returns {maxc t : Nat} {st : St} (h : (exec maxc t st).ok = false) :
    (exec maxc t st).cycles ≤ maxc ∧
    ∃ (s : St) (r : Rule), r ∈ st.rules ∧ gate s t r = true ∧ r.cond.holds s.facts = true ∧
      ∃ (f : Nat) (k : Int) (s' : St), Action.add f k ∈ r.actions ∧ fget s'.facts f = none := by
  refine ⟨(cycle_count_le maxc t st).1, ?_⟩
  obtain ⟨s, r, a, b, c, d⟩ := cycles_fail h
  exact ⟨s, r, a, b, c, execActions_fail d⟩

/-- **wrappers_within_bound.** The `execute` inside `execute_workflow_step` and every `execute` made by
`execute_workflow` is `exec maxc now` from some engine state — so all the statements above apply to it — and in particular
it makes at most `max_cycles` passes; `set_debug_mode` before it does not change which `exec` that is. -/
theorem wrappers_within_bound (maxc now : Nat) (st : St) :
    (∀ g, (wfStep maxc now st g).2 = exec maxc now (step maxc st (.focus g)).1 ∧ (wfStep maxc now st g).2.cycles ≤ maxc) ∧
    (∀ gs, ∀ o ∈ (wfLoop maxc now st gs).2.1, (∃ s, o = exec maxc now s) ∧ o.cycles ≤ maxc) ∧
    (∀ b, (callStep maxc now (callStep maxc now st (.setDebug b)).1 .execNow).2 = .res (.exec (exec maxc now st))) := by
  refine ⟨fun g => ⟨wfStep_out _ _ _ _, ?_⟩, fun gs o ho => ?_, fun _ => rfl⟩
  · rw [wfStep_out]; exact (cycle_count_le _ _ _).1
  · obtain ⟨s, hs⟩ := wfLoop_outs maxc now st gs o ho
    exact ⟨⟨s, hs⟩, by rw [hs]; exact (cycle_count_le _ _ _).1⟩

/-! ## non-vacuity: a counter, a toggle and a ping-pong pair that never quiesce -/

def mk (n : Nat) (c : Cond) (as : List Action) : Rule :=
  { name := n, salience := 0, enabled := true, noLoop := false, lock := false, agenda := none, actGroup := none,
    effective := none, expires := none, cond := c, actions := as }

def counter : List Rule := [mk 0 (.lt 0 5) [.add 0 1]]
def pingPong : List Rule := [mk 0 (.eq 0 0) [.set 0 1], mk 1 (.eq 0 1) [.set 0 0]]
def stOf (rs : List Rule) : St := { init with rules := rs, facts := [(0, 0)] }
def summary (o : ExecOut) : Nat × Nat × Nat × Bool := (o.cycles, o.evaluated, o.fired, o.ok)

-- the counter quiesces after 5 firings: 6 passes, early stop, fixpoint
example : summary (exec 64 10 (stOf counter)) = (6, 6, 5, true) := by decide +kernel
-- bounded: stops at the bound without a fixpoint
example : summary (exec 3 10 (stOf counter)) = (3, 3, 3, true) := by decide +kernel
-- ping-pong never quiesces: both rules fire in every pass, the bound ends it
example : summary (exec 64 10 (stOf pingPong)) = (64, 128, 128, true) := by decide +kernel
-- an action on a missing field is a returned error
example : summary (exec 64 10 (stOf [mk 0 (.eq 0 0) [.add 7 1]])) = (1, 1, 0, false) := by decide +kernel

-- a workflow over two groups on a never-quiescing rule of group 1: each step ends at the bound
example : ((wfLoop 3 50 { init with rules := [{ mk 0 (.gt 0 (-1)) [.add 0 1] with agenda := some 1 }], facts := [(0, 0)] }
    [1, 1, 0, 1]).2.1.map summary) = [(3, 3, 3, true), (3, 3, 3, true), (1, 0, 0, true)] := by decide +kernel

end C03
