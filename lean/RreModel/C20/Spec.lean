import RreModel.C20.Model
/-
C20 — the property as decidable predicates over *observations*: what `get` / `keys` / `len`,
`list_checkpoints` and the files under the backend path show after every API call, plus — for a
checkpoint under crash analysis — what a fresh store sees in every intermediate directory state
and at every truncation point of `state.json`. Checkpoint ids are opaque strings here.
This is the runtime oracle evaluated on the implementation's observations (and, as a cross-check,
on the model's own observations). Each clause is the observation-level reading of a theorem of
Theorems.lean; the clause name is what a failure reports.
-/
namespace C20

/-- parsed content of `<id>/state.json` -/
inductive FileObs where
  | noFile
  | bad
  | content (m : List (Nat × Nat))
deriving Repr, DecidableEq

inductive Res where
  | ok
  | ckpt (id : String)
  | err (kind : String)
deriving Repr, DecidableEq

/-- restoring the interrupted id in one crash state, by a fresh store holding sentinel entries -/
structure CrashObs where
  restored : Option (List (Nat × Nat))   -- `some view` = restore returned Ok and the store shows `view`
  unchanged : Bool                       -- on Err: the sentinel entries are all still there, nothing else
  earlierIntact : Bool                   -- every earlier checkpoint byte-identical (the retention victim may be gone)
deriving Repr, DecidableEq

structure Obs where
  res : Res
  gets : List (Option Nat)               -- `get` of key 0, 1, 2
  keys : List Nat                        -- `keys()`, sorted
  len : Nat
  metas : List (String × Nat)            -- `list_checkpoints`: (id, entry_count)
  files : List (String × FileObs)        -- directory listing
  crash : List CrashObs := []
deriving Repr, DecidableEq

def emptyObs : Obs := { res := .ok, gets := [none, none, none], keys := [], len := 0, metas := [], files := [] }

def viewOf : Nat → List (Option Nat) → List (Nat × Nat)
  | _, [] => []
  | k, none :: r => viewOf (k + 1) r
  | k, some v :: r => (k, v) :: viewOf (k + 1) r

/-- the visible key/value pairs -/
def Obs.view (o : Obs) : List (Nat × Nat) := viewOf 0 o.gets

/-- `keys` are exactly the keys `get` answers for, and `len` counts them -/
def Obs.coherent (o : Obs) : Bool := o.keys == o.view.map (·.1) && o.len == o.keys.length

def lookupS {α : Type} : List (String × α) → String → Option α
  | [], _ => none
  | (j, x) :: r, i => if j = i then some x else lookupS r i

/-- what the oracle is told about the call -/
inductive OOp where
  | other
  | checkpoint
  | crashProbe
  | restore (id : String)
deriving Repr, DecidableEq

structure Ref where
  taken : List (String × List (Nat × Nat)) := []   -- id ↦ what the store showed when it was taken
  prev : Obs := emptyObs
deriving Repr

/-- every checkpoint taken so far: while listed, its file holds exactly its snapshot; once retired
by retention, its directory is gone (`restore_reproduces`, `crash_preserves_earlier` at API level) -/
def filesIntact (file : Bool) (taken : List (String × List (Nat × Nat))) (o : Obs) : Bool :=
  !file || taken.all fun (i, v) =>
    if o.metas.any (·.1 == i) then lookupS o.files i == some (.content v)
    else lookupS o.files i == none

def retainObs (maxCk : Nat) (ms : List (String × Nat)) : List (String × Nat) :=
  if ms.length > maxCk then ms.drop 1 else ms

def crashOk (full : List (Nat × Nat)) (cs : List CrashObs) : Except String Unit :=
  if cs.isEmpty then .error "crash_probe_empty"
  else if cs.any (fun c => !c.earlierIntact) then .error "crash_damaged_earlier"
  else if cs.any (fun c => match c.restored with | some v => v != full | none => false) then
    .error "interrupted_partial_state"
  else if cs.any (fun c => c.restored.isNone && !c.unchanged) then .error "failed_restore_changed_store"
  else if !(cs.any (fun c => c.restored == some full)) then .error "completed_checkpoint_not_restorable"
  else .ok ()

/-- one API call: `o` is observed after it, `r.prev` before it -/
def stepOk (file : Bool) (maxCk : Nat) (r : Ref) (op : OOp) (o : Obs) : Except String Ref :=
  if !o.coherent then .error "incoherent_view" else
  match op with
  | .other =>
    if o.metas != r.prev.metas then .error "metas_changed"
    else if !filesIntact file r.taken o then .error "earlier_checkpoint_damaged"
    else .ok { r with prev := o }
  | .checkpoint | .crashProbe =>
    match o.res with
    | .ckpt i =>
      let snap := r.prev.view
      if r.taken.any (·.1 == i) then .error "ids_distinct"
      else if o.view != snap then .error "checkpoint_changed_store"
      else if o.metas.map (·.1) != (retainObs maxCk (r.prev.metas ++ [(i, snap.length)])).map (·.1) then
        .error "retention"
      else if o.metas != retainObs maxCk (r.prev.metas ++ [(i, snap.length)]) then .error "entry_count"
      else
        let taken := r.taken ++ [(i, snap)]
        if !filesIntact file taken o then .error "earlier_checkpoint_damaged"
        else
          match (if op == .crashProbe && file then crashOk snap o.crash else .ok ()) with
          | .error e => .error e
          | .ok _ => .ok { taken := taken, prev := o }
    | _ => .error "checkpoint_failed"
  | .restore i =>
    if o.metas != r.prev.metas then .error "metas_changed"
    else if !filesIntact file r.taken o then .error "earlier_checkpoint_damaged"
    else
      match o.res with
      | .ok =>
        match lookupS r.taken i with
        | none => .error "restored_unknown_id"
        | some v => if o.view == v then .ok { r with prev := o } else .error "restore_reproduces"
      | .err _ =>
        if o.view != r.prev.view then .error "failed_restore_changed_store"
        else if file && r.prev.metas.any (·.1 == i) then .error "listed_checkpoint_not_restorable"
        else .ok { r with prev := o }
      | .ckpt _ => .error "bad_result"

/-- whole-history oracle: first failing step (index, clause) or the final reference state -/
def runOk (file : Bool) (maxCk : Nat) : Nat → Ref → List OOp → List Obs → Except (Nat × String) Ref
  | _, r, [], [] => .ok r
  | n, r, op :: ops, o :: os =>
    match stepOk file maxCk r op o with
    | .error e => .error (n, e)
    | .ok r' => runOk file maxCk (n + 1) r' ops os
  | n, _, _, _ => .error (n, "length_mismatch")

end C20
