import RreModel.C20.Model
/-
C20 — the property as decidable predicates over *observations*: what `get` / `keys` / `len`,
`list_checkpoints` and the files under the backend path show after every API call, plus — for a
checkpoint under crash analysis — what a fresh store sees in every intermediate directory state
and at every truncation point of `state.json`. Checkpoint ids are opaque strings here.
This is the runtime oracle evaluated on the implementation's observations (and, as a cross-check,
on the model's own observations). Each clause is the observation-level reading of a theorem of
Theorems.lean; the clause name is what a failure reports.
-/
namespace C20

/-- parsed content of `<id>/state.json` -/
inductive FileObs where
  | noFile
  | bad
  | content (m : List (Nat × Nat))
deriving Repr, DecidableEq

inductive Res where
  | ok
  | ckpt (id : String)
  | err (kind : String)
deriving Repr, DecidableEq

/-- restoring the interrupted id in one crash state, by a fresh store holding sentinel entries -/
structure CrashObs where
  restored : Option (List (Nat × Nat))   -- `some view` = restore returned Ok and the store shows `view`
  unchanged : Bool                       -- on Err: the sentinel entries are all still there, nothing else
  earlierIntact : Bool                   -- every earlier checkpoint byte-identical (the retention victim may be gone)
deriving Repr, DecidableEq

structure Obs where
  res : Res
  gets : List (Option Nat)               -- `get` of key 0, 1, 2
  keys : List Nat                        -- `keys()`, sorted
  len : Nat
  metas : List (String × Nat)            -- `list_checkpoints`: (id, entry_count)
  files : List (String × FileObs)        -- directory listing
  crash : List CrashObs := []
deriving Repr, DecidableEq

def emptyObs : Obs := { res := .ok, gets := [none, none, none], keys := [], len := 0, metas := [], files := [] }

def viewOf : Nat → List (Option Nat) → List (Nat × Nat)
  | _, [] => []
  | k, none :: r => viewOf (k + 1) r
  | k, some v :: r => (k, v) :: viewOf (k + 1) r

/-- the visible key/value pairs -/
def Obs.view (o : Obs) : List (Nat × Nat) := viewOf 0 o.gets

/-- `keys` are exactly the keys `get` answers for, and `len` counts them -/
def Obs.coherent (o : Obs) : Bool := o.keys == o.view.map (·.1) && o.len == o.keys.length

def lookupS {α : Type} : List (String × α) → String → Option α
  | [], _ => none
  | (j, x) :: r, i => if j = i then some x else lookupS r i

/-- what the oracle is told about the call -/
inductive OOp where
  | other
  | checkpoint
  | crashProbe
  | restore (id : String)
deriving Repr, DecidableEq

structure Ref where
  taken : List (String × List (Nat × Nat)) := []   -- id ↦ what the store showed when it was taken
  prev : Obs := emptyObs
deriving Repr

/-- every value of the view reads back from its JSON text (`Model.lossyVal`: the value indices of the harness' table
that are NaN / ±inf / hold one / are nested beyond the parser's recursion limit) -/
def snapOk (v : List (Nat × Nat)) : Bool := v.all fun kv => !lossyVal kv.2

/-- what the harness' reader shows of the complete file of a snapshot: its content, or — when a value of it does not
read back — a file that does not parse as a whole -/
def fileOf (v : List (Nat × Nat)) : FileObs := if snapOk v then .content v else .bad

/-- every checkpoint taken so far: while listed, its file holds exactly its snapshot; once retired
by retention, its directory is gone (`restore_reproduces`, `crash_preserves_earlier` at API level) -/
def filesIntact (file : Bool) (taken : List (String × List (Nat × Nat))) (o : Obs) : Bool :=
  !file || taken.all fun (i, v) =>
    if o.metas.any (·.1 == i) then lookupS o.files i == some (fileOf v)
    else lookupS o.files i == none

def retainObs (maxCk : Nat) (ms : List (String × Nat)) : List (String × Nat) :=
  if ms.length > maxCk then ms.drop 1 else ms

def crashOk (full : List (Nat × Nat)) (cs : List CrashObs) : Except String Unit :=
  if cs.isEmpty then .error "crash_probe_empty"
  else if cs.any (fun c => !c.earlierIntact) then .error "crash_damaged_earlier"
  else if cs.any (fun c => match c.restored with | some v => v != full | none => false) then
    .error "interrupted_partial_state"
  else if cs.any (fun c => c.restored.isNone && !c.unchanged) then .error "failed_restore_changed_store"
  -- (a snapshot holding a value that does not read back is an error at every point: "its complete state or an error")
  else if snapOk full && !(cs.any (fun c => c.restored == some full)) then .error "completed_checkpoint_not_restorable"
  else .ok ()

/-- one API call: `o` is observed after it, `r.prev` before it -/
def stepOk (file : Bool) (maxCk : Nat) (r : Ref) (op : OOp) (o : Obs) : Except String Ref :=
  if !o.coherent then .error "incoherent_view" else
  match op with
  | .other =>
    if o.metas != r.prev.metas then .error "metas_changed"
    else if !filesIntact file r.taken o then .error "earlier_checkpoint_damaged"
    else .ok { r with prev := o }
  | .checkpoint | .crashProbe =>
    match o.res with
    | .ckpt i =>
      let snap := r.prev.view
      if r.taken.any (·.1 == i) then .error "ids_distinct"
      else if o.view != snap then .error "checkpoint_changed_store"
      else if o.metas.map (·.1) != (retainObs maxCk (r.prev.metas ++ [(i, snap.length)])).map (·.1) then
        .error "retention"
      else if o.metas != retainObs maxCk (r.prev.metas ++ [(i, snap.length)]) then .error "entry_count"
      else
        let taken := r.taken ++ [(i, snap)]
        if !filesIntact file taken o then .error "earlier_checkpoint_damaged"
        else
          match (if op == .crashProbe && file then crashOk snap o.crash else .ok ()) with
          | .error e => .error e
          | .ok _ => .ok { taken := taken, prev := o }
    | _ => .error "checkpoint_failed"
  | .restore i =>
    if o.metas != r.prev.metas then .error "metas_changed"
    else if !filesIntact file r.taken o then .error "earlier_checkpoint_damaged"
    else
      match o.res with
      | .ok =>
        match lookupS r.taken i with
        | none => .error "restored_unknown_id"
        | some v => if o.view == v then .ok { r with prev := o } else .error "restore_reproduces"
      | .err _ =>
        if o.view != r.prev.view then .error "failed_restore_changed_store"
        -- a listed checkpoint must restore, unless it captured a value whose JSON text does not read back
        else if file && r.prev.metas.any (·.1 == i) && ((lookupS r.taken i).map snapOk).getD true then
          .error "listed_checkpoint_not_restorable"
        else .ok { r with prev := o }
      | .ckpt _ => .error "bad_result"

/-- whole-history oracle: first failing step (index, clause) or the final reference state -/
def runOk (file : Bool) (maxCk : Nat) : Nat → Ref → List OOp → List Obs → Except (Nat × String) Ref
  | _, r, [], [] => .ok r
  | n, r, op :: ops, o :: os =>
    match stepOk file maxCk r op o with
    | .error e => .error (n, e)
    | .ok r' => runOk file maxCk (n + 1) r' ops os
  | n, _, _, _ => .error (n, "length_mismatch")

/-! ### a process really killed at a numbered crash point, and the life of the store reopened on what it left

The child process runs the history and dies (SIGABRT) inside the last call; the parent lists the directory, lets a NEW
store holding sentinel entries restore every id the child had reported plus the id under way, then opens another new
store on the directory and carries on. Clauses are the property's letter: a crash never damages an earlier
checkpoint; restoring the interrupted one yields its complete state or an error, never a partial state; a restore
reproduces the state at checkpoint time; checkpoints taken at different moments stay distinguishable. -/

/-- restoring one id after the restart, by a new store holding sentinel entries -/
structure ProbeObs where
  id : String
  restored : Option (List (Nat × Nat))   -- `some view` = restore returned Ok and the store shows `view`
  unchanged : Bool                       -- on Err: exactly the sentinel entries are still there
deriving Repr, DecidableEq

/-- a child killed INSIDE `write_all` (hook `arm_split`, after `k` bytes): the truncated `state.json` it really left,
compared with the same truncation REBUILT by the harness the way the crash analysis `K` rebuilds it (the first `k` bytes of
the text the child was writing, put into a scratch copy of the directory with `fs::write`) -/
structure ReconObs where
  prefixExact : Bool                     -- the file the dead child left is byte for byte those first `k` bytes
  restored : Option (List (Nat × Nat))   -- a new store restoring the interrupted id from the REBUILT directory
  unchanged : Bool
deriving Repr, DecidableEq

structure KillObs where
  dead : Bool                            -- the child was killed by the armed crash point (false: the call returned, it exited)
  files : List (String × FileObs)        -- the directory the child left
  probes : List ProbeObs
  recon : Option ReconObs := none        -- only when the child died at the point inside the write
deriving Repr, DecidableEq

/-- what the earlier life leaves to the reopened store -/
structure Old where
  files : List (String × FileObs) := []              -- the directory at the restart
  survivors : List (String × List (Nat × Nat)) := [] -- id ↦ the state a restore of it yielded at the restart
  ids : List String := []                            -- every id of the earlier life, the interrupted one included
deriving Repr

def findProbe : List ProbeObs → String → Option ProbeObs
  | [], _ => none
  | p :: r, i => if p.id = i then some p else findProbe r i

/-- the verdict on what the dead process left. `r`: reference state before the fatal call; `ck`: the fatal call was a
`checkpoint` (else a `restore`). -/
def killOk (maxCk : Nat) (r : Ref) (ck : Bool) (k : KillObs) : Except String Old :=
  -- the checkpoint retention was about to retire when the process died (it may be gone, or not yet)
  let victim : Option String :=
    if ck && r.prev.metas.length + 1 > maxCk then r.prev.metas.head?.map (·.1) else none
  let earlierBad := r.taken.any fun (i, v) =>
    let listed := r.prev.metas.any (·.1 == i)
    match findProbe k.probes i with
    | none => true
    | some p =>
      if listed then
        !((p.restored == some v && lookupS k.files i == some (.content v))
          || (!snapOk v && p.restored == none && lookupS k.files i == some .bad)
          || (victim == some i && p.restored == none
              && (lookupS k.files i == none || lookupS k.files i == some .noFile)))
      else !(p.restored == none && lookupS k.files i == none)
  -- an earlier checkpoint that restores Ok must restore its own snapshot (not another state, not part of it)
  let earlierWrong := r.taken.any fun (i, v) =>
    match findProbe k.probes i with
    | some p => (match p.restored with | some w => w != v | none => false)
    | none => false
  if earlierWrong then .error "restore_reproduces"
  else if earlierBad then .error "crash_damaged_earlier"
  else if k.probes.any (fun p => p.restored.isNone && !p.unchanged) then .error "failed_restore_changed_store"
  else
    let extra := k.probes.filter fun p => !(r.taken.any (·.1 == p.id))
    let full := r.prev.view
    if ck && extra.length != 1 then .error "interrupted_id_not_probed"
    else if !ck && extra.length != 0 then .error "unknown_id_probed"
    else if extra.any (fun p => match p.restored with | some v => v != full | none => false) then
      .error "interrupted_partial_state"
    else if ck && !k.dead && maxCk ≥ 1 && snapOk full && extra.any (fun p => p.restored.isNone) then
      .error "completed_checkpoint_not_restorable"
    -- killed inside the write: what the real kill left and what the reconstruction of that truncation point yields must
    -- be the same thing (the file: byte for byte; the restore: same outcome) - else the reconstructed family `K` (every
    -- byte offset) would not be speaking about states a crash really produces
    else if (match k.recon with | some rc => !rc.prefixExact | none => false) then .error "partial_write_not_a_prefix"
    else if (match k.recon with
             | some rc => extra.any (fun p => p.restored != rc.restored || (p.restored.isNone && p.unchanged != rc.unchanged))
             | none => false) then .error "reconstruction_disagrees_with_real_kill"
    else .ok { files := k.files,
               survivors := k.probes.filterMap (fun p => p.restored.map fun v => (p.id, v)),
               ids := k.probes.map (·.id) }

/-- one API call of the REOPENED store (`r` starts as `{}`: it knows no checkpoint, holds no entry) -/
def stepOk2 (maxCk : Nat) (old : Old) (r : Ref) (op : OOp) (o : Obs) : Except String Ref :=
  let aliased := match op, o.res with
    | .checkpoint, .ckpt i => old.ids.contains i
    | _, _ => false
  -- … and whether that id still had its checkpoint file at the restart (then the new checkpoint overwrites it: F-C20b,
  -- repaired by fix-C20b) or only the memory of the earlier life knows it (retired by retention / died before
  -- `File::create`: the directory holds nothing to consult - the residual of F-C20b)
  let onDisk := match o.res with
    | .ckpt i => (match lookupS old.files i with | some .noFile => false | none => false | some _ => true)
    | _ => false
  if aliased then .error (if onDisk then "ids_distinct_across_restart" else "vanished_id_reused_across_restart")
  else if o.files.filter (fun f => old.files.any (·.1 == f.1)) != old.files then
    .error "earlier_life_checkpoint_changed"
  else
    let o' := { o with files := o.files.filter (fun f => !(old.files.any (·.1 == f.1))) }
    match op with
    | .restore i =>
      if old.ids.contains i then
        if !o.coherent then .error "incoherent_view"
        else if o.metas != r.prev.metas then .error "metas_changed"
        else if !filesIntact true r.taken o' then .error "earlier_checkpoint_damaged"
        else
          match o.res with
          | .ok =>
            match lookupS old.survivors i with
            | some v => if o.view == v then .ok { r with prev := o' } else .error "restore_reproduces"
            | none => .error "restored_unknown_id"
          | .err _ =>
            if o.view != r.prev.view then .error "failed_restore_changed_store"
            else if (lookupS old.survivors i).isSome then .error "surviving_checkpoint_not_restorable"
            else .ok { r with prev := o' }
          | .ckpt _ => .error "bad_result"
      else stepOk true maxCk r op o'
    | _ => stepOk true maxCk r op o'

def runOk2 (maxCk : Nat) (old : Old) : Nat → Ref → List OOp → List Obs → Except (Nat × String) Ref
  | _, r, [], [] => .ok r
  | n, r, op :: ops, o :: os =>
    match stepOk2 maxCk old r op o with
    | .error e => .error (n, e)
    | .ok r' => runOk2 maxCk old (n + 1) r' ops os
  | n, _, _, _ => .error (n, "length_mismatch")

end C20
