import RreModel.C20.Theorems2
/-
C20 — property theorems, part 3: the crash point INSIDE `write_all`.

The hook `verif_crash::arm_split` makes the real `checkpoint` carry out its `file.write_all(json)` as
`write_all(&json[..k])` · crash point `partial` · `write_all(&json[k..])` for any byte offset `k`, and the harness kills a
child process at that point (kind-Q op `W`): the truncated `state.json` the parent then restores from was produced by a
real kill inside the write, not rebuilt. `Model.checkpointStepsK … k` is that procedure (one more numbered point than
`checkpointSteps`: point 4), `Model.crashAtK … k p` the directory a process killed at its point `p` leaves. The theorems
below restate the crash theorems over this extended list — for EVERY split offset `k` and EVERY point `p` — and say
exactly what a restore sees at the interior point.

The retention clean-up is ONE `fs::remove_dir_all(old)` call in the code: there is no place between the removal of
`state.json` and the removal of its directory where the hook could put a crash point, so the points around it stay
`drop` (before) and `rmtree` (after); the state "file gone, directory still there" exists only inside that library call
and stays covered by the byte-granular list (`crash_preserves_earlier`, `.rmFile` / `.rmDir`).
-/
set_option linter.unusedSimpArgs false
set_option linter.unusedVariables false
namespace C20

/-! ### two `write_all` calls put the same prefixes on disk as one -/

theorem segSteps_zero_eq (i : Id) (bytes : List Nat) (n : Nat) : segSteps i bytes 0 n = writeSteps i bytes n := by
  induction n with
  | zero => rfl
  | succ n ih => simp [segSteps, writeSteps, ih]

theorem segSteps_append (i : Id) (bytes : List Nat) (a n m : Nat) :
    segSteps i bytes a n ++ segSteps i bytes (a + n) m = segSteps i bytes a (n + m) := by
  induction m with
  | zero => simp [segSteps]
  | succ m ih =>
    have e : n + (m + 1) = (n + m) + 1 := by omega
    rw [e]
    simp only [segSteps]
    rw [← List.append_assoc, ih]
    have e' : a + n + m + 1 = a + (n + m) + 1 := by omega
    rw [e']

/-- **split_write_expand.** `write_all(&b[..k])` followed by `write_all(&b[k..])` passes through exactly the file contents
`write_all(b)` passes through (whatever `k`, also past the end). -/
theorem split_write_expand (i : Id) (bytes : List Nat) (k : Nat) :
    (PStep.writeHead i bytes k).expand ++ (PStep.writeTail i bytes k).expand = (PStep.writeAll i bytes).expand := by
  simp only [PStep.expand]
  rw [← segSteps_zero_eq]
  have h := segSteps_append i bytes 0 (min k bytes.length) (bytes.length - min k bytes.length)
  simp only [Nat.zero_add] at h
  rw [h]
  congr 1
  omega

example : (PStep.writeHead ⟨0, 0⟩ [1, 0, 7, 0] 3).expand = [.write ⟨0, 0⟩ [1], .write ⟨0, 0⟩ [1, 0], .write ⟨0, 0⟩ [1, 0, 7]]
    ∧ (PStep.writeTail ⟨0, 0⟩ [1, 0, 7, 0] 3).expand = [.write ⟨0, 0⟩ [1, 0, 7, 0]]
    ∧ (PStep.writeTail ⟨0, 0⟩ [1, 0, 7, 0] 9).expand = [] := by decide

/-- **checkpointStepsK_refine.** For every split offset `k` the extended numbered list (crash point inside the write)
expands to the SAME byte-granular step sequence part 1 quantifies over. -/
theorem checkpointStepsK_refine (c : Codec) (cfg : Cfg) (W : World) (k : Nat) :
    ckSteps c cfg W = (checkpointStepsK c cfg W k).flatMap PStep.expand := by
  rw [checkpointSteps_refine]
  unfold checkpointSteps checkpointStepsK
  have hs := split_write_expand (newId cfg W) (c.ser (live W.store W.clock)) k
  cases h : victimOf cfg.maxCk W.metas (newId cfg W) <;>
    simp only [h, List.flatMap_cons, List.flatMap_nil, List.flatMap_append, List.cons_append, List.nil_append,
      List.append_nil, List.append_assoc, ← hs]

example : (checkpointStepsK natCodec { maxCk := 1 } (run natCodec { maxCk := 1 } init [.put 0 7, .checkpoint]) 2).map PStep.label
    = ["mkdir", "serialise", "create", "partial", "write", "push", "drop", "rmtree", "stamp"] := by decide

/-- **crashAtK_eq_crashFs.** Being killed at point `p` of the checkpoint whose write is split at offset `k` leaves one of
the byte-granular crash states of part 1. -/
theorem crashAtK_eq_crashFs (c : Codec) (cfg : Cfg) (W : World) (k p : Nat) :
    crashAtK c cfg W k p = crashFs c cfg W (fineIndex (checkpointStepsK c cfg W k) p) := by
  unfold crashAtK crashDir crashFs fineIndex
  rw [checkpointStepsK_refine c cfg W k, take_flatMap_prefix]

/-- killed inside the write at offsets 0 … 5 of a 7-byte file: 2 + k atomic steps have happened -/
example :
    let W := run natCodec {} init [.put 0 7, .put 1 8]
    (List.range 6).map (fun k => fineIndex (checkpointStepsK natCodec {} W k) 4) = [2, 3, 4, 5, 6, 7] := by decide

/-! ### the crash theorems over the extended list -/

/-- **crash_inside_write_all_or_error.** After any history, let the next `checkpoint` write its file in two steps around
a crash point at ANY byte offset `k`, and kill the process at ANY numbered point `p` of that call — in particular at
point 4, INSIDE `write_all`, when exactly `k` bytes are in the file (`p` past the last point: the call completes). Let any
store `S` that sees the directory left (a new one after the restart) restore the interrupted id: the complete state the
checkpoint was taking, or an error and `S` untouched — never a partial state. -/
theorem crash_inside_write_all_or_error (c : Codec) (hc : c.Lawful) (cfg : Cfg) (hl : cfg.legacy = false)
    (ops : List Op) (k p : Nat) (S : World) :
    let W := run c cfg init ops
    S.fs = crashAtK c cfg W k p →
    ((restore c cfg S (newId cfg W)).2 = .ok
        ∧ live (restore c cfg S (newId cfg W)).1.store (restore c cfg S (newId cfg W)).1.clock
            = live W.store W.clock)
    ∨ ((restore c cfg S (newId cfg W)).2 ≠ .ok ∧ (restore c cfg S (newId cfg W)).1 = S) := by
  intro W hS
  rw [crashAtK_eq_crashFs] at hS
  exact interrupted_all_or_error c hc cfg hl ops _ S hS

/-- a checkpoint of two entries (7 bytes) killed INSIDE the write after k = 0 … 8 bytes, seen by a new store after the
restart: a parse error at every strict prefix, the complete state once all bytes are there (k = 7, and 8 = past the end) -/
example :
    let W := run natCodec {} init [.put 0 7, .put 1 8]
    (List.range 9).map (fun k => (restore natCodec {} (reopen (crashAtK natCodec {} W k 4) 5) ⟨0, 0⟩).2)
      = [.errParse, .errParse, .errParse, .errParse, .errParse, .errParse, .errParse, .ok, .ok] := by decide

/-- **crash_inside_write_preserves_earlier.** The same kill — any split offset, any point — never damages an earlier
checkpoint: the id under way names a fresh directory and every other entry is exactly as before (the one retention is
retiring may have lost its file or be gone). -/
theorem crash_inside_write_preserves_earlier (c : Codec) (cfg : Cfg) (hl : cfg.legacy = false)
    (ops : List Op) (k p : Nat) :
    let W := run c cfg init ops
    fget W.fs (newId cfg W) = none ∧
    ∀ e, e ≠ newId cfg W →
      fget (crashAtK c cfg W k p) e = fget W.fs e
      ∨ (victimOf cfg.maxCk W.metas (newId cfg W) = some e
          ∧ (fget (crashAtK c cfg W k p) e = some none ∨ fget (crashAtK c cfg W k p) e = none)) := by
  intro W
  rw [crashAtK_eq_crashFs]
  exact crash_preserves_earlier c cfg hl ops _

/-- retention bound 1, one checkpoint on disk, the second killed inside its write after 2 of 4 bytes: the earlier file is
byte-identical, the new one holds exactly the 2 bytes -/
example :
    let W := run natCodec { maxCk := 1 } init [.put 0 7, .checkpoint, .put 0 9]
    fget (crashAtK natCodec { maxCk := 1 } W 2 4) ⟨0, 0⟩ = some (some [1, 0, 7, 0]) ∧
    fget (crashAtK natCodec { maxCk := 1 } W 2 4) ⟨0, 1⟩ = some (some [1, 0]) := by decide

/-! ### what exactly is on disk at the point inside the write -/

theorem take_min_length {α : Type} (l : List α) (k : Nat) : l.take (min k l.length) = l.take k := by
  by_cases h : k ≤ l.length
  · rw [Nat.min_eq_left h]
  · have h' : l.length ≤ k := by omega
    rw [Nat.min_eq_right h', List.take_of_length_le h', List.take_of_length_le (Nat.le_refl _)]

/-- **killed_inside_write_file.** A process killed at the point inside the write (point 4, split offset `k`) leaves a
`state.json` holding EXACTLY the first `k` bytes of the serialised snapshot — for every world and every offset. -/
theorem killed_inside_write_file (c : Codec) (cfg : Cfg) (W : World) (k : Nat) :
    fget (crashAtK c cfg W k 4) (newId cfg W) = some (some ((c.ser (live W.store W.clock)).take k)) := by
  unfold crashAtK crashDir checkpointStepsK
  generalize c.ser (live W.store W.clock) = bytes
  generalize newId cfg W = i
  have h4 : ∀ (rest : List PStep),
      ([PStep.fs (.mkdir i), .mem "serialise", .fs (.create i), .writeHead i bytes k, .writeTail i bytes k, .mem "push"]
          ++ rest).take 4
        = [PStep.fs (.mkdir i), .mem "serialise", .fs (.create i), .writeHead i bytes k] := by
    intro rest; simp
  simp only [List.append_assoc]
  rw [h4]
  simp only [List.flatMap_cons, List.flatMap_nil, PStep.expand, List.append_nil, List.nil_append, List.cons_append,
    List.foldl_cons]
  rw [segSteps_zero_eq, foldl_writeSteps]
  by_cases hn : 0 < min k bytes.length
  · simp [hn, take_min_length]
  · have h0 : min k bytes.length = 0 := by omega
    have ht : bytes.take k = [] := by rw [← take_min_length, h0]; rfl
    simp [h0, ht, applyStep, fget_fset]

/-- **killed_inside_write_exact.** What a store that sees that directory gets when it restores the interrupted id, for
every offset: a strict prefix (`k < len`) is refused with a parse error and the store is untouched; once all bytes are
there (`k ≥ len`: the kill came after the last byte) the restore yields the complete state — or, for a snapshot holding a
value whose text does not read back, the same error. Nothing in between exists. -/
theorem killed_inside_write_exact (c : Codec) (hc : c.Lawful) (cfg : Cfg) (hf : cfg.file = true)
    (W : World) (k : Nat) (S : World) (hS : S.fs = crashAtK c cfg W k 4) :
    (k < (c.ser (live W.store W.clock)).length → restore c cfg S (newId cfg W) = (S, .errParse))
    ∧ ((c.ser (live W.store W.clock)).length ≤ k → encodable c (live W.store W.clock) = true →
        restore c cfg S (newId cfg W) = ({ S with store := load (live W.store W.clock) S.clock }, .ok))
    ∧ ((c.ser (live W.store W.clock)).length ≤ k → encodable c (live W.store W.clock) = false →
        restore c cfg S (newId cfg W) = (S, .errParse)) := by
  have hfile := killed_inside_write_file c cfg W k
  rw [← hS] at hfile
  refine ⟨?_, ?_, ?_⟩
  · intro hk
    simp [restore, hf, hfile, hc.prefix_fails _ _ hk]
  · intro hk he
    rw [List.take_of_length_le hk] at hfile
    simp [restore, hf, hfile, hc.roundtrip _ he]
  · intro hk he
    rw [List.take_of_length_le hk] at hfile
    simp [restore, hf, hfile, hc.lossy_fails _ he]

/-- the sentinel entry of the restoring store survives the refused strict prefix (k = 3 of 7 bytes) and is replaced by the
complete state at k = 7 -/
example :
    let W := run natCodec {} init [.put 0 7, .put 1 8]
    let S := fun k => { reopen (crashAtK natCodec {} W k 4) 5 with store := [(2, ⟨3, 5, none⟩)] }
    live (restore natCodec {} (S 3) ⟨0, 0⟩).1.store 5 = [(2, 3)] ∧
    live (restore natCodec {} (S 7) ⟨0, 0⟩).1.store 5 = [(0, 7), (1, 8)] := by decide

/-! ### the split is invisible everywhere else -/

/-- **split_write_transparent.** Past the write the split changes nothing: killed at point `p ≥ 5` of the call with the
split write, the directory is the one the unsplit call leaves at its point `p - 1` (so every statement of part 2 about
the points `write`, `push`, `drop`, `rmtree`, `stamp` carries over), and up to point 3 the two calls coincide. -/
theorem split_write_transparent (c : Codec) (cfg : Cfg) (W : World) (k : Nat) :
    (∀ p, p ≤ 3 → crashAtK c cfg W k p = crashAt c cfg W p)
    ∧ (∀ p, 5 ≤ p → crashAtK c cfg W k p = crashAt c cfg W (p - 1)) := by
  constructor
  · intro p hp
    have : p = 0 ∨ p = 1 ∨ p = 2 ∨ p = 3 := by omega
    rcases this with h | h | h | h <;>
      (subst h; simp [crashAtK, crashAt, crashDir, checkpointStepsK, checkpointSteps])
  · intro p hp
    obtain ⟨j, rfl⟩ : ∃ j, p = 5 + j := ⟨p - 5, by omega⟩
    have e1 : 5 + j = j + 1 + 1 + 1 + 1 + 1 := by omega
    have e2 : 5 + j - 1 = j + 1 + 1 + 1 + 1 := by omega
    rw [e2, e1]
    unfold crashAtK crashAt crashDir checkpointStepsK checkpointSteps
    have hs := split_write_expand (newId cfg W) (c.ser (live W.store W.clock)) k
    simp only [List.cons_append, List.take_succ_cons, List.flatMap_cons, List.append_assoc, ← hs]

/-- the complete file at the point after the split write (5) as after the single write (4); the empty file at `create` -/
example :
    let W := run natCodec {} init [.put 0 7, .put 1 8]
    crashAtK natCodec {} W 3 5 = crashAt natCodec {} W 4 ∧ crashAtK natCodec {} W 3 3 = crashAt natCodec {} W 3
    ∧ fget (crashAtK natCodec {} W 3 5) ⟨0, 0⟩ = some (some [1, 0, 7, 1, 1, 8, 0]) := by decide

end C20
