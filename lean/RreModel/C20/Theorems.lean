import RreModel.C20.Lemmas
/-
C20 — property theorems (only). "Restoring a checkpoint reproduces the state at checkpoint time."
All statements quantify over every codec meeting the `serde_json` contract (`Codec.Lawful`), every
configuration (retention bound, default TTL) and every finite history of
put / put_with_ttl / update / delete / clear / cleanup_expired / checkpoint / restore / clock-advance
operations — any length, any keys, any clock readings (including several checkpoints within one
millisecond). `cfg.legacy = false` selects the id scheme of the code after fix-C20; the
`…_legacy_counterexample`s show the statements are false of the scheme before the fix.
-/
set_option linter.unusedSimpArgs false
set_option linter.unusedVariables false
namespace C20

/-- **ids_distinct.** The ids returned by distinct `checkpoint` calls of a history differ —
also when the clock reads the same millisecond at both calls. -/
theorem ids_distinct (c : Codec) (cfg : Cfg) (hl : cfg.legacy = false) (ops : List Op) :
    (ckIds c cfg init ops).Nodup :=
  (ckIds_fresh c hl init ops).1

/-- two checkpoints within one millisecond, with writes in between: distinct ids -/
example : ckIds natCodec {} init [.put 0 1, .checkpoint, .put 0 2, .checkpoint, .advance 1, .checkpoint]
    = [⟨0, 0⟩, ⟨0, 1⟩, ⟨1, 2⟩] := by decide

/-- the id scheme before the fix (millisecond only) violates `ids_distinct` -/
theorem ids_distinct_legacy_counterexample :
    ¬ (ckIds natCodec { legacy := true } init [.checkpoint, .checkpoint]).Nodup := by decide

/-- **restore_reproduces.** Take a checkpoint after any history `pre`; let anything happen
afterwards (`post`: puts, updates, deletes, expiry, further checkpoints, restores …). Then, on the
file backend, as long as the checkpoint is still listed: if every value it captured is `encodable` (its JSON text
reads back), `restore` succeeds and the store holds exactly the unexpired keys and values it held when the
checkpoint was taken (`live`, and hence `get` for every key; the restored entries never expire); if it captured a
value that is not (a NaN / infinite number, a value nested beyond the parser's recursion limit), `restore` reports
a parse error and changes NOTHING — in particular it never loads the other keys; and once retention has retired it,
`restore` reports "not found" and changes nothing. -/
theorem restore_reproduces (c : Codec) (hc : c.Lawful) (cfg : Cfg) (hl : cfg.legacy = false)
    (hf : cfg.file = true) (pre post : List Op) :
    let W₁ := run c cfg init pre
    let i := (checkpoint c cfg W₁).2
    let W₃ := run c cfg (checkpoint c cfg W₁).1 post
    (i ∈ W₃.metas.map (·.id) →
        (encodable c (live W₁.store W₁.clock) = true →
          (restore c cfg W₃ i).2 = .ok
          ∧ live (restore c cfg W₃ i).1.store (restore c cfg W₃ i).1.clock = live W₁.store W₁.clock
          ∧ (∀ k t, sget (restore c cfg W₃ i).1.store t k = sget W₁.store W₁.clock k))
        ∧ (encodable c (live W₁.store W₁.clock) = false → restore c cfg W₃ i = (W₃, .errParse)))
    ∧ (i ∉ W₃.metas.map (·.id) → restore c cfg W₃ i = (W₃, .errNotFound)) := by
  intro W₁ i W₃
  have h1 : Inv W₁ := inv_run c hl inv_init pre
  have h2 : Inv (checkpoint c cfg W₁).1 := inv_step c hl h1 .checkpoint
  have ht : Tracks i (c.ser (live W₁.store W₁.clock)) W₃ :=
    tracks_run c hl hf h2.toR (tracks_new c hl hf h1.toR) post
  obtain ⟨_, hcase⟩ := ht
  have hnd := live_nodup W₁.clock h1.store_nodup
  constructor
  · intro hin
    rcases hcase with ⟨_, hfs⟩ | ⟨hnot, _⟩
    · constructor
      · intro he
        have hr : restore c cfg W₃ i
            = ({ W₃ with store := load (live W₁.store W₁.clock) W₃.clock }, .ok) := by
          simp [restore, hf, hfs, hc.roundtrip _ he]
        rw [hr]
        refine ⟨rfl, live_load _ _ hnd, ?_⟩
        intro k t
        rw [sget_eq_vfind t k (load_nodup _ _), live_load _ _ hnd,
          sget_eq_vfind W₁.clock k h1.store_nodup]
      · intro he
        simp [restore, hf, hfs, hc.lossy_fails _ he]
    · exact absurd hin hnot
  · intro hnot
    rcases hcase with ⟨hin, _⟩ | ⟨_, hfs⟩
    · exact absurd hin hnot
    · simp [restore, hf, hfs]

/-- the hypothesis `encodable` is needed: a store holding an ordinary key and a NaN (value index 20) is
checkpointed, the ordinary key is deleted; the checkpoint is listed, yet `restore` is an error and the store keeps
its CURRENT content (key 1 only) — neither the checkpoint-time state nor part of it -/
theorem restore_reproduces_needs_encodable_counterexample :
    let cfg : Cfg := {}
    let W₁ := run natCodec cfg init [.put 0 7, .put 1 20]
    let i := (checkpoint natCodec cfg W₁).2
    let W₃ := run natCodec cfg (checkpoint natCodec cfg W₁).1 [.delete 0]
    i ∈ W₃.metas.map (·.id) ∧ encodable natCodec (live W₁.store W₁.clock) = false ∧
    (restore natCodec cfg W₃ i).2 = .errParse ∧
    live (restore natCodec cfg W₃ i).1.store (restore natCodec cfg W₃ i).1.clock = [(1, 20)] := by decide

/-- a TTL entry is captured while unexpired; after it has expired, been overwritten and deleted,
and a second checkpoint was taken in the same millisecond as the first, restoring the first
checkpoint brings back exactly the two original entries -/
example :
    let W := run natCodec { maxCk := 2 } init
      [.put 0 7, .putTtl 1 8 5, .checkpoint, .put 0 9, .checkpoint, .advance 10, .delete 0, .put 2 3]
    sget W.store W.clock 0 = none ∧ sget W.store W.clock 1 = none ∧
    (restore natCodec { maxCk := 2 } W ⟨0, 0⟩).2 = .ok ∧
    live (restore natCodec { maxCk := 2 } W ⟨0, 0⟩).1.store 10 = [(0, 7), (1, 8)] ∧
    live (restore natCodec { maxCk := 2 } W ⟨0, 1⟩).1.store 10 = [(0, 9), (1, 8)] := by decide

/-- before the fix: the second checkpoint of the same millisecond overwrites the first, so
restoring the first id yields the *later* state -/
theorem restore_reproduces_legacy_counterexample :
    let cfg : Cfg := { legacy := true }
    let W₁ := run natCodec cfg init [.put 0 7]
    let i := (checkpoint natCodec cfg W₁).2
    let W₃ := run natCodec cfg (checkpoint natCodec cfg W₁).1 [.put 0 9, .checkpoint]
    i ∈ W₃.metas.map (·.id) ∧
    live (restore natCodec cfg W₃ i).1.store (restore natCodec cfg W₃ i).1.clock
      ≠ live W₁.store W₁.clock := by decide

/-- **retained_while_recent** (makes `restore_reproduces` non-vacuous for every history): a
checkpoint stays listed — hence restorable with its exact state — as long as fewer than
`max_checkpoints` further checkpoints have been taken since, whatever else happened. -/
theorem retained_while_recent (c : Codec) (cfg : Cfg) (pre post : List Op)
    (h : countCk post < cfg.maxCk) :
    let W₁ := run c cfg init pre
    (checkpoint c cfg W₁).2 ∈ (run c cfg (checkpoint c cfg W₁).1 post).metas.map (·.id) := by
  intro W₁
  apply listed_run
  rw [checkpoint_metas_ids]
  have hid : (checkpoint c cfg W₁).2 = newId cfg W₁ := rfl
  rw [hid]
  by_cases hbig : W₁.metas.length + 1 > cfg.maxCk
  · rw [if_pos hbig]
    cases hm : W₁.metas with
    | nil => rw [hm] at hbig; simp at hbig; omega
    | cons m rest => exact ⟨rest.map (·.id), [], by simp, by simpa using h⟩
  · rw [if_neg hbig]
    exact ⟨W₁.metas.map (·.id), [], by simp, by simpa using h⟩

example : countCk [Op.put 0 9, .checkpoint, .advance 10, .delete 0] < ({ maxCk := 2 } : Cfg).maxCk := by decide

/-- **crash_preserves_earlier.** After any history, interrupt the next `checkpoint` after any
prefix (`n` steps) of its file-system step sequence. The directory of the interrupted checkpoint is
a fresh one (no earlier checkpoint lives there), and every other directory entry — every earlier
checkpoint — is exactly as before, with the single exception of the checkpoint retention is about
to retire, which is untouched, or has lost its file, or is gone: never altered content. -/
theorem crash_preserves_earlier (c : Codec) (cfg : Cfg) (hl : cfg.legacy = false)
    (ops : List Op) (n : Nat) :
    let W := run c cfg init ops
    fget W.fs (newId cfg W) = none ∧
    ∀ e, e ≠ newId cfg W →
      fget (crashFs c cfg W n) e = fget W.fs e
      ∨ (victimOf cfg.maxCk W.metas (newId cfg W) = some e
          ∧ (fget (crashFs c cfg W n) e = some none ∨ fget (crashFs c cfg W n) e = none)) := by
  intro W
  have hinv : Inv W := inv_run c hl inv_init ops
  constructor
  · cases hfs : fget W.fs (newId cfg W) with
    | none => rfl
    | some x =>
      have := hinv.fs_seq (newId cfg W) (by rw [hfs]; simp)
      rw [newId_fixed hl hinv.fs_seq] at this; simp at this
  · intro e he
    unfold crashFs
    apply prefix_inv (fun fs => fget fs e = fget W.fs e
      ∨ (victimOf cfg.maxCk W.metas (newId cfg W) = some e ∧ (fget fs e = some none ∨ fget fs e = none)))
    · intro s hs fs hQ
      rcases mem_ckSteps hs with h | h | ⟨m, h⟩ | ⟨v, hv, h⟩
      · rw [applyStep_other _ _ _ (by rw [h]; exact fun x => he x.symm)]; exact hQ
      · rw [applyStep_other _ _ _ (by rw [h]; exact fun x => he x.symm)]; exact hQ
      · rw [applyStep_other _ _ _ (by rw [h]; exact fun x => he x.symm)]; exact hQ
      · by_cases hve : v = e
        · subst hve
          right; refine ⟨hv, ?_⟩
          rcases h with h | h
          · subst h; simp only [applyStep]
            split
            · right; assumption
            · left; simp [fget_fset]
          · subst h; right; simp [applyStep, fget_ferase]
        · have : s.target ≠ e := by rcases h with h | h <;> (subst h; exact hve)
          rw [applyStep_other _ _ _ this]; exact hQ
    · exact Or.inl rfl

/-- with two checkpoints on disk and `max_checkpoints = 2`, a crash after 3 steps of the third
checkpoint leaves both earlier files byte-identical -/
example :
    let W := run natCodec { maxCk := 2 } init [.put 0 7, .checkpoint, .put 1 8, .checkpoint, .put 2 9]
    fget (crashFs natCodec { maxCk := 2 } W 3) ⟨0, 0⟩ = some (some [1, 0, 7, 0]) ∧
    fget (crashFs natCodec { maxCk := 2 } W 3) ⟨0, 1⟩ = some (some [1, 0, 7, 1, 1, 8, 0]) ∧
    fget (crashFs natCodec { maxCk := 2 } W 3) ⟨0, 2⟩ = some (some [1]) := by decide

/-- before the fix: a crash right after `File::create` of a second checkpoint in the same
millisecond has truncated the first checkpoint's file -/
theorem crash_preserves_earlier_legacy_counterexample :
    let cfg : Cfg := { legacy := true }
    let W := run natCodec cfg init [.put 0 7, .checkpoint, .put 0 9]
    fget W.fs (newId cfg W) = some (some [1, 0, 7, 0]) ∧
    fget (crashFs natCodec cfg W 2) (newId cfg W) = some (some []) := by decide

/-- **interrupted_all_or_error.** Interrupt a `checkpoint` after any prefix of its step sequence and
let any store `S` (the same one, or a fresh one after a restart) that sees the resulting directory
restore the interrupted id: it either succeeds with the complete state the checkpoint was taking,
or returns an error and leaves `S` untouched — never a partial state. -/
theorem interrupted_all_or_error (c : Codec) (hc : c.Lawful) (cfg : Cfg) (hl : cfg.legacy = false)
    (ops : List Op) (n : Nat) (S : World) :
    let W := run c cfg init ops
    S.fs = crashFs c cfg W n →
    ((restore c cfg S (newId cfg W)).2 = .ok
        ∧ live (restore c cfg S (newId cfg W)).1.store (restore c cfg S (newId cfg W)).1.clock
            = live W.store W.clock)
    ∨ ((restore c cfg S (newId cfg W)).2 ≠ .ok ∧ (restore c cfg S (newId cfg W)).1 = S) := by
  intro W hS
  have hinv : Inv W := inv_run c hl inv_init ops
  have hfresh : fget W.fs (newId cfg W) = none := (crash_preserves_earlier c cfg hl ops 0).1
  have hnd := live_nodup W.clock hinv.store_nodup
  -- the interrupted directory is absent, or has no file, or the file holds a prefix of the bytes
  have hshape : fget (crashFs c cfg W n) (newId cfg W) = none
      ∨ fget (crashFs c cfg W n) (newId cfg W) = some none
      ∨ ∃ m, fget (crashFs c cfg W n) (newId cfg W)
              = some (some ((c.ser (live W.store W.clock)).take m)) := by
    unfold crashFs
    apply prefix_inv (fun fs => fget fs (newId cfg W) = none ∨ fget fs (newId cfg W) = some none
      ∨ ∃ m, fget fs (newId cfg W) = some (some ((c.ser (live W.store W.clock)).take m)))
    · intro s hs fs hQ
      rcases mem_ckSteps hs with h | h | ⟨m, h⟩ | ⟨v, hv, h⟩
      · subst h; simp only [applyStep]
        split
        · right; left; simp [fget_fset]
        · exact hQ
      · subst h; right; right; exact ⟨0, by simp [applyStep, fget_fset]⟩
      · subst h; right; right; exact ⟨m, by simp [applyStep, fget_fset]⟩
      · by_cases hve : v = newId cfg W
        · subst hve
          rcases h with h | h
          · subst h; simp only [applyStep]
            split
            · left; assumption
            · right; left; simp [fget_fset]
          · subst h; left; simp [applyStep, fget_ferase]
        · have : s.target ≠ newId cfg W := by rcases h with h | h <;> (subst h; exact hve)
          rw [applyStep_other _ _ _ this]; exact hQ
    · exact Or.inl hfresh
  rw [← hS] at hshape
  by_cases hf : cfg.file = true
  · rcases hshape with h | h | ⟨m, h⟩
    · right; simp [restore, hf, h]
    · right; simp [restore, hf, h]
    · by_cases hm : m < (c.ser (live W.store W.clock)).length
      · right; simp [restore, hf, h, hc.prefix_fails _ _ hm]
      · have : (c.ser (live W.store W.clock)).take m = c.ser (live W.store W.clock) :=
          List.take_of_length_le (by omega)
        rw [this] at h
        cases he : encodable c (live W.store W.clock) with
        | true =>
          left
          have hr : restore c cfg S (newId cfg W)
              = ({ S with store := load (live W.store W.clock) S.clock }, .ok) := by
            simp [restore, hf, h, hc.roundtrip _ he]
          rw [hr]; exact ⟨rfl, live_load _ _ hnd⟩
        | false =>
          -- the complete file of a snapshot holding a value that does not read back: an error, `S` untouched
          right; simp [restore, hf, h, hc.lossy_fails _ he]
  · right; simp [restore, hf]

/-- all 9 crash points of a checkpoint of two entries, seen by a fresh store after a restart:
errors up to the last byte, the complete state afterwards -/
example :
    let W := run natCodec {} init [.put 0 7, .put 1 8]
    (List.range 10).map (fun n => (restore natCodec {} { fs := crashFs natCodec {} W n } ⟨0, 0⟩).2)
      = [.errNotFound, .errNotFound, .errParse, .errParse, .errParse, .errParse, .errParse,
         .errParse, .errParse, .ok] := by decide

/-- **failed_restore_no_change.** A `restore` that returns an error (unknown or retired id,
directory without file, unreadable/truncated file, memory backend) leaves the whole store —
entries, metadata, directory — exactly as it was; a successful one changes the entries only. -/
theorem failed_restore_no_change (c : Codec) (cfg : Cfg) (W : World) (i : Id) :
    ((restore c cfg W i).2 ≠ .ok → (restore c cfg W i).1 = W)
    ∧ (restore c cfg W i).1.fs = W.fs ∧ (restore c cfg W i).1.metas = W.metas
    ∧ (restore c cfg W i).1.seq = W.seq ∧ (restore c cfg W i).1.clock = W.clock := by
  unfold restore
  split
  · split
    · simp
    · simp
    · split <;> simp
  · simp

/-- a truncated file (any strict prefix of a serialised snapshot) is rejected and nothing changes -/
theorem truncated_restore_rejected (c : Codec) (hc : c.Lawful) (cfg : Cfg) (hf : cfg.file = true)
    (W : World) (i : Id) (m : List (Nat × Nat)) (n : Nat) (hn : n < (c.ser m).length)
    (hfile : fget W.fs i = some (some ((c.ser m).take n))) :
    restore c cfg W i = (W, .errParse) := by
  simp [restore, hf, hfile, hc.prefix_fails m n hn]

example : restore natCodec {} { store := [(5, ⟨1, 0, none⟩)], fs := [(⟨0, 0⟩, some [1, 0, 7])] } ⟨0, 0⟩
    = ({ store := [(5, ⟨1, 0, none⟩)], fs := [(⟨0, 0⟩, some [1, 0, 7])] }, .errParse) := by decide

/-- the contract assumed of `serde_json` is satisfiable: the driver's codec meets it -/
theorem codec_contract_satisfiable : natCodec.Lawful := natCodec_lawful

end C20
