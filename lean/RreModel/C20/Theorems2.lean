import RreModel.C20.Theorems
/-
C20 — property theorems, part 2: the NUMBERED crash points of the real `checkpoint` / `restore` procedures
(`Model.checkpointSteps`, `Model.restoreSteps`: one entry per pair of consecutive `verif_crash::point`s of
`src/streaming/state.rs`; the harness kills a child process at every one of them and the driver predicts the
directory the dead child leaves from these very definitions — `crashAt`, `diesAt`, `pointLabel`), and the life of a
store REOPENED on the directory a dead process left (`Model.reopen`).
-/
set_option linter.unusedSimpArgs false
set_option linter.unusedVariables false
namespace C20

/-! ### the numbered list is the byte-granular list of part 1, coarsened -/

/-- **checkpointSteps_refine.** The byte-granular step sequence the theorems of part 1 quantify over (`ckSteps`) is
exactly the expansion of the numbered procedure steps: `write_all` into its successive prefixes, `remove_dir_all`
into unlink + rmdir, bookkeeping steps into nothing. -/
theorem checkpointSteps_refine (c : Codec) (cfg : Cfg) (W : World) :
    ckSteps c cfg W = (checkpointSteps c cfg W).flatMap PStep.expand := by
  unfold ckSteps checkpointSteps
  cases h : victimOf cfg.maxCk W.metas (newId cfg W) <;>
    simp [h, List.flatMap_cons, List.flatMap_nil, List.flatMap_append, PStep.expand, rmSteps]

example : (checkpointSteps natCodec { maxCk := 1 } (run natCodec { maxCk := 1 } init [.put 0 7, .checkpoint])).map PStep.label
    = ["mkdir", "serialise", "create", "write", "push", "drop", "rmtree", "stamp"] := by decide

theorem take_flatMap_prefix {α β : Type} (f : α → List β) (l : List α) (k : Nat) :
    (l.flatMap f).take ((l.take k).flatMap f).length = (l.take k).flatMap f := by
  have h : l.flatMap f = (l.take k).flatMap f ++ (l.drop k).flatMap f := by
    rw [← List.flatMap_append, List.take_append_drop]
  rw [h, List.take_left']
  rfl

/-- **crashAt_eq_crashFs.** Being killed at numbered crash point `k` leaves the directory of the byte-granular crash
state number `fineIndex … k` — every real crash point is one of the states part 1 quantifies over. -/
theorem crashAt_eq_crashFs (c : Codec) (cfg : Cfg) (W : World) (k : Nat) :
    crashAt c cfg W k = crashFs c cfg W (fineIndex (checkpointSteps c cfg W) k) := by
  unfold crashAt crashDir crashFs fineIndex
  rw [checkpointSteps_refine, take_flatMap_prefix]

example :
    let W := run natCodec {} init [.put 0 7, .put 1 8]
    (List.range 8).map (fun k => fineIndex (checkpointSteps natCodec {} W) k) = [0, 1, 1, 2, 9, 9, 9, 9] := by decide

/-- **crash_at_any_point_preserves_earlier.** After any history, kill the process at ANY numbered crash point `k` of the
next `checkpoint` (`k` past the last point: the call completes). The id under way names a fresh directory, and every
other directory entry — every earlier checkpoint — is exactly as before, except the one retention is retiring, which
is untouched or has lost its file or is gone: never altered content. -/
theorem crash_at_any_point_preserves_earlier (c : Codec) (cfg : Cfg) (hl : cfg.legacy = false)
    (ops : List Op) (k : Nat) :
    let W := run c cfg init ops
    fget W.fs (newId cfg W) = none ∧
    ∀ e, e ≠ newId cfg W →
      fget (crashAt c cfg W k) e = fget W.fs e
      ∨ (victimOf cfg.maxCk W.metas (newId cfg W) = some e
          ∧ (fget (crashAt c cfg W k) e = some none ∨ fget (crashAt c cfg W k) e = none)) := by
  intro W
  rw [crashAt_eq_crashFs]
  exact crash_preserves_earlier c cfg hl ops _

/-- retention bound 1, one checkpoint on disk: killed at point 6 (`drop`: metadata dropped, directory not yet removed)
the earlier checkpoint is byte-identical and the new one complete; at point 7 (`rmtree`) the earlier one is gone -/
example :
    let W := run natCodec { maxCk := 1 } init [.put 0 7, .checkpoint, .put 0 9]
    fget (crashAt natCodec { maxCk := 1 } W 6) ⟨0, 0⟩ = some (some [1, 0, 7, 0]) ∧
    fget (crashAt natCodec { maxCk := 1 } W 6) ⟨0, 1⟩ = some (some [1, 0, 9, 0]) ∧
    fget (crashAt natCodec { maxCk := 1 } W 7) ⟨0, 0⟩ = none := by decide

/-- **crash_at_any_point_all_or_error.** Kill the process at ANY numbered crash point of a `checkpoint` and let any
store `S` that sees the directory it left (a new one after the restart) restore the interrupted id: the complete state
the checkpoint was taking, or an error and `S` untouched — never a partial state. -/
theorem crash_at_any_point_all_or_error (c : Codec) (hc : c.Lawful) (cfg : Cfg) (hl : cfg.legacy = false)
    (ops : List Op) (k : Nat) (S : World) :
    let W := run c cfg init ops
    S.fs = crashAt c cfg W k →
    ((restore c cfg S (newId cfg W)).2 = .ok
        ∧ live (restore c cfg S (newId cfg W)).1.store (restore c cfg S (newId cfg W)).1.clock
            = live W.store W.clock)
    ∨ ((restore c cfg S (newId cfg W)).2 ≠ .ok ∧ (restore c cfg S (newId cfg W)).1 = S) := by
  intro W hS
  rw [crashAt_eq_crashFs] at hS
  exact interrupted_all_or_error c hc cfg hl ops _ S hS

/-- the eight numbered points of a checkpoint of two entries (no retention), seen by a new store after the restart:
"not found" up to `serialise`, a parse error at `create` (empty file), the complete state from `write` on -/
example :
    let W := run natCodec {} init [.put 0 7, .put 1 8]
    (List.range 8).map (fun k => (restore natCodec {} (reopen (crashAt natCodec {} W k) 5) ⟨0, 0⟩).2)
      = [.errNotFound, .errNotFound, .errNotFound, .errParse, .ok, .ok, .ok, .ok] := by decide

/-- **numbered_point_complete_from_write.** At the numbered points the interrupted checkpoint is all-or-nothing in the
sharp sense: from point 4 (`write`, after `write_all` returned) on, a new store restores the complete state, unless
retention is retiring this very checkpoint (`max_checkpoints = 0`). -/
theorem numbered_point_complete_from_write (c : Codec) (hc : c.Lawful) (cfg : Cfg) (hf : cfg.file = true)
    (W : World) (k : Nat) (hk : 4 ≤ k) (S : World) (hS : S.fs = crashAt c cfg W k)
    (hv : victimOf cfg.maxCk W.metas (newId cfg W) ≠ some (newId cfg W))
    (he : encodable c (live W.store W.clock) = true) :
    restore c cfg S (newId cfg W) = ({ S with store := load (live W.store W.clock) S.clock }, .ok) := by
  have hfile : fget (crashAt c cfg W k) (newId cfg W) = some (some (c.ser (live W.store W.clock))) := by
    obtain ⟨j, rfl⟩ : ∃ j, k = 4 + j := ⟨k - 4, by omega⟩
    unfold crashAt crashDir checkpointSteps
    generalize hb : c.ser (live W.store W.clock) = bytes
    generalize hi : newId cfg W = i at hv ⊢
    have h4 : ∀ (rest : List PStep),
        ([PStep.fs (.mkdir i), .mem "serialise", .fs (.create i), .writeAll i bytes, .mem "push"] ++ rest).take (4 + j)
          = [PStep.fs (.mkdir i), .mem "serialise", .fs (.create i), .writeAll i bytes] ++ ([PStep.mem "push"] ++ rest).take j := by
      intro rest
      have : 4 + j = j + 1 + 1 + 1 + 1 := by omega
      rw [this]; simp
    simp only [List.append_assoc]
    rw [h4, List.flatMap_append, List.foldl_append]
    -- after the first four steps the file is complete
    have hbase : ∀ e, fget (([PStep.fs (.mkdir i), .mem "serialise", .fs (.create i), .writeAll i bytes].flatMap PStep.expand).foldl applyStep W.fs) e
        = if e = i then some (some bytes) else fget W.fs e := by
      intro e
      simp only [List.flatMap_cons, List.flatMap_nil, PStep.expand, List.append_nil, List.nil_append,
        List.cons_append, List.foldl_cons]
      rw [foldl_writeSteps]
      by_cases h : e = i
      · subst h
        by_cases hn : 0 < bytes.length
        · simp [hn]
        · have : bytes = [] := by cases bytes <;> simp_all
          simp [this, applyStep, fget_fset]
      · have h1 : (FsStep.create i).target ≠ e := fun x => h x.symm
        have h2 : (FsStep.mkdir i).target ≠ e := fun x => h x.symm
        simp [h, applyStep_other _ _ _ h1, applyStep_other _ _ _ h2]
    have hpres : ∀ (l : List FsStep) (fs : List (Id × Option (List Nat))), (∀ s ∈ l, s.target ≠ i) →
        fget (l.foldl applyStep fs) i = fget fs i := by
      intro l
      induction l with
      | nil => intro fs _; rfl
      | cons s r ih =>
        intro fs h
        simp only [List.foldl_cons]
        rw [ih _ (fun s' hs' => h s' (List.mem_cons_of_mem _ hs')),
          applyStep_other _ _ _ (h s (List.mem_cons_self ..))]
    refine (hpres _ _ ?_).trans (by rw [hbase]; simp)
    -- the remaining steps touch only the retention victim, which is another directory
    · intro s hs
      obtain ⟨p, hp, hsp⟩ := List.mem_flatMap.mp hs
      have hp' := List.mem_of_mem_take hp
      cases hvv : victimOf cfg.maxCk W.metas i with
      | none =>
        simp [hvv] at hp'
        rcases hp' with h | h <;> (subst h; simp [PStep.expand] at hsp)
      | some v =>
        have hvi : v ≠ i := fun e => hv (by rw [hvv, e])
        simp [hvv] at hp'
        rcases hp' with h | h | h | h
        · subst h; simp [PStep.expand] at hsp
        · subst h; simp [PStep.expand] at hsp
        · subst h; simp [PStep.expand] at hsp
          rcases hsp with h | h <;> (subst h; exact hvi)
        · subst h; simp [PStep.expand] at hsp
  simp [restore, hf, hS, hfile, hc.roundtrip _ he]

/-- the hypothesis `encodable` of `numbered_point_complete_from_write` is needed: the checkpoint of a store holding
+inf (value index 21) next to an ordinary key is an error for a new store at EVERY point, the completed call included -/
theorem numbered_point_needs_encodable_counterexample :
    let W := run natCodec {} init [.put 0 7, .put 1 21]
    (List.range 9).map (fun k => (restore natCodec {} (reopen (crashAt natCodec {} W k) 5) ⟨0, 0⟩).2)
      = [.errNotFound, .errNotFound, .errNotFound, .errParse, .errParse, .errParse, .errParse, .errParse, .errParse] := by
  decide

example : victimOf ({} : Cfg).maxCk (run natCodec {} init [.put 0 7]).metas (newId {} (run natCodec {} init [.put 0 7]))
    ≠ some (newId {} (run natCodec {} init [.put 0 7])) := by decide

/-- **restore_crash_no_fs_change.** `restore` never writes the directory: a process killed at any of its crash points
leaves every checkpoint exactly as it was. -/
theorem restore_crash_no_fs_change (c : Codec) (cfg : Cfg) (W : World) (i : Id) (k : Nat) :
    crashDir (restoreSteps c cfg W i) W.fs k = W.fs := by
  have hall : ∀ s ∈ restoreSteps c cfg W i, s.expand = [] := by
    intro s hs
    unfold restoreSteps at hs
    split at hs
    · split at hs
      · split at hs
        · simp at hs; rcases hs with h | h | h <;> (subst h; rfl)
        · simp at hs; rcases hs with h | h | h | h | h | h <;> (subst h; rfl)
      · simp at hs
    · simp at hs
  unfold crashDir
  have : (List.take k (restoreSteps c cfg W i)).flatMap PStep.expand = [] := by
    rw [List.flatMap_eq_nil_iff]
    intro s hs
    exact hall s (List.mem_of_mem_take hs)
  rw [this]; rfl

example :
    let W := run natCodec {} init [.put 0 7, .checkpoint, .put 0 9]
    (restoreSteps natCodec {} W ⟨0, 0⟩).map PStep.label = ["exists", "open", "read", "parse", "clear", "load"]
    ∧ restoreSteps natCodec {} W ⟨5, 5⟩ = [] := by decide

/-! ### a store reopened on the directory a dead process left -/

/-- `Inv` of a reopened store, provided the clock has moved past every surviving directory's millisecond -/
theorem inv_reopen {F : List (Id × Option (List Nat))} {t : Nat}
    (h : ∀ i, fget F i ≠ none → i.ms < t) : Inv (reopen F t) := by
  refine ⟨by simp [reopen], ?_, by simp [reopen], by simp [reopen]⟩
  intro i hi
  exact Or.inr (h i hi)

/-- the checkpoints a store knows (and every one it will take) are not older than `t` -/
structure Since (t : Nat) (W : World) : Prop where
  clock : t ≤ W.clock
  metas : ∀ m ∈ W.metas, t ≤ m.id.ms

theorem newId_ms (cfg : Cfg) (W : World) : (newId cfg W).ms = W.clock := by
  unfold newId; split
  · rfl
  · split <;> rfl

theorem since_step (c : Codec) (cfg : Cfg) {t : Nat} {W : World} (h : Since t W) (op : Op) :
    Since t (step c cfg W op).1 := by
  by_cases hop : op = .checkpoint
  · subst hop
    refine ⟨by simpa [step, checkpoint] using h.clock, ?_⟩
    intro m hm
    simp only [step, checkpoint] at hm
    have := (retain_sublist _ _).subset hm
    simp only [List.mem_append, List.mem_singleton] at this
    rcases this with hm' | hm'
    · exact h.metas m hm'
    · rw [hm']; simp only [newId_ms]; exact h.clock
  · refine ⟨Nat.le_trans h.clock (step_clock_mono c cfg W op), ?_⟩
    rw [(step_frame c cfg W op hop).2.1]; exact h.metas

/-- a directory older than everything the store knows is never touched: not by a write (ids carry the current
millisecond), not by retention (it removes listed checkpoints only) -/
theorem older_untouched_step (c : Codec) (cfg : Cfg) {t : Nat} {W : World} (h : Since t W) (op : Op)
    (e : Id) (he : e.ms < t) : fget (step c cfg W op).1.fs e = fget W.fs e := by
  by_cases hop : op = .checkpoint
  · subst hop
    simp only [step, checkpoint]
    by_cases hf : cfg.file = true
    · simp only [hf, if_true, ck_fs_final]
      have hne : e ≠ newId cfg W := by
        intro x; have := newId_ms cfg W; rw [← x] at this; have := h.clock; omega
      have hv : victimOf cfg.maxCk W.metas (newId cfg W) ≠ some e := by
        unfold victimOf
        split
        · cases hm : W.metas with
          | nil => simp; exact fun x => hne x.symm
          | cons m r =>
            simp
            intro x
            have := h.metas m (by rw [hm]; simp)
            rw [x] at this; omega
        · simp
      simp [hv, hne]
    · simp [hf]
  · rw [(step_frame c cfg W op hop).2.2]

theorem older_untouched_run (c : Codec) (cfg : Cfg) {t : Nat} {W : World} (h : Since t W) (ops : List Op)
    (e : Id) (he : e.ms < t) : fget (run c cfg W ops).fs e = fget W.fs e := by
  induction ops generalizing W with
  | nil => rfl
  | cons op r ih =>
    simp only [run, List.foldl_cons]
    have := ih (since_step c cfg h op)
    simp only [run] at this
    rw [this, older_untouched_step c cfg h op e he]

theorem ckIds_since (c : Codec) (cfg : Cfg) {t : Nat} {W : World} (h : Since t W) (ops : List Op) :
    ∀ i ∈ ckIds c cfg W ops, t ≤ i.ms := by
  induction ops generalizing W with
  | nil => simp [ckIds]
  | cons op r ih =>
    have ih' := ih (since_step c cfg h op)
    simp only [ckIds]
    split
    · rename_i i hi
      obtain ⟨_, hid⟩ := step_ckpt_out hi
      intro j hj
      rcases List.mem_cons.mp hj with e | hj
      · rw [e, hid, newId_ms]; exact h.clock
      · exact ih' j hj
    · exact ih'

/-- **restore_after_crash_then_continue_later_ms** (the statement as it stood before fix-C20b; still the strongest one
for a restart that takes at least a millisecond: it covers EVERY directory entry, the file-less ones included).
Let a process die at ANY numbered crash point `k` of a `checkpoint` after any
history (`k` past the end: it exits normally after the call), and let a NEW store be opened on the directory it left
at a clock reading `t` later than the millisecond of every surviving directory (time has passed during the restart).
Whatever the new store then does (`pre`, a checkpoint, `post`):
* (`restore_reproduces`) its checkpoint, while listed, restores exactly the unexpired keys/values of the moment it was
  taken, and reports "not found" once retired;
* (`ids_distinct`) the ids it hands out are pairwise distinct AND none of them names a directory the dead process
  left — no checkpoint of the earlier life is aliased;
* every directory the dead process left — every earlier checkpoint and the interrupted one — stays byte-for-byte what
  it was at the crash (so what a restore of it yields, settled by `crash_at_any_point_*`, never changes). -/
theorem restore_after_crash_then_continue_later_ms (c : Codec) (hc : c.Lawful) (cfg : Cfg) (hl : cfg.legacy = false)
    (hf : cfg.file = true) (ops : List Op) (k t : Nat) (pre post : List Op) :
    let W := run c cfg init ops
    let F := crashAt c cfg W k
    (∀ e, fget F e ≠ none → e.ms < t) →
    let W₁ := run c cfg (reopen F t) pre
    let i := (checkpoint c cfg W₁).2
    let W₃ := run c cfg (checkpoint c cfg W₁).1 post
    ((i ∈ W₃.metas.map (·.id) → encodable c (live W₁.store W₁.clock) = true →
        (restore c cfg W₃ i).2 = .ok
        ∧ live (restore c cfg W₃ i).1.store (restore c cfg W₃ i).1.clock = live W₁.store W₁.clock)
      ∧ (i ∉ W₃.metas.map (·.id) → restore c cfg W₃ i = (W₃, .errNotFound)))
    ∧ ((ckIds c cfg (reopen F t) (pre ++ .checkpoint :: post)).Nodup
        ∧ ∀ j ∈ ckIds c cfg (reopen F t) (pre ++ .checkpoint :: post), fget F j = none)
    ∧ (∀ e, fget F e ≠ none → fget W₃.fs e = fget F e) := by
  intro W F hF W₁ i W₃
  have h0 : Inv (reopen F t) := inv_reopen hF
  have s0 : Since t (reopen F t) := ⟨by simp [reopen], by simp [reopen]⟩
  have h1 : Inv W₁ := inv_run c hl h0 pre
  have h2 : Inv (checkpoint c cfg W₁).1 := inv_step c hl h1 .checkpoint
  refine ⟨?_, ?_, ?_⟩
  · have ht : Tracks i (c.ser (live W₁.store W₁.clock)) W₃ :=
      tracks_run c hl hf h2.toR (tracks_new c hl hf h1.toR) post
    obtain ⟨_, hcase⟩ := ht
    have hnd := live_nodup W₁.clock h1.store_nodup
    constructor
    · intro hin he
      rcases hcase with ⟨_, hfs⟩ | ⟨hnot, _⟩
      · have hr : restore c cfg W₃ i
            = ({ W₃ with store := load (live W₁.store W₁.clock) W₃.clock }, .ok) := by
          simp [restore, hf, hfs, hc.roundtrip _ he]
        rw [hr]
        exact ⟨rfl, live_load _ _ hnd⟩
      · exact absurd hin hnot
    · intro hnot
      rcases hcase with ⟨hin, _⟩ | ⟨_, hfs⟩
      · exact absurd hin hnot
      · simp [restore, hf, hfs]
  · refine ⟨(ckIds_fresh c hl _ _).1, ?_⟩
    intro j hj
    have := ckIds_since c cfg s0 _ j hj
    cases hfj : fget F j with
    | none => rfl
    | some x =>
      have := hF j (by rw [hfj]; simp)
      omega
  · intro e he
    have hlt := hF e he
    have : W₃ = run c cfg (reopen F t) (pre ++ .checkpoint :: post) := by
      simp [W₃, W₁, run, List.foldl_append, step]
    rw [this, older_untouched_run c cfg s0 _ e hlt]
    rfl

/-- killed at point 3 (`create`: empty file) of the second checkpoint; reopened 1 ms later, the new store takes two
checkpoints (ids ⟨1,0⟩ ⟨1,1⟩, none aliasing ⟨0,0⟩ ⟨0,1⟩), restores its own first one exactly, and the dead store's
completed checkpoint still restores its state -/
example :
    let W := run natCodec {} init [.put 0 7, .checkpoint, .put 0 9]
    let F := crashAt natCodec {} W 3
    let W₃ := run natCodec {} (reopen F 1) [.put 1 4, .checkpoint, .put 1 5, .checkpoint]
    (∀ e ∈ F.map (·.1), e.ms < 1) ∧
    ckIds natCodec {} (reopen F 1) [.put 1 4, .checkpoint, .put 1 5, .checkpoint] = [⟨1, 0⟩, ⟨1, 1⟩] ∧
    live (restore natCodec {} W₃ ⟨1, 0⟩).1.store 1 = [(1, 4)] ∧
    live (restore natCodec {} W₃ ⟨0, 0⟩).1.store 1 = [(0, 7)] ∧
    (restore natCodec {} W₃ ⟨0, 1⟩).2 = .errParse := by decide

/-! ### after fix-C20b: a store opened on ANY directory at ANY clock reading -/

/-- checkpoint file `e` (content `bytes`) is on disk and the store does not list it (so retention will never retire it) -/
def Keeps (e : Id) (bytes : List Nat) (W : World) : Prop :=
  fget W.fs e = some (some bytes) ∧ ∀ m ∈ W.metas, m.id ≠ e

theorem keeps_step (c : Codec) {cfg : Cfg} (hl : cfg.legacy = false) (hf : cfg.file = true) (hs : cfg.noSkip = false)
    {W : World} {e : Id} {bytes : List Nat} (h : Keeps e bytes W) (op : Op) : Keeps e bytes (step c cfg W op).1 := by
  by_cases hop : op = .checkpoint
  · subst hop
    obtain ⟨hfile, hmetas⟩ := h
    have hfree := newId_free hl hf hs W
    have hne : e ≠ newId cfg W := by
      intro x; rw [← x, hfile] at hfree; simp [isFile] at hfree
    have hv : victimOf cfg.maxCk W.metas (newId cfg W) ≠ some e := by
      unfold victimOf
      split
      · cases hm : W.metas with
        | nil => simp; exact fun x => hne x.symm
        | cons m r => simp; exact hmetas m (by rw [hm]; simp)
      · simp
    refine ⟨?_, ?_⟩
    · simp only [step, checkpoint, hf, if_true, ck_fs_final]
      simp [hv, hne, hfile]
    · intro m hm
      simp only [step, checkpoint] at hm
      have := (retain_sublist _ _).subset hm
      simp only [List.mem_append, List.mem_singleton] at this
      rcases this with hm' | hm'
      · exact hmetas m hm'
      · rw [hm']; exact fun x => hne x.symm
  · obtain ⟨_, h2, h3⟩ := step_frame c cfg W op hop
    unfold Keeps; rw [h2, h3]; exact h

theorem keeps_run (c : Codec) {cfg : Cfg} (hl : cfg.legacy = false) (hf : cfg.file = true) (hs : cfg.noSkip = false)
    {W : World} {e : Id} {bytes : List Nat} (h : Keeps e bytes W) (ops : List Op) : Keeps e bytes (run c cfg W ops) := by
  induction ops generalizing W with
  | nil => exact h
  | cons op r ih => exact ih (keeps_step c hl hf hs h op)

/-- no id handed out names a checkpoint file of the directory `F` the store was opened on -/
theorem ckIds_not_file (c : Codec) {cfg : Cfg} (hl : cfg.legacy = false) (hf : cfg.file = true) (hs : cfg.noSkip = false)
    (F : List (Id × Option (List Nat))) {W : World}
    (h : ∀ e bytes, fget F e = some (some bytes) → Keeps e bytes W) (ops : List Op) :
    ∀ j ∈ ckIds c cfg W ops, isFile (fget F j) = false := by
  induction ops generalizing W with
  | nil => simp [ckIds]
  | cons op r ih =>
    have ih' := ih (W := (step c cfg W op).1) (fun e b he => keeps_step c hl hf hs (h e b he) op)
    simp only [ckIds]
    split
    · rename_i i hi
      obtain ⟨_, hid⟩ := step_ckpt_out hi
      intro j hj
      rcases List.mem_cons.mp hj with e | hj
      · cases hF : fget F j with
        | none => rfl
        | some x =>
          cases x with
          | none => rfl
          | some b =>
            have hk := (h j b hF).1
            have hfree := newId_free hl hf hs W
            rw [← hid, ← e, hk] at hfree
            simp [isFile] at hfree
      · exact ih' j hj
    · exact ih'

/-- **reopen_on_any_directory** (fix-C20b). Open a NEW store at ANY clock reading `t` - the same millisecond as an
earlier life, an earlier one - on ANY directory `F` (whatever an earlier life, a crash, anybody left there). Whatever the
store then does (`pre`, a checkpoint, `post`):
* its checkpoint, while listed, restores exactly the unexpired keys/values of the moment it was taken, and reports "not
  found" once retired;
* the ids it hands out are pairwise distinct and none of them names a checkpoint FILE of `F`;
* every checkpoint file of `F` stays byte-for-byte what it was.
No hypothesis on the clock: the sequence number skips the ids that are taken (`freeSeq`). -/
theorem reopen_on_any_directory (c : Codec) (hc : c.Lawful) (cfg : Cfg) (hl : cfg.legacy = false)
    (hf : cfg.file = true) (hs : cfg.noSkip = false) (F : List (Id × Option (List Nat))) (t : Nat) (pre post : List Op) :
    let W₁ := run c cfg (reopen F t) pre
    let i := (checkpoint c cfg W₁).2
    let W₃ := run c cfg (checkpoint c cfg W₁).1 post
    ((i ∈ W₃.metas.map (·.id) → encodable c (live W₁.store W₁.clock) = true →
        (restore c cfg W₃ i).2 = .ok
        ∧ live (restore c cfg W₃ i).1.store (restore c cfg W₃ i).1.clock = live W₁.store W₁.clock)
      ∧ (i ∉ W₃.metas.map (·.id) → restore c cfg W₃ i = (W₃, .errNotFound)))
    ∧ ((ckIds c cfg (reopen F t) (pre ++ .checkpoint :: post)).Nodup
        ∧ ∀ j ∈ ckIds c cfg (reopen F t) (pre ++ .checkpoint :: post), isFile (fget F j) = false)
    ∧ (∀ e bytes, fget F e = some (some bytes) → fget W₃.fs e = some (some bytes)) := by
  intro W₁ i W₃
  have h0 : InvR (reopen F t) := ⟨by simp [reopen], by simp [reopen], by simp [reopen]⟩
  have k0 : ∀ e bytes, fget F e = some (some bytes) → Keeps e bytes (reopen F t) :=
    fun e b he => ⟨he, by simp [reopen]⟩
  have h1 : InvR W₁ := invR_run c hl h0 pre
  have h2 : InvR (checkpoint c cfg W₁).1 := invR_step c hl h1 .checkpoint
  refine ⟨?_, ?_, ?_⟩
  · have ht : Tracks i (c.ser (live W₁.store W₁.clock)) W₃ :=
      tracks_run c hl hf h2 (tracks_new c hl hf h1) post
    obtain ⟨_, hcase⟩ := ht
    have hnd := live_nodup W₁.clock h1.store_nodup
    constructor
    · intro hin he
      rcases hcase with ⟨_, hfs⟩ | ⟨hnot, _⟩
      · have hr : restore c cfg W₃ i
            = ({ W₃ with store := load (live W₁.store W₁.clock) W₃.clock }, .ok) := by
          simp [restore, hf, hfs, hc.roundtrip _ he]
        rw [hr]
        exact ⟨rfl, live_load _ _ hnd⟩
      · exact absurd hin hnot
    · intro hnot
      rcases hcase with ⟨hin, _⟩ | ⟨_, hfs⟩
      · exact absurd hin hnot
      · simp [restore, hf, hfs]
  · exact ⟨(ckIds_fresh c hl _ _).1, ckIds_not_file c hl hf hs F k0 _⟩
  · intro e bytes he
    have : W₃ = run c cfg (reopen F t) (pre ++ .checkpoint :: post) := by
      simp [W₃, W₁, run, List.foldl_append, step]
    rw [this]
    exact (keeps_run c hl hf hs (k0 e bytes he) _).1

/-- **restore_after_crash_then_continue** (after fix-C20b: no clock hypothesis). Let a process die at ANY numbered crash
point `k` of a `checkpoint` after any history, and let a NEW store be opened on the directory it left at ANY clock reading
`t` - also within the very millisecond of the dead store's checkpoints. Whatever the new store then does, its checkpoint
restores exactly its state while listed, its ids are pairwise distinct and name no checkpoint file the dead process left,
and every such file - every earlier checkpoint and what there is of the interrupted one - stays byte-for-byte what it was
at the crash (so what a restore of it yields, settled by `crash_at_any_point_*`, never changes). -/
theorem restore_after_crash_then_continue (c : Codec) (hc : c.Lawful) (cfg : Cfg) (hl : cfg.legacy = false)
    (hf : cfg.file = true) (hs : cfg.noSkip = false) (ops : List Op) (k t : Nat) (pre post : List Op) :
    let W := run c cfg init ops
    let F := crashAt c cfg W k
    let W₁ := run c cfg (reopen F t) pre
    let i := (checkpoint c cfg W₁).2
    let W₃ := run c cfg (checkpoint c cfg W₁).1 post
    ((i ∈ W₃.metas.map (·.id) → encodable c (live W₁.store W₁.clock) = true →
        (restore c cfg W₃ i).2 = .ok
        ∧ live (restore c cfg W₃ i).1.store (restore c cfg W₃ i).1.clock = live W₁.store W₁.clock)
      ∧ (i ∉ W₃.metas.map (·.id) → restore c cfg W₃ i = (W₃, .errNotFound)))
    ∧ ((ckIds c cfg (reopen F t) (pre ++ .checkpoint :: post)).Nodup
        ∧ ∀ j ∈ ckIds c cfg (reopen F t) (pre ++ .checkpoint :: post), isFile (fget F j) = false)
    ∧ (∀ e bytes, fget F e = some (some bytes) → fget W₃.fs e = some (some bytes)) := by
  intro W F
  exact reopen_on_any_directory c hc cfg hl hf hs F t pre post

/-- the witness of F-C20b after the fix: the dead store took ⟨0,0⟩ and ⟨0,1⟩; reopened in the SAME millisecond the new
store's first checkpoint gets ⟨0,2⟩, both earlier files are intact and all three restore their own state -/
example :
    let W := run natCodec {} init [.put 0 7, .checkpoint, .put 0 8]
    let F := crashAt natCodec {} W 99
    let W₃ := run natCodec {} (reopen F 0) [.put 0 9, .checkpoint]
    ckIds natCodec {} (reopen F 0) [.put 0 9, .checkpoint] = [⟨0, 2⟩] ∧
    live (restore natCodec {} W₃ ⟨0, 0⟩).1.store 0 = [(0, 7)] ∧
    live (restore natCodec {} W₃ ⟨0, 1⟩).1.store 0 = [(0, 8)] ∧
    live (restore natCodec {} W₃ ⟨0, 2⟩).1.store 0 = [(0, 9)] := by decide

/-- the statement of `restore_after_crash_then_continue` about the surviving checkpoint files, for the code before
(`noSkip = true`) / after (`false`) fix-C20b, with the reference codec -/
def reopen_preserves_files (noSkip : Bool) : Prop :=
  ∀ (cfg : Cfg), cfg.legacy = false → cfg.file = true → cfg.noSkip = noSkip → ∀ (ops : List Op) (k t : Nat) (ops₂ : List Op),
    (run natCodec cfg init ops).clock ≤ t →
    ∀ e bytes, fget (crashAt natCodec cfg (run natCodec cfg init ops) k) e = some (some bytes) →
      fget (run natCodec cfg (reopen (crashAt natCodec cfg (run natCodec cfg init ops) k) t) ops₂).fs e = some (some bytes)

/-- **reopen_same_ms_aliases_counterexample** (finding F-C20b, the code BEFORE fix-C20b). `checkpoint_seq` restarts at 0
in a new store and the directory was not consulted: reopened within the SAME millisecond, the new store's first
checkpoint got the id of the dead store's first checkpoint and overwrote it (`[1,0,7,0]` became `[1,0,9,0]`). -/
theorem reopen_same_ms_aliases_counterexample : ¬ reopen_preserves_files true := by
  intro h
  have := h { noSkip := true } rfl rfl rfl [.put 0 7, .checkpoint] 99 0 [.put 0 9, .checkpoint] (by decide) ⟨0, 0⟩
    [1, 0, 7, 0] (by decide)
  revert this
  decide

/-- … and after the fix the statement holds (for every clock reading, not only `clock ≤ t`) -/
theorem reopen_preserves_files_fixed : reopen_preserves_files false := by
  intro cfg hl hf hs ops k t ops₂ _ e bytes he
  exact (keeps_run natCodec hl hf hs ⟨he, by simp [reopen]⟩ ops₂).1

/-- what the fix does NOT give (residual of F-C20b): the directory remembers only the checkpoints that still have a file.
An id the earlier life handed out and retention RETIRED since (⟨0,0⟩, `max_checkpoints = 1`) is handed out again by a
store reopened within the same millisecond - no checkpoint is damaged, but the two ids are equal. -/
theorem reopen_same_ms_reuses_retired_id_counterexample :
    let cfg : Cfg := { maxCk := 1 }
    let ops : List Op := [.put 0 7, .checkpoint, .put 0 8, .checkpoint]
    let F := crashAt natCodec cfg (run natCodec cfg init ops) 99
    ckIds natCodec cfg init ops = [⟨0, 0⟩, ⟨0, 1⟩]
    ∧ ckIds natCodec cfg (reopen F 0) [.put 0 9, .checkpoint] = [⟨0, 0⟩] := by decide

end C20
