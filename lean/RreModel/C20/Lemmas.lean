import RreModel.C20.Model
/-
C20 — helper lemmas: the directory as a finite map, the step sequence of a checkpoint, the store as a
map with distinct keys, the concrete codec, the invariant of reachable worlds, and tracking one
checkpoint through the rest of a history. Core only (no Mathlib).
-/
set_option linter.unusedSimpArgs false
set_option linter.unusedVariables false
namespace C20

theorem fget_ferase (fs : List (Id × Option (List Nat))) (i j : Id) :
    fget (ferase fs i) j = if j = i then none else fget fs j := by
  induction fs with
  | nil => simp [ferase, fget]
  | cons p r ih =>
    obtain ⟨q, c⟩ := p
    unfold ferase at ih ⊢
    by_cases h : q = i
    · by_cases h2 : j = i
      · simp [List.filter_cons, h, h2, fget] at ih ⊢; exact ih
      · have : ¬ i = j := fun e => h2 e.symm
        simp [List.filter_cons, h, h2, fget, this] at ih ⊢; exact ih
    · by_cases h2 : j = i
      · have : ¬ q = j := fun e => h (e.trans h2)
        simp [List.filter_cons, h, h2, fget] at ih ⊢; exact ih
      · by_cases h3 : q = j
        · simp [List.filter_cons, h, h2, h3, fget]
        · simp [List.filter_cons, h, h2, h3, fget] at ih ⊢; exact ih

theorem fget_fset (fs : List (Id × Option (List Nat))) (i j : Id) (c : Option (List Nat)) :
    fget (fset fs i c) j = if j = i then some c else fget fs j := by
  unfold fset
  by_cases h : j = i
  · simp [fget, h]
  · have : ¬ i = j := fun e => h e.symm
    simp [fget, this, h, fget_ferase]

/-- the directory a step touches -/
def FsStep.target : FsStep → Id
  | .mkdir i => i
  | .create i => i
  | .write i _ => i
  | .rmFile i => i
  | .rmDir i => i

theorem applyStep_other (fs : List (Id × Option (List Nat))) (s : FsStep) (j : Id)
    (h : s.target ≠ j) : fget (applyStep fs s) j = fget fs j := by
  have h' : ¬ j = s.target := fun e => h e.symm
  cases s with
  | mkdir i =>
    simp only [FsStep.target] at h'
    simp only [applyStep]; split <;> simp [fget_fset, h']
  | create i => simp only [FsStep.target] at h'; simp [applyStep, fget_fset, h']
  | write i p => simp only [FsStep.target] at h'; simp [applyStep, fget_fset, h']
  | rmFile i =>
    simp only [FsStep.target] at h'
    simp only [applyStep]; split <;> simp [fget_fset, h']
  | rmDir i => simp only [FsStep.target] at h'; simp [applyStep, fget_ferase, h']

/-- a property preserved by every step of a list holds after every prefix of the list -/
theorem prefix_inv (Q : List (Id × Option (List Nat)) → Prop) (steps : List FsStep)
    (h : ∀ s ∈ steps, ∀ fs, Q fs → Q (applyStep fs s))
    (fs : List (Id × Option (List Nat))) (h0 : Q fs) (n : Nat) :
    Q ((steps.take n).foldl applyStep fs) := by
  induction steps generalizing fs n with
  | nil => simpa using h0
  | cons s r ih =>
    cases n with
    | zero => simpa using h0
    | succ n =>
      simp only [List.take_succ_cons, List.foldl_cons]
      exact ih (fun s' hs' => h s' (List.mem_cons_of_mem _ hs')) _ (h s (List.mem_cons_self ..) fs h0) n

theorem mem_writeSteps {i : Id} {bytes : List Nat} {n : Nat} {s : FsStep}
    (h : s ∈ writeSteps i bytes n) : ∃ m, s = .write i (bytes.take m) := by
  induction n with
  | zero => simp [writeSteps] at h
  | succ n ih =>
    simp only [writeSteps, List.mem_append, List.mem_singleton] at h
    rcases h with h | h
    · exact ih h
    · exact ⟨n + 1, h⟩

theorem mem_ckSteps {c : Codec} {cfg : Cfg} {W : World} {s : FsStep} (h : s ∈ ckSteps c cfg W) :
    s = .mkdir (newId cfg W) ∨ s = .create (newId cfg W)
    ∨ (∃ m, s = .write (newId cfg W) ((c.ser (live W.store W.clock)).take m))
    ∨ (∃ v, victimOf cfg.maxCk W.metas (newId cfg W) = some v ∧ (s = .rmFile v ∨ s = .rmDir v)) := by
  simp only [ckSteps, List.mem_append, List.mem_cons, List.mem_nil_iff, or_false] at h
  rcases h with (h | h) | h
  · rcases h with h | h
    · exact Or.inl h
    · exact Or.inr (Or.inl h)
  · exact Or.inr (Or.inr (Or.inl (mem_writeSteps h)))
  · cases hv : victimOf cfg.maxCk W.metas (newId cfg W) with
    | none => simp [hv, rmSteps] at h
    | some v =>
      simp only [hv, rmSteps, List.mem_cons, List.mem_nil_iff, or_false] at h
      exact Or.inr (Or.inr (Or.inr ⟨v, rfl, h⟩))

theorem foldl_writeSteps (fs : List (Id × Option (List Nat))) (i j : Id) (bytes : List Nat) (n : Nat) :
    fget ((writeSteps i bytes n).foldl applyStep fs) j
      = if j = i ∧ 0 < n then some (some (bytes.take n)) else fget fs j := by
  induction n with
  | zero => simp [writeSteps]
  | succ n ih =>
    simp only [writeSteps, List.foldl_append, List.foldl_cons, List.foldl_nil, applyStep, fget_fset]
    by_cases h : j = i
    · simp [h]
    · simp [h, ih]

theorem ck_fs_final (c : Codec) (cfg : Cfg) (W : World) (j : Id) :
    fget ((ckSteps c cfg W).foldl applyStep W.fs) j
      = if victimOf cfg.maxCk W.metas (newId cfg W) = some j then none
        else if j = newId cfg W then some (some (c.ser (live W.store W.clock)))
        else fget W.fs j := by
  simp only [ckSteps, List.foldl_append, List.foldl_cons, List.foldl_nil]
  generalize hb : c.ser (live W.store W.clock) = bytes
  generalize hi : newId cfg W = i
  have hmid : ∀ j, fget ((writeSteps i bytes bytes.length).foldl applyStep
        (applyStep (applyStep W.fs (.mkdir i)) (.create i))) j
      = if j = i then some (some bytes) else fget W.fs j := by
    intro j
    rw [foldl_writeSteps]
    by_cases h : j = i
    · subst h
      by_cases hn : 0 < bytes.length
      · simp [hn]
      · have : bytes = [] := by cases bytes <;> simp_all
        simp [this, applyStep, fget_fset]
    · have h1 : (FsStep.create i).target ≠ j := fun e => h e.symm
      have h2 : (FsStep.mkdir i).target ≠ j := fun e => h e.symm
      simp [h, applyStep_other _ _ _ h1, applyStep_other _ _ _ h2]
  cases hv : victimOf cfg.maxCk W.metas i with
  | none => simp [rmSteps, hmid]
  | some v =>
    simp only [rmSteps, List.foldl_cons, List.foldl_nil]
    by_cases hj : j = v
    · subst hj; simp [applyStep, fget_ferase]
    · have : ¬ v = j := fun e => hj e.symm
      have h1 : (FsStep.rmDir v).target ≠ j := this
      have h2 : (FsStep.rmFile v).target ≠ j := this
      rw [applyStep_other _ _ _ h1, applyStep_other _ _ _ h2, hmid]
      simp [this]


theorem sinsert_keys_mem {s : List (Nat × Entry)} {k k' : Nat} {e : Entry}
    (h : k' ∈ (sinsert s k e).map (·.1)) : k' ∈ s.map (·.1) ∨ k' = k := by
  induction s with
  | nil => simp [sinsert] at h; exact Or.inr h
  | cons p r ih =>
    obtain ⟨q, x⟩ := p
    simp only [sinsert] at h
    by_cases hq : q = k
    · simp [hq] at h ⊢; rcases h with h | h
      · exact Or.inl (Or.inl h)
      · rcases h with ⟨a, b⟩; exact Or.inl (Or.inr ⟨a, b⟩)
    · simp only [hq, if_false, List.map_cons, List.mem_cons] at h ⊢
      rcases h with h | h
      · exact Or.inl (Or.inl h)
      · rcases ih h with h | h
        · exact Or.inl (Or.inr h)
        · exact Or.inr h

theorem sinsert_nodup {s : List (Nat × Entry)} (k : Nat) (e : Entry)
    (h : (s.map (·.1)).Nodup) : ((sinsert s k e).map (·.1)).Nodup := by
  induction s with
  | nil => simp [sinsert]
  | cons p r ih =>
    obtain ⟨q, x⟩ := p
    simp only [List.map_cons, List.nodup_cons] at h
    simp only [sinsert]
    by_cases hq : q = k
    · subst hq; simp only [if_true, List.map_cons, List.nodup_cons]; exact h
    · simp only [hq, if_false, List.map_cons, List.nodup_cons]
      refine ⟨?_, ih h.2⟩
      intro hm
      rcases sinsert_keys_mem hm with hm | hm
      · exact h.1 hm
      · exact hq hm

theorem filter_nodup {s : List (Nat × Entry)} (p : Nat × Entry → Bool)
    (h : (s.map (·.1)).Nodup) : ((s.filter p).map (·.1)).Nodup := by
  have : ((s.filter p).map (·.1)).Sublist (s.map (·.1)) := (List.filter_sublist).map _
  exact h.sublist this

theorem sinsert_fresh {s : List (Nat × Entry)} {k : Nat} (e : Entry)
    (h : k ∉ s.map (·.1)) : sinsert s k e = s ++ [(k, e)] := by
  induction s with
  | nil => simp [sinsert]
  | cons p r ih =>
    obtain ⟨q, x⟩ := p
    simp only [List.map_cons, List.mem_cons, not_or] at h
    have hq : ¬ q = k := fun e => h.1 e.symm
    simp [sinsert, hq, ih h.2]

theorem foldl_sinsert_fresh (m : List (Nat × Nat)) (now : Nat) (st : List (Nat × Entry))
    (hm : (m.map (·.1)).Nodup) (hd : ∀ k ∈ m.map (·.1), k ∉ st.map (·.1)) :
    m.foldl (fun st kv => sinsert st kv.1 ⟨kv.2, now, none⟩) st
      = st ++ m.map (fun kv => (kv.1, (⟨kv.2, now, none⟩ : Entry))) := by
  induction m generalizing st with
  | nil => simp
  | cons kv r ih =>
    simp only [List.map_cons, List.nodup_cons] at hm
    simp only [List.foldl_cons, List.map_cons]
    have hk : kv.1 ∉ st.map (·.1) := hd kv.1 (by simp)
    rw [sinsert_fresh _ hk, ih _ hm.2]
    · simp
    · intro k hkr
      simp only [List.map_append, List.map_cons, List.map_nil, List.mem_append, List.mem_singleton, not_or]
      refine ⟨hd k (by simp [hkr]), ?_⟩
      intro e; subst e; exact hm.1 hkr

theorem load_eq {m : List (Nat × Nat)} (now : Nat) (hm : (m.map (·.1)).Nodup) :
    load m now = m.map (fun kv => (kv.1, (⟨kv.2, now, none⟩ : Entry))) := by
  unfold load
  rw [foldl_sinsert_fresh m now [] hm (by simp)]; simp

theorem live_map_none (m : List (Nat × Nat)) (now t : Nat) :
    live (m.map (fun kv => (kv.1, (⟨kv.2, now, none⟩ : Entry)))) t = m := by
  induction m with
  | nil => simp [live]
  | cons kv r ih => simp [live, Entry.expired, ih]

theorem live_load {m : List (Nat × Nat)} (now t : Nat) (hm : (m.map (·.1)).Nodup) :
    live (load m now) t = m := by
  rw [load_eq now hm, live_map_none]

theorem live_keys_sublist (s : List (Nat × Entry)) (t : Nat) :
    ((live s t).map (·.1)).Sublist (s.map (·.1)) := by
  induction s with
  | nil => simp [live]
  | cons p r ih =>
    obtain ⟨q, x⟩ := p
    simp only [live]
    by_cases h : x.expired t
    · simp only [h, if_true, List.map_cons]; exact ih.cons _
    · simp only [h, List.map_cons]; exact ih.cons_cons _

theorem live_nodup {s : List (Nat × Entry)} (t : Nat) (h : (s.map (·.1)).Nodup) :
    ((live s t).map (·.1)).Nodup := h.sublist (live_keys_sublist s t)

theorem load_nodup (m : List (Nat × Nat)) (now : Nat) : ((load m now).map (·.1)).Nodup := by
  unfold load
  suffices ∀ st : List (Nat × Entry), (st.map (·.1)).Nodup →
      ((m.foldl (fun st kv => sinsert st kv.1 ⟨kv.2, now, none⟩) st).map (·.1)).Nodup from
    this [] (by simp)
  induction m with
  | nil => intro st h; simpa using h
  | cons kv r ih => intro st h; simp only [List.foldl_cons]; exact ih _ (sinsert_nodup _ _ h)

theorem vfind_none_of_not_mem {m : List (Nat × Nat)} {k : Nat} (h : k ∉ m.map (·.1)) :
    vfind m k = none := by
  induction m with
  | nil => simp [vfind]
  | cons p r ih =>
    obtain ⟨q, v⟩ := p
    simp only [List.map_cons, List.mem_cons, not_or] at h
    have hq : ¬ q = k := fun e => h.1 e.symm
    simp [vfind, hq, ih h.2]

/-- `get` reads exactly the snapshot (`keys`, `len` range over it by definition) -/
theorem sget_eq_vfind {s : List (Nat × Entry)} (t k : Nat) (h : (s.map (·.1)).Nodup) :
    sget s t k = vfind (live s t) k := by
  induction s with
  | nil => simp [sget, sfind, live, vfind]
  | cons p r ih =>
    obtain ⟨q, x⟩ := p
    simp only [List.map_cons, List.nodup_cons] at h
    have ih' := ih h.2
    unfold sget at ih' ⊢
    by_cases hq : q = k
    · subst hq
      have hnot : q ∉ (live r t).map (·.1) := fun hm => h.1 ((live_keys_sublist r t).subset hm)
      by_cases hx : x.expired t
      · simp [sfind, live, hx, vfind_none_of_not_mem hnot]
      · simp [sfind, live, hx, vfind]
    · by_cases hx : x.expired t
      · simp only [sfind, hq, if_false, live, hx, if_true]; exact ih'
      · simp only [sfind, hq, if_false, live, hx, vfind, Bool.false_eq_true]; exact ih'



/-! ### the concrete codec meets the contract -/

theorem decode_encode (m : List (Nat × Nat)) (h : encodable natCodec m = true) : decode (encode m) = some m := by
  induction m with
  | nil => simp [encode, decode]
  | cons p r ih =>
    obtain ⟨k, v⟩ := p
    simp only [encodable, natCodec, List.all_cons, Bool.and_eq_true, Bool.not_eq_true'] at h
    have hr : encodable natCodec r = true := by simpa [encodable, natCodec] using h.2
    simp [encode, decode, ih hr, h.1]

theorem decode_lossy (m : List (Nat × Nat)) (h : encodable natCodec m = false) : decode (encode m) = none := by
  induction m with
  | nil => simp [encodable] at h
  | cons p r ih =>
    obtain ⟨k, v⟩ := p
    cases hv : lossyVal v with
    | true => simp [encode, decode, hv]
    | false =>
      have hr : encodable natCodec r = false := by
        simpa [encodable, natCodec, hv] using h
      simp [encode, decode, hv, ih hr]

theorem decode_prefix (m : List (Nat × Nat)) (n : Nat) (h : n < (encode m).length) :
    decode ((encode m).take n) = none := by
  induction m generalizing n with
  | nil =>
    simp only [encode, List.length_cons, List.length_nil] at h
    have : n = 0 := by omega
    subst this; simp [decode]
  | cons p r ih =>
    obtain ⟨k, v⟩ := p
    simp only [encode, List.length_cons] at h
    match n, h with
    | 0, _ => simp [decode]
    | 1, _ => simp [encode, decode]
    | 2, _ => simp [encode, decode]
    | n + 3, h =>
      have : n < (encode r).length := by omega
      simp [encode, decode, ih n this]

theorem natCodec_lawful : natCodec.Lawful :=
  ⟨decode_encode, decode_lossy, decode_prefix⟩

/-! ### invariant of reachable worlds -/

structure Inv (W : World) : Prop where
  store_nodup : (W.store.map (·.1)).Nodup
  fs_seq : ∀ i, fget W.fs i ≠ none → i.seq < W.seq ∨ i.ms < W.clock
  metas_seq : ∀ m ∈ W.metas, m.id.seq < W.seq
  metas_nodup : (W.metas.map (·.id)).Nodup

theorem inv_init : Inv init := by
  constructor <;> simp [init, fget]

theorem retain_sublist (n : Nat) (ms : List Meta) : (retain n ms).Sublist ms := by
  unfold retain; split
  · exact List.drop_sublist _ _
  · exact List.Sublist.refl _

/-! ### fix-C20b: the sequence number that skips existing checkpoint files -/

theorem freeSeq_ge (fs : List (Id × Option (List Nat))) (ms fuel s : Nat) : s ≤ freeSeq fs ms fuel s := by
  induction fuel generalizing s with
  | zero => exact Nat.le_refl _
  | succ n ih =>
    simp only [freeSeq]
    split
    · exact Nat.le_trans (Nat.le_succ s) (ih (s + 1))
    · exact Nat.le_refl _

theorem freeSeq_id {fs : List (Id × Option (List Nat))} {ms s : Nat} (fuel : Nat)
    (h : isFile (fget fs ⟨ms, s⟩) = false) : freeSeq fs ms fuel s = s := by
  cases fuel with
  | zero => rfl
  | succ n => simp [freeSeq, h]

/-- number of checkpoint files of millisecond `ms` with a sequence number from `s` on -/
def fileCnt (fs : List (Id × Option (List Nat))) (ms s : Nat) : Nat :=
  fs.countP (fun p => decide (p.1.ms = ms) && decide (s ≤ p.1.seq) && isFile (some p.2))

theorem isFile_mem {fs : List (Id × Option (List Nat))} {i : Id} (h : isFile (fget fs i) = true) :
    ∃ c, (i, c) ∈ fs ∧ isFile (some c) = true := by
  induction fs with
  | nil => simp [fget, isFile] at h
  | cons p r ih =>
    obtain ⟨j, c⟩ := p
    by_cases hj : j = i
    · subst hj
      simp only [fget, if_true] at h
      exact ⟨c, List.mem_cons_self .., h⟩
    · simp only [fget, hj, if_false] at h
      obtain ⟨c', hm, hc⟩ := ih h
      exact ⟨c', List.mem_cons_of_mem _ hm, hc⟩

theorem countP_lt_of_witness {α : Type} (p q : α → Bool) (l : List α) (himp : ∀ x, q x = true → p x = true)
    (x : α) (hx : x ∈ l) (hp : p x = true) (hq : q x = false) : l.countP q < l.countP p := by
  induction l with
  | nil => simp at hx
  | cons y r ih =>
    have hle : r.countP q ≤ r.countP p := List.countP_mono_left (fun a _ h => himp a h)
    rcases List.mem_cons.mp hx with e | hm
    · subst e
      rw [List.countP_cons_of_pos hp, List.countP_cons_of_neg (by simp [hq])]
      omega
    · have := ih hm
      by_cases hqy : q y = true
      · rw [List.countP_cons_of_pos hqy, List.countP_cons_of_pos (himp y hqy)]; omega
      · rw [List.countP_cons_of_neg hqy]
        by_cases hpy : p y = true
        · rw [List.countP_cons_of_pos hpy]; omega
        · rw [List.countP_cons_of_neg hpy]; exact this

theorem fileCnt_lt {fs : List (Id × Option (List Nat))} {ms s : Nat} (h : isFile (fget fs ⟨ms, s⟩) = true) :
    fileCnt fs ms (s + 1) < fileCnt fs ms s := by
  obtain ⟨c, hm, hc⟩ := isFile_mem h
  unfold fileCnt
  apply countP_lt_of_witness _ _ fs _ (⟨ms, s⟩, c) hm
  · simp [hc]
  · simp; intro h; omega
  · intro x hx
    simp only [Bool.and_eq_true, decide_eq_true_eq] at hx ⊢
    exact ⟨⟨hx.1.1, by omega⟩, hx.2⟩

theorem freeSeq_free_fuel (fs : List (Id × Option (List Nat))) (ms fuel s : Nat) (h : fileCnt fs ms s ≤ fuel) :
    isFile (fget fs ⟨ms, freeSeq fs ms fuel s⟩) = false := by
  induction fuel generalizing s with
  | zero =>
    simp only [freeSeq]
    cases hf : isFile (fget fs ⟨ms, s⟩) with
    | false => rfl
    | true => have := fileCnt_lt hf; omega
  | succ n ih =>
    simp only [freeSeq]
    cases hf : isFile (fget fs ⟨ms, s⟩) with
    | false => simp [hf]
    | true =>
      simp only [if_true]
      exact ih (s + 1) (by have := fileCnt_lt hf; omega)

/-- **freeSeq_free.** With as much fuel as the directory has entries the search always ends on a free number: the id
`checkpoint` picks never names an existing checkpoint file - whatever the directory holds. -/
theorem freeSeq_free (fs : List (Id × Option (List Nat))) (ms s : Nat) :
    isFile (fget fs ⟨ms, freeSeq fs ms fs.length s⟩) = false :=
  freeSeq_free_fuel fs ms fs.length s (List.countP_le_length)

theorem newId_ms_seq {cfg : Cfg} (hl : cfg.legacy = false) (W : World) :
    (newId cfg W).ms = W.clock ∧ W.seq ≤ (newId cfg W).seq := by
  unfold newId
  rw [if_neg (by simp [hl])]
  split
  · exact ⟨rfl, Nat.le_refl _⟩
  · exact ⟨rfl, freeSeq_ge _ _ _ _⟩

/-- in a world whose directory holds nothing at or beyond the store's own sequence number in the current millisecond
(every world reachable from `init`: `Inv.fs_seq`) the search does not move: the id is `<clock>_<seq>` as before the fix -/
theorem newId_fixed {cfg : Cfg} (hl : cfg.legacy = false) {W : World}
    (h : ∀ i, fget W.fs i ≠ none → i.seq < W.seq ∨ i.ms < W.clock) :
    newId cfg W = ⟨W.clock, W.seq⟩ := by
  unfold newId
  rw [if_neg (by simp [hl])]
  split
  · rfl
  · have hnone : fget W.fs ⟨W.clock, W.seq⟩ = none := by
      cases hf : fget W.fs ⟨W.clock, W.seq⟩ with
      | none => rfl
      | some x =>
        have := h ⟨W.clock, W.seq⟩ (by rw [hf]; simp)
        simp at this
    rw [freeSeq_id _ (by rw [hnone]; rfl)]

theorem nextSeq_fixed {cfg : Cfg} (hl : cfg.legacy = false) {W : World}
    (h : ∀ i, fget W.fs i ≠ none → i.seq < W.seq ∨ i.ms < W.clock) : nextSeq cfg W = W.seq + 1 := by
  unfold nextSeq
  rw [if_neg (by simp [hl]), newId_fixed hl h]

theorem nextSeq_eq {cfg : Cfg} (hl : cfg.legacy = false) (W : World) : nextSeq cfg W = (newId cfg W).seq + 1 := by
  unfold nextSeq
  rw [if_neg (by simp [hl])]

theorem nextSeq_gt (cfg : Cfg) (W : World) : W.seq < nextSeq cfg W := by
  unfold nextSeq
  split
  · omega
  · rename_i hl
    have := (newId_ms_seq (cfg := cfg) (by simpa using hl) W).2
    omega

/-- every op other than `checkpoint` leaves sequence number, metadata and directory alone -/
theorem step_frame (c : Codec) (cfg : Cfg) (W : World) (op : Op) (h : op ≠ .checkpoint) :
    (step c cfg W op).1.seq = W.seq ∧ (step c cfg W op).1.metas = W.metas
    ∧ (step c cfg W op).1.fs = W.fs := by
  cases op with
  | checkpoint => exact absurd rfl h
  | update k v =>
    simp only [step, update]
    split
    · simp
    · split <;> simp
  | restore i =>
    simp only [step, restore]
    split
    · split
      · simp
      · simp
      · split <;> simp
    · simp
  | _ => simp [step]

theorem step_store_nodup (c : Codec) (cfg : Cfg) (W : World) (op : Op)
    (h : (W.store.map (·.1)).Nodup) : ((step c cfg W op).1.store.map (·.1)).Nodup := by
  cases op with
  | put k v => exact sinsert_nodup _ _ h
  | putTtl k v t => exact sinsert_nodup _ _ h
  | update k v =>
    simp only [step, update]
    split
    · exact h
    · split
      · exact h
      · exact sinsert_nodup _ _ h
  | delete k => exact filter_nodup _ h
  | clear => simp [step]
  | cleanup => exact filter_nodup _ h
  | checkpoint => exact h
  | restore i =>
    simp only [step, restore]
    split
    · split
      · exact h
      · exact h
      · split
        · exact h
        · exact load_nodup _ _
    · exact h
  | advance d => exact h

/-- the clock never goes back -/
theorem step_clock_mono (c : Codec) (cfg : Cfg) (W : World) (op : Op) :
    W.clock ≤ (step c cfg W op).1.clock := by
  cases op with
  | update k v =>
    simp only [step, update]
    split
    · exact Nat.le_refl _
    · split <;> exact Nat.le_refl _
  | restore i =>
    simp only [step, restore]
    split
    · split
      · exact Nat.le_refl _
      · exact Nat.le_refl _
      · split <;> exact Nat.le_refl _
    · exact Nat.le_refl _
  | advance d => simp [step]
  | checkpoint => simp [step, checkpoint]
  | _ => simp [step]

theorem inv_step (c : Codec) {cfg : Cfg} (hl : cfg.legacy = false) {W : World} (h : Inv W) (op : Op) :
    Inv (step c cfg W op).1 := by
  by_cases hop : op = .checkpoint
  · subst hop
    have hid := newId_fixed hl h.fs_seq
    have hns := nextSeq_fixed hl h.fs_seq
    refine ⟨h.store_nodup, ?_, ?_, ?_⟩
    · intro j hj
      simp only [step, checkpoint, hns] at hj ⊢
      by_cases hf : cfg.file = true
      · simp only [hf, if_true, ck_fs_final] at hj
        by_cases hjn : j = newId cfg W
        · rw [hjn, hid]; simp
        · have : fget W.fs j ≠ none := by
            intro e; apply hj; split <;> simp [hjn, e]
          exact (h.fs_seq j this).imp Nat.lt_succ_of_lt id
      · simp only [hf] at hj
        exact (h.fs_seq j hj).imp Nat.lt_succ_of_lt id
    · intro m hm
      simp only [step, checkpoint, hns] at hm ⊢
      have := (retain_sublist _ _).subset hm
      simp only [List.mem_append, List.mem_singleton] at this
      rcases this with hm' | hm'
      · exact Nat.lt_succ_of_lt (h.metas_seq m hm')
      · rw [hm', hid]; simp
    · simp only [step, checkpoint]
      have hsub := (retain_sublist cfg.maxCk (W.metas ++ [⟨newId cfg W, (live W.store W.clock).length⟩])).map (·.id)
      refine List.Nodup.sublist hsub ?_
      simp only [List.map_append, List.map_cons, List.map_nil]
      rw [List.nodup_append]
      refine ⟨h.metas_nodup, by simp, ?_⟩
      intro a ha b hb
      simp only [List.mem_singleton] at hb
      intro e; subst e; subst hb
      obtain ⟨m, hm, hme⟩ := List.mem_map.mp ha
      have := h.metas_seq m hm
      rw [hme, hid] at this; simp at this
  · obtain ⟨h1, h2, h3⟩ := step_frame c cfg W op hop
    refine ⟨step_store_nodup c cfg W op h.store_nodup, ?_, ?_, ?_⟩
    · rw [h1, h3]; intro i hi
      exact (h.fs_seq i hi).imp id (fun x => Nat.lt_of_lt_of_le x (step_clock_mono c cfg W op))
    · rw [h1, h2]; exact h.metas_seq
    · rw [h2]; exact h.metas_nodup

theorem inv_run (c : Codec) {cfg : Cfg} (hl : cfg.legacy = false) {W : World} (h : Inv W)
    (ops : List Op) : Inv (run c cfg W ops) := by
  induction ops generalizing W with
  | nil => exact h
  | cons op r ih => exact ih (inv_step c hl h op)



/-- the part of the invariant that does not speak about the directory: it holds for a store opened on ANY directory
(`reopen`), where `fs_seq` need not -/
structure InvR (W : World) : Prop where
  store_nodup : (W.store.map (·.1)).Nodup
  metas_seq : ∀ m ∈ W.metas, m.id.seq < W.seq
  metas_nodup : (W.metas.map (·.id)).Nodup

theorem Inv.toR {W : World} (h : Inv W) : InvR W := ⟨h.store_nodup, h.metas_seq, h.metas_nodup⟩

theorem invR_step (c : Codec) {cfg : Cfg} (hl : cfg.legacy = false) {W : World} (h : InvR W) (op : Op) :
    InvR (step c cfg W op).1 := by
  by_cases hop : op = .checkpoint
  · subst hop
    have hge := (newId_ms_seq hl W).2
    have hns := nextSeq_eq hl W
    refine ⟨h.store_nodup, ?_, ?_⟩
    · intro m hm
      simp only [step, checkpoint, hns] at hm ⊢
      have := (retain_sublist _ _).subset hm
      simp only [List.mem_append, List.mem_singleton] at this
      rcases this with hm' | hm'
      · have := h.metas_seq m hm'; omega
      · rw [hm']; simp
    · simp only [step, checkpoint]
      have hsub := (retain_sublist cfg.maxCk (W.metas ++ [⟨newId cfg W, (live W.store W.clock).length⟩])).map (·.id)
      refine List.Nodup.sublist hsub ?_
      simp only [List.map_append, List.map_cons, List.map_nil]
      rw [List.nodup_append]
      refine ⟨h.metas_nodup, by simp, ?_⟩
      intro a ha b hb
      simp only [List.mem_singleton] at hb
      intro e; subst e; subst hb
      obtain ⟨m, hm, hme⟩ := List.mem_map.mp ha
      have := h.metas_seq m hm
      rw [hme] at this; omega
  · obtain ⟨h1, h2, h3⟩ := step_frame c cfg W op hop
    refine ⟨step_store_nodup c cfg W op h.store_nodup, ?_, ?_⟩
    · rw [h1, h2]; exact h.metas_seq
    · rw [h2]; exact h.metas_nodup

theorem invR_run (c : Codec) {cfg : Cfg} (hl : cfg.legacy = false) {W : World} (h : InvR W)
    (ops : List Op) : InvR (run c cfg W ops) := by
  induction ops generalizing W with
  | nil => exact h
  | cons op r ih => exact ih (invR_step c hl h op)

/-- fix-C20b: the id `checkpoint` picks on the file backend never names an existing checkpoint file -/
theorem newId_free {cfg : Cfg} (hl : cfg.legacy = false) (hf : cfg.file = true) (hs : cfg.noSkip = false) (W : World) :
    isFile (fget W.fs (newId cfg W)) = false := by
  unfold newId
  rw [if_neg (by simp [hl]), if_neg (by simp [hf, hs])]
  exact freeSeq_free _ _ _

/-! ### following one checkpoint through the rest of a history -/

/-- checkpoint `i` (written with content `bytes`) is either still listed with its file intact,
or retired by retention with its directory gone -/
def Tracks (i : Id) (bytes : List Nat) (W : World) : Prop :=
  i.seq < W.seq ∧
  ((i ∈ W.metas.map (·.id) ∧ fget W.fs i = some (some bytes))
   ∨ (i ∉ W.metas.map (·.id) ∧ fget W.fs i = none))

theorem victimOf_none {maxCk : Nat} {metas : List Meta} {i : Id}
    (h : ¬ metas.length + 1 > maxCk) : victimOf maxCk metas i = none := by
  simp [victimOf, h]

theorem victimOf_nil {maxCk : Nat} {i : Id} (h : ([] : List Meta).length + 1 > maxCk) :
    victimOf maxCk [] i = some i := by
  unfold victimOf; rw [if_pos h]

theorem victimOf_cons {maxCk : Nat} {m : Meta} {rest : List Meta} {i : Id}
    (h : (m :: rest).length + 1 > maxCk) : victimOf maxCk (m :: rest) i = some m.id := by
  unfold victimOf; rw [if_pos h]

theorem retain_big {maxCk : Nat} {ms : List Meta} (x : Meta) (h : ms.length + 1 > maxCk) :
    retain maxCk (ms ++ [x]) = (ms ++ [x]).drop 1 := by
  unfold retain; rw [if_pos (by simpa using h)]

theorem retain_small {maxCk : Nat} {ms : List Meta} (x : Meta) (h : ¬ ms.length + 1 > maxCk) :
    retain maxCk (ms ++ [x]) = ms ++ [x] := by
  unfold retain; rw [if_neg (by simpa using h)]

theorem tracks_checkpoint (c : Codec) {cfg : Cfg} (hl : cfg.legacy = false) (hf : cfg.file = true)
    {W : World} (h : InvR W) {i : Id} {bytes : List Nat} (ht : Tracks i bytes W) :
    Tracks i bytes (checkpoint c cfg W).1 := by
  obtain ⟨hseq, hcase⟩ := ht
  have hge := (newId_ms_seq hl W).2
  have hne : i ≠ newId cfg W := by
    intro e; rw [← e] at hge; omega
  have hne' : ¬ newId cfg W = i := fun e => hne e.symm
  refine ⟨by simp only [checkpoint]; have := nextSeq_gt cfg W; omega, ?_⟩
  simp only [checkpoint, hf, if_true, ck_fs_final]
  by_cases hlen : W.metas.length + 1 > cfg.maxCk
  · -- retention removes the oldest
    rw [retain_big _ hlen]
    cases hm : W.metas with
    | nil =>
      rw [hm] at hcase
      have hv : victimOf cfg.maxCk [] (newId cfg W) = some (newId cfg W) :=
        victimOf_nil (by rw [hm] at hlen; exact hlen)
      rcases hcase with ⟨hin, _⟩ | ⟨_, hfs⟩
      · simp at hin
      · right; simp [hv, hne, hne', hfs]
    | cons m rest =>
      rw [hm] at hcase hlen
      have hv : victimOf cfg.maxCk (m :: rest) (newId cfg W) = some m.id := victimOf_cons hlen
      have hnd := h.metas_nodup
      rw [hm] at hnd
      simp only [List.map_cons, List.nodup_cons] at hnd
      by_cases him : i = m.id
      · right
        refine ⟨?_, by simp [hv, him]⟩
        simp only [List.cons_append, List.drop_succ_cons, List.drop_zero, List.map_append,
          List.map_cons, List.map_nil, List.mem_append, List.mem_singleton, not_or]
        exact ⟨by rw [him]; exact hnd.1, hne⟩
      · have him' : ¬ m.id = i := fun e => him e.symm
        simp only [List.cons_append, List.drop_succ_cons, List.drop_zero, List.map_append,
          List.map_cons, List.map_nil, List.mem_append, List.mem_singleton, hv,
          Option.some.injEq, him', if_false, hne]
        simp only [List.map_cons, List.mem_cons, him, false_or] at hcase
        simpa using hcase
  · rw [retain_small _ hlen, victimOf_none hlen]
    simp only [List.map_append, List.map_cons, List.map_nil, List.mem_append, List.mem_singleton,
      hne, or_false]
    simpa using hcase

theorem tracks_step (c : Codec) {cfg : Cfg} (hl : cfg.legacy = false) (hf : cfg.file = true)
    {W : World} (h : InvR W) {i : Id} {bytes : List Nat} (ht : Tracks i bytes W) (op : Op) :
    Tracks i bytes (step c cfg W op).1 := by
  by_cases hop : op = .checkpoint
  · subst hop; exact tracks_checkpoint c hl hf h ht
  · obtain ⟨h1, h2, h3⟩ := step_frame c cfg W op hop
    unfold Tracks; rw [h1, h2, h3]; exact ht

theorem tracks_run (c : Codec) {cfg : Cfg} (hl : cfg.legacy = false) (hf : cfg.file = true)
    {W : World} (h : InvR W) {i : Id} {bytes : List Nat} (ht : Tracks i bytes W) (ops : List Op) :
    Tracks i bytes (run c cfg W ops) := by
  induction ops generalizing W with
  | nil => exact ht
  | cons op r ih => exact ih (invR_step c hl h op) (tracks_step c hl hf h ht op)

/-- right after `checkpoint` the new id is tracked with the serialised snapshot -/
theorem tracks_new (c : Codec) {cfg : Cfg} (hl : cfg.legacy = false) (hf : cfg.file = true)
    {W : World} (h : InvR W) :
    Tracks (checkpoint c cfg W).2 (c.ser (live W.store W.clock)) (checkpoint c cfg W).1 := by
  have hge := (newId_ms_seq hl W).2
  have hfresh : ∀ m ∈ W.metas, m.id ≠ newId cfg W := by
    intro m hm e
    have := h.metas_seq m hm
    rw [e] at this; omega
  refine ⟨by simp [checkpoint, nextSeq_eq hl], ?_⟩
  simp only [checkpoint, hf, if_true, ck_fs_final]
  by_cases hlen : W.metas.length + 1 > cfg.maxCk
  · rw [retain_big _ hlen]
    cases hm : W.metas with
    | nil =>
      right
      have hv : victimOf cfg.maxCk [] (newId cfg W) = some (newId cfg W) :=
        victimOf_nil (by rw [hm] at hlen; exact hlen)
      simp [hv]
    | cons m rest =>
      left
      rw [hm] at hlen
      have hv : victimOf cfg.maxCk (m :: rest) (newId cfg W) = some m.id := victimOf_cons hlen
      have : ¬ m.id = newId cfg W := hfresh m (by rw [hm]; simp)
      simp [hv, this]
  · left
    rw [retain_small _ hlen, victimOf_none hlen]
    simp


theorem step_ckpt_out {c : Codec} {cfg : Cfg} {W : World} {op : Op} {i : Id}
    (h : (step c cfg W op).2 = .ckpt i) : op = .checkpoint ∧ i = newId cfg W := by
  cases op with
  | checkpoint => simp [step, checkpoint] at h; exact ⟨rfl, h.symm⟩
  | update k v =>
    simp only [step, update] at h
    split at h
    · simp at h
    · split at h <;> simp at h
  | restore j =>
    simp only [step, restore] at h
    split at h
    · split at h
      · simp at h
      · simp at h
      · split at h <;> simp at h
    · simp at h
  | _ => simp [step] at h

theorem step_seq_mono (c : Codec) (cfg : Cfg) (W : World) (op : Op) :
    W.seq ≤ (step c cfg W op).1.seq := by
  by_cases hop : op = .checkpoint
  · subst hop; simp only [step, checkpoint]; exact Nat.le_of_lt (nextSeq_gt cfg W)
  · rw [(step_frame c cfg W op hop).1]; exact Nat.le_refl _

theorem ckIds_fresh (c : Codec) {cfg : Cfg} (hl : cfg.legacy = false) (W : World) (ops : List Op) :
    (ckIds c cfg W ops).Nodup ∧ ∀ i ∈ ckIds c cfg W ops, W.seq ≤ i.seq := by
  induction ops generalizing W with
  | nil => simp [ckIds]
  | cons op r ih =>
    obtain ⟨ih1, ih2⟩ := ih (step c cfg W op).1
    have hmono := step_seq_mono c cfg W op
    simp only [ckIds]
    split
    · rename_i i hi
      obtain ⟨hop, hid⟩ := step_ckpt_out hi
      subst hop
      have hseq : (step c cfg W .checkpoint).1.seq = i.seq + 1 := by
        simp [step, checkpoint, nextSeq_eq hl, hid]
      have hge := (newId_ms_seq hl W).2
      rw [← hid] at hge
      refine ⟨List.nodup_cons.mpr ⟨?_, ih1⟩, ?_⟩
      · intro hm
        have := ih2 i hm
        rw [hseq] at this; exact Nat.not_succ_le_self _ this
      · intro j hj
        rcases List.mem_cons.mp hj with e | hj
        · rw [e]; exact hge
        · exact Nat.le_trans hmono (ih2 j hj)
    · exact ⟨ih1, fun j hj => Nat.le_trans hmono (ih2 j hj)⟩

/-! ### retention keeps the most recent `max_checkpoints` checkpoints -/

theorem countCk_other {op : Op} (h : op ≠ .checkpoint) (r : List Op) : countCk (op :: r) = countCk r := by
  cases op <;> first | rfl | exact absurd rfl h

theorem checkpoint_metas_ids (c : Codec) (cfg : Cfg) (W : World) :
    (checkpoint c cfg W).1.metas.map (·.id)
      = if W.metas.length + 1 > cfg.maxCk then (W.metas.map (·.id) ++ [newId cfg W]).drop 1
        else W.metas.map (·.id) ++ [newId cfg W] := by
  simp only [checkpoint]
  by_cases h : W.metas.length + 1 > cfg.maxCk
  · rw [retain_big _ h, if_pos h]; simp [List.map_drop]
  · rw [retain_small _ h, if_neg h]; simp

theorem listed_run (c : Codec) (cfg : Cfg) (i : Id) (post : List Op) (W : World)
    (h : ∃ a b, W.metas.map (·.id) = a ++ i :: b ∧ b.length + countCk post < cfg.maxCk) :
    i ∈ (run c cfg W post).metas.map (·.id) := by
  induction post generalizing W with
  | nil => obtain ⟨a, b, hab, _⟩ := h; simp [run, hab]
  | cons op r ih =>
    obtain ⟨a, b, hab, hlt⟩ := h
    simp only [run, List.foldl_cons]
    apply ih
    by_cases hop : op = .checkpoint
    · subst hop
      simp only [countCk] at hlt
      simp only [step]
      rw [checkpoint_metas_ids, hab]
      have hlen : W.metas.length = a.length + (b.length + 1) := by
        have := congrArg List.length hab
        simpa using this
      by_cases hbig : W.metas.length + 1 > cfg.maxCk
      · rw [if_pos hbig]
        cases a with
        | nil => simp at hlen; omega
        | cons x a' =>
          refine ⟨a', b ++ [newId cfg W], by simp, ?_⟩
          simp; omega
      · rw [if_neg hbig]
        refine ⟨a, b ++ [newId cfg W], by simp, ?_⟩
        simp; omega
    · rw [(step_frame c cfg W op hop).2.1]
      rw [countCk_other hop] at hlt
      exact ⟨a, b, hab, hlt⟩

end C20
