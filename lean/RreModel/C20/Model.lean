/-
C20 — model of `src/streaming/state.rs` (`StateStore`, file and memory backend), after fix-C20
(checkpoint id = wall-clock millisecond + per-store sequence suffix) and fix-C20b (the sequence number skips every id
under which a checkpoint file already exists: `freeSeq`; `Cfg.noSkip` = the code before that fix).

* store      = `HashMap<String, StateEntry>` as an association list (invariant: keys distinct,
               proved in Lemmas.lean); an entry is (value, created_at, ttl). `updated_at` is not
               observable and is left out.
* clock      = explicit (`World.clock`, milliseconds) — the `#[cfg(rre_verif)]` clock override.
* file backend = finite map  checkpoint id ↦ `none` (directory exists, no `state.json`)
               | `some bytes` (content of `<path>/<id>/state.json`).
* `serde_json::to_string_pretty` / `from_str` are PARAMETERS (`Codec`) with the contract
  `Codec.Lawful` (round trip for snapshots whose values are all `enc`odable; a snapshot holding a value whose JSON
  text does not read back — NaN, ±inf, nesting beyond the parser's recursion limit — does not parse at all; a strict
  prefix of a serialised map does not parse) — trusted base,
  exercised by the harness at every truncation point. `natCodec` is a concrete lawful instance
  used by the driver (and shows the contract is satisfiable).
* `checkpoint` is the code's own sequence of file-system steps (`ckSteps`): `create_dir_all`,
  `File::create` (create/truncate), `write_all` (successively longer prefixes — it is not atomic),
  push metadata, retention `remove_dir_all` of the oldest (unlink file, then rmdir).
* `restore` = exists? → read → parse → only then clear-and-load.
* `checkpointSteps` / `restoreSteps` = the same procedures as the list of steps between the NUMBERED crash points of
  the code (hook `verif_crash`), `crashAt` = the directory a process killed at point k leaves, `reopen` = a new store
  opened on such a directory (`checkpoint_seq` = 0, no metadata). `ckSteps` is the expansion of `checkpointSteps`
  (Theorems2.checkpointSteps_refine). `checkpointStepsK … k` = the same call with the hook's crash point INSIDE `write_all`
  (after `k` bytes; `verif_crash::arm_split`), `crashAtK` the directory a process killed there leaves (Theorems3).
No Mathlib import.
-/
namespace C20

/-! ### the in-memory store -/

/-- `StateEntry` -/
structure Entry where
  val : Nat
  created : Nat
  ttl : Option Nat
deriving Repr, DecidableEq

/-- `StateEntry::is_expired`: `now > created_at + ttl_ms` -/
def Entry.expired (e : Entry) (now : Nat) : Bool :=
  match e.ttl with
  | some t => decide (now > e.created + t)
  | none => false

/-- `HashMap::get` -/
def sfind : List (Nat × Entry) → Nat → Option Entry
  | [], _ => none
  | (k', e) :: r, k => if k' = k then some e else sfind r k

/-- `HashMap::insert` (replace in place, else append) -/
def sinsert : List (Nat × Entry) → Nat → Entry → List (Nat × Entry)
  | [], k, e => [(k, e)]
  | (k', e') :: r, k, e => if k' = k then (k, e) :: r else (k', e') :: sinsert r k e

/-- `HashMap::remove` -/
def serase (s : List (Nat × Entry)) (k : Nat) : List (Nat × Entry) :=
  s.filter (fun p => p.1 ≠ k)

/-- the unexpired key/value pairs: the `snapshot` of `checkpoint`, and what `keys`/`len` range over -/
def live : List (Nat × Entry) → Nat → List (Nat × Nat)
  | [], _ => []
  | (k, e) :: r, now => if e.expired now then live r now else (k, e.val) :: live r now

/-- `StateStore::get` -/
def sget (s : List (Nat × Entry)) (now : Nat) (k : Nat) : Option Nat :=
  match sfind s k with
  | some e => if e.expired now then none else some e.val
  | none => none

/-- lookup in a snapshot -/
def vfind : List (Nat × Nat) → Nat → Option Nat
  | [], _ => none
  | (k', v) :: r, k => if k' = k then some v else vfind r k

/-- the loop of `restore`: `StateEntry::new(value, None)` inserted into the cleared map -/
def load (m : List (Nat × Nat)) (now : Nat) : List (Nat × Entry) :=
  m.foldl (fun st kv => sinsert st kv.1 ⟨kv.2, now, none⟩) []

/-! ### checkpoint ids, metadata, the directory -/

/-- checkpoint id `checkpoint_<ms>_<seq>` -/
structure Id where
  ms : Nat
  seq : Nat
deriving Repr, DecidableEq

/-- `CheckpointMetadata` (id, entry_count) -/
structure Meta where
  id : Id
  count : Nat
deriving Repr, DecidableEq

/-! content of the backend directory: id ↦ none (dir only) | some bytes (state.json) -/

def fget : List (Id × Option (List Nat)) → Id → Option (Option (List Nat))
  | [], _ => none
  | (j, c) :: r, i => if j = i then some c else fget r i

def ferase (fs : List (Id × Option (List Nat))) (i : Id) : List (Id × Option (List Nat)) :=
  fs.filter (fun p => p.1 ≠ i)

def fset (fs : List (Id × Option (List Nat))) (i : Id) (c : Option (List Nat)) :
    List (Id × Option (List Nat)) :=
  (i, c) :: ferase fs i

/-- one file-system step of `checkpoint` (each assumed atomic — trusted base) -/
inductive FsStep where
  | mkdir (i : Id)                    -- `fs::create_dir_all(path/id)`
  | create (i : Id)                   -- `fs::File::create(path/id/state.json)`: create or truncate
  | write (i : Id) (pre : List Nat)   -- `write_all` has put the prefix `pre` on disk
  | rmFile (i : Id)                   -- `remove_dir_all(path/old)`: unlink state.json …
  | rmDir (i : Id)                    -- … then remove the directory
deriving Repr, DecidableEq

def applyStep (fs : List (Id × Option (List Nat))) : FsStep → List (Id × Option (List Nat))
  | .mkdir i => match fget fs i with
      | none => fset fs i none
      | some _ => fs
  | .create i => fset fs i (some [])
  | .write i pre => fset fs i (some pre)
  | .rmFile i => match fget fs i with
      | none => fs
      | some _ => fset fs i none
  | .rmDir i => ferase fs i

/-- `write_all(bytes)`: the file successively holds the prefixes of length 1 … n -/
def writeSteps (i : Id) (bytes : List Nat) : Nat → List FsStep
  | 0 => []
  | n + 1 => writeSteps i bytes n ++ [.write i (bytes.take (n + 1))]

/-- the checkpoint whose directory retention removes once `metas ++ [new]` exceeds the bound:
`checkpoints.remove(0)` after the push -/
def victimOf (maxCk : Nat) (metas : List Meta) (new : Id) : Option Id :=
  if metas.length + 1 > maxCk then
    match metas with
    | [] => some new
    | m :: _ => some m.id
  else none

def rmSteps : Option Id → List FsStep
  | none => []
  | some v => [.rmFile v, .rmDir v]

/-! ### serialisation as a parameter -/

/-- `ser` / `parse`: `serde_json::to_string_pretty` / `from_str` on `HashMap<String, Value>`. `enc v` says whether the
stored value `v` survives the trip: `serde_json` WRITES every `Value`, but some of what it writes does not READ back
as a `HashMap<String, Value>` — a non-finite `Value::Number` (NaN, ±inf, at top level or nested in an Array / Object)
is written as `null`, which is not an `f64` ("invalid type: null, expected f64"), and a value nested deeper than the
parser's recursion limit (128 JSON levels = 63 `Value::Array` / `Value::Object` levels) is refused ("recursion limit
exceeded"). One such entry makes `from_str` fail for the WHOLE map, so `restore` of that checkpoint is an error. -/
structure Codec where
  ser : List (Nat × Nat) → List Nat
  parse : List Nat → Option (List (Nat × Nat))
  enc : Nat → Bool

/-- every value of the snapshot survives serialisation (decidable) -/
def encodable (c : Codec) (m : List (Nat × Nat)) : Bool := m.all fun kv => c.enc kv.2

/-- the assumed contract of `serde_json` on `HashMap<String, Value>`: a snapshot whose values are all encodable reads
back as itself; a snapshot holding a non-encodable value does not read back AT ALL (no partial map); a strict prefix of
a serialised map does not parse -/
structure Codec.Lawful (c : Codec) : Prop where
  roundtrip : ∀ m, encodable c m = true → c.parse (c.ser m) = some m
  lossy_fails : ∀ m, encodable c m = false → c.parse (c.ser m) = none
  prefix_fails : ∀ m n, n < (c.ser m).length → c.parse ((c.ser m).take n) = none

/-- value indices 20 … 29 of the harness' table are the values whose JSON text does not read back (NaN, +inf, -inf,
an array / an object holding one, a value nested beyond the recursion limit …) -/
def lossyVal (v : Nat) : Bool := decide (20 ≤ v) && decide (v < 30)

def encode : List (Nat × Nat) → List Nat
  | [] => [0]
  | (k, v) :: r => 1 :: k :: v :: encode r

/-- reading fails on a value that does not read back (as `from_str` does: the whole map is refused) -/
def decode : List Nat → Option (List (Nat × Nat))
  | [0] => some []
  | 1 :: k :: v :: r => if lossyVal v then none else (decode r).map (fun m => (k, v) :: m)
  | _ => none

/-- a concrete codec satisfying the contract (used by the driver) -/
def natCodec : Codec := ⟨encode, decode, fun v => !lossyVal v⟩

/-! ### the state store -/

structure Cfg where
  file : Bool := true               -- `StateBackend::File` (true) | `StateBackend::Memory` (false)
  maxCk : Nat := 10                 -- `max_checkpoints`
  defaultTtl : Option Nat := none   -- `enable_ttl` / `default_ttl`
  legacy : Bool := false            -- true: the id scheme BEFORE fix-C20 (millisecond only)
  noSkip : Bool := false            -- true: the code BEFORE fix-C20b (the directory is not consulted when an id is chosen)
deriving Repr, DecidableEq

structure World where
  store : List (Nat × Entry) := []
  clock : Nat := 0
  seq : Nat := 0                          -- `checkpoint_seq`
  metas : List Meta := []                 -- `checkpoints`
  fs : List (Id × Option (List Nat)) := []
deriving Repr, DecidableEq

def init : World := {}

inductive Op where
  | put (k v : Nat)
  | putTtl (k v ttl : Nat)
  | update (k v : Nat)
  | delete (k : Nat)
  | clear
  | cleanup
  | checkpoint
  | restore (i : Id)
  | advance (d : Nat)
deriving Repr, DecidableEq

inductive Out where
  | ok
  | ckpt (i : Id)
  | errMissing      -- update: "State key not found"
  | errExpired      -- update: "State entry has expired"
  | errNotFound     -- restore: "Checkpoint not found"
  | errParse        -- restore: "Failed to read / deserialize checkpoint"
  | errMemory       -- restore on the memory backend
deriving Repr, DecidableEq

/-- `path.join(id).join("state.json").is_file()` -/
def isFile : Option (Option (List Nat)) → Bool
  | some (some _) => true
  | _ => false

/-- fix-C20b, `while <path>/checkpoint_<ms>_<seq>/state.json is a file { seq += 1 }`: the first sequence number from `s`
on under which no checkpoint FILE exists. The code's loop has no bound of its own - it ends because the directory is
finite; `fuel` = the number of directory entries is enough (Lemmas.freeSeq_free: the fuel never runs out before a free
number is reached). -/
def freeSeq (fs : List (Id × Option (List Nat))) (ms : Nat) : Nat → Nat → Nat
  | 0, s => s
  | fuel + 1, s => if isFile (fget fs ⟨ms, s⟩) then freeSeq fs ms fuel (s + 1) else s

/-- id generation in `checkpoint`: wall-clock millisecond + the store's sequence number, advanced (file backend, after
fix-C20b) past every id under which a checkpoint file already exists -/
def newId (cfg : Cfg) (W : World) : Id :=
  if cfg.legacy then ⟨W.clock, 0⟩
  else if cfg.noSkip || !cfg.file then ⟨W.clock, W.seq⟩
  else ⟨W.clock, freeSeq W.fs W.clock W.fs.length W.seq⟩

/-- `self.checkpoint_seq = checkpoint_seq + 1` (one past the number the id got) -/
def nextSeq (cfg : Cfg) (W : World) : Nat :=
  if cfg.legacy then W.seq + 1 else (newId cfg W).seq + 1

/-- the complete step sequence of one `checkpoint` call on the file backend, in code order -/
def ckSteps (c : Codec) (cfg : Cfg) (W : World) : List FsStep :=
  let i := newId cfg W
  let bytes := c.ser (live W.store W.clock)
  [.mkdir i, .create i] ++ writeSteps i bytes bytes.length
    ++ rmSteps (victimOf cfg.maxCk W.metas i)

/-- `checkpoints.push(metadata); if len > max { remove(0) }` -/
def retain (maxCk : Nat) (metas : List Meta) : List Meta :=
  if metas.length > maxCk then metas.drop 1 else metas

/-- `StateStore::checkpoint` (all file-system steps succeed) -/
def checkpoint (c : Codec) (cfg : Cfg) (W : World) : World × Id :=
  let i := newId cfg W
  ({ W with
      seq := nextSeq cfg W,
      metas := retain cfg.maxCk (W.metas ++ [⟨i, (live W.store W.clock).length⟩]),
      fs := if cfg.file then (ckSteps c cfg W).foldl applyStep W.fs else W.fs }, i)

/-- `StateStore::checkpoint` when `fs::File::create(<path>/<id>/state.json)` returns an error (the path is occupied,
the disk is full …): the `?` leaves the function after `checkpoint_seq += 1` and `create_dir_all` — the id is
consumed and its (empty) directory exists; no metadata is pushed and the retention step is never reached, so the
history and every earlier checkpoint's directory are what they were. (Not an `Op` of the histories the theorems
quantify over: it is the *live* counterpart of `crashFs … 1`, driven by the harness with a real I/O error.) -/
def checkpointFailsAtCreate (cfg : Cfg) (W : World) : World :=
  { W with
      seq := nextSeq cfg W,
      fs := if cfg.file then applyStep W.fs (.mkdir (newId cfg W)) else W.fs }

/-- the directory as a crash after the first `n` steps of the checkpoint leaves it -/
def crashFs (c : Codec) (cfg : Cfg) (W : World) (n : Nat) : List (Id × Option (List Nat)) :=
  ((ckSteps c cfg W).take n).foldl applyStep W.fs

/-- `StateStore::restore` -/
def restore (c : Codec) (cfg : Cfg) (W : World) (i : Id) : World × Out :=
  if cfg.file then
    match fget W.fs i with
    | none => (W, .errNotFound)
    | some none => (W, .errNotFound)
    | some (some bytes) =>
      match c.parse bytes with
      | none => (W, .errParse)
      | some m => ({ W with store := load m W.clock }, .ok)
  else (W, .errMemory)

/-- `StateStore::update` -/
def update (W : World) (k v : Nat) : World × Out :=
  match sfind W.store k with
  | none => (W, .errMissing)
  | some e =>
    if e.expired W.clock then (W, .errExpired)
    else ({ W with store := sinsert W.store k { e with val := v } }, .ok)

def step (c : Codec) (cfg : Cfg) (W : World) : Op → World × Out
  | .put k v => ({ W with store := sinsert W.store k ⟨v, W.clock, cfg.defaultTtl⟩ }, .ok)
  | .putTtl k v t => ({ W with store := sinsert W.store k ⟨v, W.clock, some t⟩ }, .ok)
  | .update k v => update W k v
  | .delete k => ({ W with store := serase W.store k }, .ok)
  | .clear => ({ W with store := [] }, .ok)
  | .cleanup => ({ W with store := W.store.filter (fun p => !p.2.expired W.clock) }, .ok)
  | .checkpoint => ((checkpoint c cfg W).1, .ckpt (checkpoint c cfg W).2)
  | .restore i => restore c cfg W i
  | .advance d => ({ W with clock := W.clock + d }, .ok)

def run (c : Codec) (cfg : Cfg) (W : World) (ops : List Op) : World :=
  ops.foldl (fun W op => (step c cfg W op).1) W

/-- the ids returned by the `checkpoint` calls of a history, in call order -/
def ckIds (c : Codec) (cfg : Cfg) : World → List Op → List Id
  | _, [] => []
  | W, op :: ops =>
    match (step c cfg W op).2 with
    | .ckpt i => i :: ckIds c cfg (step c cfg W op).1 ops
    | _ => ckIds c cfg (step c cfg W op).1 ops

/-- number of `checkpoint` calls in a history -/
def countCk : List Op → Nat
  | [] => 0
  | .checkpoint :: r => countCk r + 1
  | _ :: r => countCk r

/-! ### the numbered crash points of `checkpoint` / `restore` (hook `verif_crash` in `streaming/state.rs`)

The hook places one crash point before the first and after every effect of the file backend's `checkpoint`
(including its retention clean-up) and `restore`; the points reached by one call are numbered 0, 1, 2 … in
program order. A procedure is the list of its steps BETWEEN consecutive points, so a call with `n` steps has the
points `0 … n`, and being killed at point `k` means: exactly the first `k` steps have happened. -/

/-- one step of a procedure: what the code does between two consecutive crash points -/
inductive PStep where
  | fs (s : FsStep)                         -- a file-system effect that is one call: `create_dir_all`, `File::create`
  | writeAll (i : Id) (bytes : List Nat)    -- `file.write_all(json)`: between its two points every prefix may be on disk
  | removeAll (v : Id)                      -- `fs::remove_dir_all(old)`: unlink `state.json`, then rmdir
  | mem (label : String)                    -- bookkeeping in memory only (lost with the process)
  | writeHead (i : Id) (bytes : List Nat) (k : Nat)  -- hook `arm_split`: `write_all(&bytes[..k])` (`k` clamped to the length)
  | writeTail (i : Id) (bytes : List Nat) (k : Nat)  -- … and, after the crash point INSIDE the write, `write_all(&bytes[k..])`
deriving Repr, DecidableEq

/-- `write_all(&bytes[a..a+n])` on the file that holds `bytes[..a]`: it successively holds the prefixes of length
`a+1 … a+n` (`writeSteps i bytes n` is the case `a = 0`) -/
def segSteps (i : Id) (bytes : List Nat) (a : Nat) : Nat → List FsStep
  | 0 => []
  | n + 1 => segSteps i bytes a n ++ [.write i (bytes.take (a + n + 1))]

/-- the atomic file-system steps a procedure step consists of (`ckSteps` is the expansion of `checkpointSteps`) -/
def PStep.expand : PStep → List FsStep
  | .fs s => [s]
  | .writeAll i bytes => writeSteps i bytes bytes.length
  | .removeAll v => [.rmFile v, .rmDir v]
  | .mem _ => []
  | .writeHead i bytes k => segSteps i bytes 0 (min k bytes.length)
  | .writeTail i bytes k => segSteps i bytes (min k bytes.length) (bytes.length - min k bytes.length)

/-- the label the hook gives the crash point that FOLLOWS the step -/
def PStep.label : PStep → String
  | .fs (.mkdir _) => "mkdir"
  | .fs (.create _) => "create"
  | .fs (.write _ _) => "write"
  | .fs (.rmFile _) => "unlink"
  | .fs (.rmDir _) => "rmdir"
  | .writeAll _ _ => "write"
  | .removeAll _ => "rmtree"
  | .mem l => l
  | .writeHead _ _ _ => "partial"
  | .writeTail _ _ _ => "write"

/-- `StateStore::checkpoint` on the file backend, one entry per pair of consecutive crash points:
`begin` · create_dir_all · `mkdir` · to_string_pretty · `serialise` · File::create · `create` · write_all · `write`
· checkpoints.push · `push` · [ checkpoints.remove(0) · `drop` · remove_dir_all · `rmtree` ] · last_checkpoint = now · `stamp` -/
def checkpointSteps (c : Codec) (cfg : Cfg) (W : World) : List PStep :=
  let i := newId cfg W
  let bytes := c.ser (live W.store W.clock)
  [.fs (.mkdir i), .mem "serialise", .fs (.create i), .writeAll i bytes, .mem "push"]
    ++ (match victimOf cfg.maxCk W.metas i with
        | none => []
        | some v => [.mem "drop", .removeAll v])
    ++ [.mem "stamp"]

/-- `StateStore::checkpoint` with the hook's split write armed at byte offset `k` (`verif_crash::arm_split`): the one
`write_all(json)` is carried out as `write_all(&json[..k])` · crash point `partial` · `write_all(&json[k..])`, so the call
has one more numbered point — point 4, INSIDE the write, reached when exactly the first `min k len` bytes are in the file;
the points after it are those of `checkpointSteps` shifted by one. -/
def checkpointStepsK (c : Codec) (cfg : Cfg) (W : World) (k : Nat) : List PStep :=
  let i := newId cfg W
  let bytes := c.ser (live W.store W.clock)
  [.fs (.mkdir i), .mem "serialise", .fs (.create i), .writeHead i bytes k, .writeTail i bytes k, .mem "push"]
    ++ (match victimOf cfg.maxCk W.metas i with
        | none => []
        | some v => [.mem "drop", .removeAll v])
    ++ [.mem "stamp"]

/-- `StateStore::restore` on the file backend: only the points the call reaches (an early `return Err` ends the list);
every step reads, none writes the directory -/
def restoreSteps (c : Codec) (cfg : Cfg) (W : World) (i : Id) : List PStep :=
  if cfg.file then
    match fget W.fs i with
    | some (some bytes) =>
      match c.parse bytes with
      | none => [.mem "exists", .mem "open", .mem "read"]
      | some _ => [.mem "exists", .mem "open", .mem "read", .mem "parse", .mem "clear", .mem "load"]
    | _ => []
  else []

/-- label of crash point `k` of a procedure (`exit`: the call has no such point — it returns) -/
def pointLabel (steps : List PStep) : Nat → String
  | 0 => "begin"
  | k + 1 => match steps[k]? with
    | some s => s.label
    | none => "exit"

/-- a process armed to die at point `k` dies iff the call reaches that point -/
def diesAt (steps : List PStep) (k : Nat) : Bool := decide (k ≤ steps.length)

/-- the directory a process killed at crash point `k` of a procedure leaves (all steps done if `k` is past the end) -/
def crashDir (steps : List PStep) (fs : List (Id × Option (List Nat))) (k : Nat) : List (Id × Option (List Nat)) :=
  ((steps.take k).flatMap PStep.expand).foldl applyStep fs

/-- the directory after the process was killed at crash point `k` of the checkpoint about to be taken in `W` -/
def crashAt (c : Codec) (cfg : Cfg) (W : World) (k : Nat) : List (Id × Option (List Nat)) :=
  crashDir (checkpointSteps c cfg W) W.fs k

/-- the directory after the process was killed at crash point `p` of the checkpoint about to be taken in `W`, the write
split at byte offset `k` (`p = 4`: killed inside `write_all`, after `k` bytes) -/
def crashAtK (c : Codec) (cfg : Cfg) (W : World) (k p : Nat) : List (Id × Option (List Nat)) :=
  crashDir (checkpointStepsK c cfg W k) W.fs p

/-- number of atomic file-system steps done when crash point `k` is reached (index into `ckSteps`) -/
def fineIndex (steps : List PStep) (k : Nat) : Nat := ((steps.take k).flatMap PStep.expand).length

/-- a NEW `StateStore` opened at clock reading `t` on the directory a dead process left: empty map, no metadata
(`checkpoints` lives in memory only), `checkpoint_seq = 0` -/
def reopen (F : List (Id × Option (List Nat))) (t : Nat) : World :=
  { store := [], clock := t, seq := 0, metas := [], fs := F }

end C20
