#!/usr/bin/env python3
"""tools/record_seeded.py <seeded-dir> <property> <confirm-summary> <detection-summary>: complete meta.json"""
import json, sys, os
d, prop, confirm, detect = sys.argv[1:5]
p = os.path.join(d, "meta.json")
m = json.load(open(p)) if os.path.exists(p) else {}
m["property"] = prop
m["confirmed_by_integrator"] = confirm
m["detection"] = detect
json.dump(m, open(p, "w"), indent=1)
