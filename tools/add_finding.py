#!/usr/bin/env python3
"""tools/add_finding.py <property> <id> fixed <commit> <what>   |   ... open <signature> <what>"""
import json, sys
p = "/verif/known_findings.json"
d = json.load(open(p))
prop, fid, status = sys.argv[1:4]
e = {"property": prop, "id": fid, "status": status}
if status == "fixed":
    e["commit"] = sys.argv[4]; e["what"] = sys.argv[5]
    e["line"] = f"fixed: property={prop} {sys.argv[4]} {sys.argv[5]}"
else:
    e["signature"] = sys.argv[4]; e["what"] = sys.argv[5]
d["findings"] = [x for x in d["findings"] if x["id"] != fid] + [e]
json.dump(d, open(p, "w"), indent=1)
