#!/usr/bin/env python3
"""tools/rerun_seeded.py [--prop CHECK] <name>… — re-run the quick check against already stored seeded changes (private copy) and
append the outcome to meta.json under "detection_after_strengthening" (the first outcome stays in "detection")."""
import json, os, subprocess, sys
args = sys.argv[1:]
check = None
if args and args[0] == "--prop":
    check = args[1]; args = args[2:]
for n in args:
    prop = check or n.split("-")[0]
    d = f"/verif/seeded/{n}"
    r = subprocess.run(["/verif/tools/run_seeded.sh", prop, d], capture_output=True, text=True).stdout
    det = "NOT DETECTED (quick tier exit 0)"
    rp = os.environ.get("SEEDRUN", "/root/seedrun") + f"/verif/replays/{prop}-20260925-quick.json"
    if "VIOLATION" in r and os.path.exists(rp):
        dd = json.load(open(rp))
        cs = dd.get("cases", [])[:2]
        det = "quick tier exit 1: " + [l for l in r.splitlines() if "VIOLATION" in l][0].replace(os.environ.get("SEEDRUN", "/root/seedrun") + "/verif/replays/", "replays/") + \
              " ; " + " | ".join(f"{c['kind']} {c.get('signature','')} on '{c['case'][:160]}' ({c['occurrences']} cases)" for c in cs) + \
              (" ; broken: " + ",".join(b["what"] for b in dd.get("broken_obligations", [])) if dd.get("broken_obligations") else "")
    p = d + "/meta.json"
    m = json.load(open(p))
    m["detection_after_strengthening"] = (f"[check {prop}] " if check else "") + det
    json.dump(m, open(p, "w"), indent=1)
    print(n, "->", det[:300], flush=True)
