#!/usr/bin/env python3
"""tools/seeded_pipeline.py <PROP> <worktree> [ids...]: confirm each seeded change of a mutant worker in its scratch
worktree, store it under /verif/seeded/<PROP>-<i>/, run the quick check against it in /repo, record meta.json."""
import json, os, shutil, subprocess, sys
prop, wt = sys.argv[1], sys.argv[2]
ids = sys.argv[3:] or ["1", "2", "3"]
for i in ids:
    src = f"{wt}/seeded/{i}"
    dst = f"/verif/seeded/{prop}-{i}"
    out = subprocess.run(["/verif/tools/confirm_seeded.sh", wt, src], capture_output=True, text=True).stdout
    lines = [l for l in out.splitlines() if l.startswith("tests passed") or l.startswith("build_default")]
    conf = " ; ".join(lines)
    ok = "failed=0" in conf and "build_default=0 build_features=0 demo_orig_rc=0" in conf and "demo_mutant_rc=0" not in conf
    print(f"== {prop}-{i} confirm: {conf} -> {'CONFIRMED' if ok else 'NOT CONFIRMED'}")
    if not ok:
        continue
    os.makedirs(dst, exist_ok=True)
    for f in os.listdir(src):
        shutil.copy(os.path.join(src, f), dst)
    # the worktree may predate later fix/hook commits: make sure the patch applies to /repo HEAD
    chk = subprocess.run(["git", "-C", "/repo", "apply", "--check", f"{dst}/patch.diff"], capture_output=True, text=True)
    if chk.returncode != 0:
        print("   patch does not apply to /repo HEAD:", chk.stderr.strip()[:200]); continue
    r = subprocess.run(["/verif/tools/run_seeded.sh", prop, dst], capture_output=True, text=True).stdout
    print("   " + r.replace("\n", "\n   "))
    det = "NOT DETECTED (quick tier exit 0)"
    rp = os.environ.get("SEEDRUN", "/root/seedrun") + f"/verif/replays/{prop}-20260925-quick.json"
    if "VIOLATION" in r and os.path.exists(rp):
        d = json.load(open(rp))
        cs = d.get("cases", [])[:2]
        det = "quick tier exit 1: " + [l for l in r.splitlines() if "VIOLATION" in l][0].replace(os.environ.get("SEEDRUN", "/root/seedrun") + "/verif/replays/", "replays/") + \
              " ; " + " | ".join(f"{c['kind']} {c.get('signature','')} on '{c['case'][:160]}' ({c['occurrences']} cases)" for c in cs) + \
              (" ; broken: " + ",".join(b["what"] for b in d.get("broken_obligations", [])) if d.get("broken_obligations") else "")
    subprocess.run(["/verif/tools/record_seeded.py", dst, prop,
                    "tools/confirm_seeded.sh in a scratch worktree: patch applies; builds with default features and with "
                    "--features streaming,backward-chaining; cargo test --workspace --no-fail-fast --offline -> " + conf +
                    " (demo exit 0 on the original, non-zero with the change)", det])
    print("   detection:", det[:400])
