#!/bin/sh
# tools/confirm_seeded.sh <worktree> <seed-dir>  — independently confirm a seeded change in a scratch worktree:
# applies, builds with both feature sets, passes the 199-test suite, demo passes without / fails with the change.
WT="$1"; D="$2"; export CARGO_TARGET_DIR="$WT/target"; export CARGO_NET_OFFLINE=true
cd "$WT" || exit 2
git checkout -q -- src 2>/dev/null; rm -f examples/demo_seed.rs
cp "$D/demo.rs" examples/demo_seed.rs
cargo run -q --offline --features streaming,backward-chaining --example demo_seed >/tmp/demo_orig.$$ 2>&1; r0=$?
git apply "$D/patch.diff" || { echo "APPLY-FAIL"; exit 2; }
cargo build -q --offline 2>/dev/null; b1=$?
cargo build -q --offline --features streaming,backward-chaining 2>/dev/null; b2=$?
rm -f examples/demo_seed.rs
cargo test --workspace --no-fail-fast --offline 2>&1 | grep -E "^test result" | awk '{p+=$4; f+=$6} END {print "tests passed=" p " failed=" f}'
cp "$D/demo.rs" examples/demo_seed.rs
cargo run -q --offline --features streaming,backward-chaining --example demo_seed >/tmp/demo_mut.$$ 2>&1; r1=$?
git checkout -q -- src; rm -f examples/demo_seed.rs
echo "build_default=$b1 build_features=$b2 demo_orig_rc=$r0 demo_mutant_rc=$r1"
tail -2 /tmp/demo_mut.$$; rm -f /tmp/demo_orig.$$ /tmp/demo_mut.$$
