#!/bin/sh
# tools/run_seeded.sh Cxx /verif/seeded/<name> [tier]
# Applies a seeded change to a PRIVATE copy of /repo (/root/seedrun/repo), runs the property's check from a private
# copy of /verif against it (RRE_REPO), and undoes it. /repo and /verif themselves are not touched, so this can run
# while other work goes on; a lock serialises concurrent invocations. Replay: /root/seedrun/verif/replays/.
ID="$1"; D="$2"; TIER="${3:-quick}"; S="${SEEDRUN:-/root/seedrun}"
mkdir -p $S
exec 9>$S/.lock; flock 9
rsync -a --delete --exclude .git --exclude work --exclude replays --exclude harness/target --exclude harness/Cargo.toml --exclude harness/Cargo.lock --exclude lean/.lake /verif/ $S/verif/
rsync -a --delete --exclude target /repo/ $S/repo/
git -C $S/repo checkout -q -- . ; git -C $S/repo clean -qfd -e target
git -C $S/repo apply "$D/patch.diff" || { echo "patch does not apply"; exit 2; }
cd $S/verif && RRE_REPO=$S/repo ./check.py "$ID" --tier "$TIER" > "$S/out.$$" 2> "$S/err.$$"; rc=$?
git -C $S/repo checkout -q -- .
grep -E "^VIOLATION|^KNOWN-FINDING" "$S/out.$$"; tail -1 "$S/err.$$"
echo "rc=$rc"; rm -f "$S/out.$$" "$S/err.$$"
