#!/bin/sh
# tools/run_seeded.sh Cxx /verif/seeded/<name>  — apply a seeded change to /repo, run the quick check, undo it
ID="$1"; D="$2"
cd /repo && git diff --quiet || { echo "/repo has uncommitted changes"; exit 2; }
git -C /repo apply "$D/patch.diff" || { echo "patch does not apply"; exit 2; }
cd /verif && ./check.py "$ID" --tier "${3:-quick}" > "/tmp/seeded_$$.out" 2> "/tmp/seeded_$$.err"; rc=$?
git -C /repo checkout -- .
grep -E "VIOLATION|KNOWN-FINDING" "/tmp/seeded_$$.out"; tail -1 "/tmp/seeded_$$.err"
echo "rc=$rc"; rm -f "/tmp/seeded_$$.out" "/tmp/seeded_$$.err"
# restore the evidence of the unchanged tree
git -C /verif checkout -- "evidence/$ID.json" 2>/dev/null || true
