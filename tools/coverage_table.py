#!/usr/bin/env python3
"""tools/coverage_table.py — markdown table from coverage/Cxx.json (written by tools/coverage.py)"""
import glob, json, os
ROOT = os.path.dirname(os.path.dirname(os.path.abspath(__file__)))
print("| id | cases | anchored file: lines executed by the quick-tier cases (never-reached `pub fn`s) |")
print("|----|------:|----|")
for f in sorted(glob.glob(os.path.join(ROOT, "coverage", "C*.json"))):
    d = json.load(open(f))
    cells = []
    for rel, x in d["files"].items():
        nv = [fn["fn"] for fn in x["functions"] if fn["hit_lines"] == 0 and fn["pub"]]
        cells.append(f"`{rel.replace('src/','')}` {x['line_percent']:.0f}% of {x['lines']} ({len(nv)})")
    print(f"| {d['property']} | {d['cases']} | " + "; ".join(cells) + " |")
