#!/usr/bin/env python3
"""Reach audit of the correspondence tie: which code of a property's anchored files do the cases of its check execute?

    tools/coverage.py Cxx [tier]          (writes coverage/Cxx.json and prints the functions never / partly reached)

The harness is rebuilt with `-C instrument-coverage` (nightly toolchain, llvm-tools) in a scratch directory outside
/verif, the property's corpus + generated cases (same generator, same seed as check.py) are run through `exec`, and the
line counts of the anchored source files (properties.jsonl `anchors.files`) are attributed to the `fn` items found in the
source text. This is NOT a check and decides nothing: it tells the maintainer of the tie what the generator does not reach
(every round of seeded changes showed that misses are reach problems), and its summary is copied into DESIGN.md §9.7.
"""
import json
import os
import re
import shutil
import subprocess
import sys

ROOT = os.path.dirname(os.path.dirname(os.path.abspath(__file__)))
REPO = os.environ.get("RRE_REPO", "/repo")
SCRATCH = os.environ.get("RRE_COV_SCRATCH", "/root/covwork")
TOOLBIN = "/root/.rustup/toolchains/nightly-x86_64-unknown-linux-gnu/lib/rustlib/x86_64-unknown-linux-gnu/bin"


def sh(cmd, **kw):
    return subprocess.run(cmd, capture_output=True, text=True, **kw)


def fn_ranges(path):
    """[(name, first_line, last_line)] of every `fn` item with a body, by brace matching on the source text"""
    src = open(path, encoding="utf-8", errors="replace").read().split("\n")
    out = []
    pat = re.compile(r"^\s*(?:pub(?:\([^)]*\))?\s+)?(?:const\s+)?(?:async\s+)?(?:unsafe\s+)?fn\s+([A-Za-z_0-9]+)")
    i = 0
    n = len(src)
    while i < n:
        m = pat.match(src[i])
        if not m:
            i += 1
            continue
        name = m.group(1)
        public = src[i].lstrip().startswith("pub")
        # find the opening brace (skip declarations ending in ';')
        j, depth, opened = i, 0, False
        in_str = False
        end = None
        while j < n and end is None:
            line = re.sub(r'"(?:\\.|[^"\\])*"', '""', src[j])
            line = re.sub(r"'(?:\\.|[^'\\])'", "' '", line)
            line = line.split("//")[0]
            for ch in line:
                if ch == "{":
                    depth += 1
                    opened = True
                elif ch == "}":
                    depth -= 1
                    if opened and depth == 0:
                        end = j
                        break
                elif ch == ";" and not opened:
                    end = -1
                    break
            j += 1
        if end is not None and end >= 0:
            out.append((name, i + 1, end + 1, public))
        i += 1
    return out


def main():
    pid = sys.argv[1].upper()
    tier = sys.argv[2] if len(sys.argv) > 2 else "quick"
    low = pid.lower()
    seed = os.environ.get("VERIF_SEED", "20260925")
    sys.path.insert(0, ROOT)
    import importlib.util
    spec = importlib.util.spec_from_file_location("prop", os.path.join(ROOT, "props", low + ".py"))
    prop = importlib.util.module_from_spec(spec)
    spec.loader.exec_module(prop)
    anchors = None
    for l in open(os.path.join(ROOT, "properties.jsonl")):
        p = json.loads(l)
        if p["id"] == pid:
            anchors = p["anchors"]["files"]
    os.makedirs(SCRATCH, exist_ok=True)
    h = os.path.join(SCRATCH, "harness")
    if os.path.exists(h):
        shutil.rmtree(h)
    shutil.copytree(os.path.join(ROOT, "harness"), h, ignore=shutil.ignore_patterns("target"))
    tpl = open(os.path.join(h, "Cargo.toml.in")).read().replace("@REPO@", REPO)
    open(os.path.join(h, "Cargo.toml"), "w").write(tpl)
    shutil.copy(os.path.join(REPO, "Cargo.lock"), os.path.join(h, "Cargo.lock"))
    env = dict(os.environ, CARGO_NET_OFFLINE="true", CARGO_TARGET_DIR=os.path.join(SCRATCH, "target"),
               RUSTFLAGS="--cfg rre_verif -C instrument-coverage",
               # build scripts and proc macros are instrumented too: keep their profiles out of the repository
               LLVM_PROFILE_FILE=os.path.join(SCRATCH, "prof", "build-%p-%m.profraw"))
    bins = [low] + list(getattr(prop, "EXTRA_BINS", []))
    cmd = ["cargo", "+nightly", "build", "--offline"]
    for b in bins:
        cmd += ["--bin", b]
    r = sh(cmd, cwd=h, env=env)
    if r.returncode != 0:
        print(r.stderr[-3000:])
        sys.exit(2)
    binp = os.path.join(SCRATCH, "target", "debug", low)
    prof = os.path.join(SCRATCH, "prof", pid)
    shutil.rmtree(prof, ignore_errors=True)
    os.makedirs(prof)
    cases = []
    cdir = os.path.join(ROOT, "corpus", pid)
    if os.path.isdir(cdir):
        for f in sorted(os.listdir(cdir)):
            if f.endswith(".case"):
                cases += [l.rstrip("\n") for l in open(os.path.join(cdir, f)) if l.strip() and not l.startswith("#")]
    penv = dict(os.environ, LLVM_PROFILE_FILE=os.path.join(prof, "gen-%p.profraw"))
    g = sh([binp, "gen", seed, str(prop.N[tier]), tier], env=penv)
    cases += [l for l in g.stdout.split("\n") if l]
    penv["LLVM_PROFILE_FILE"] = os.path.join(prof, "exec-%p-%m.profraw")
    e = subprocess.run([binp, "exec"], input=("\n".join(cases) + "\n"), capture_output=True, text=True, env=penv,
                       timeout=int(os.environ.get("RRE_COV_TIMEOUT", "3000")))
    nobs = len([l for l in e.stdout.split("\n") if l])
    raws = [os.path.join(prof, f) for f in os.listdir(prof) if f.startswith("exec-")]
    merged = os.path.join(prof, "merged.profdata")
    r = sh([os.path.join(TOOLBIN, "llvm-profdata"), "merge", "-sparse", "-o", merged] + raws)
    if r.returncode != 0:
        print(r.stderr[-2000:])
        sys.exit(2)
    srcs = [os.path.join(REPO, a) for a in anchors]
    objs = [binp] + [os.path.join(SCRATCH, "target", "debug", b) for b in bins[1:]]
    cmd = [os.path.join(TOOLBIN, "llvm-cov"), "export", "-format=text", "-instr-profile", merged, objs[0]]
    for o in objs[1:]:
        cmd += ["-object", o]
    cmd += srcs
    r = sh(cmd)
    data = json.loads(r.stdout)
    report = {"property": pid, "tier": tier, "seed": seed, "cases": len(cases), "observations": nobs, "files": {}}
    never, partly = [], []
    # per-line counts from `llvm-cov show` (robust; a blank count column = no code on that line)
    cmd2 = [os.path.join(TOOLBIN, "llvm-cov"), "show", "-instr-profile", merged, objs[0]]
    for o in objs[1:]:
        cmd2 += ["-object", o]
    shown = sh(cmd2 + srcs).stdout
    per_file, curf = {}, None
    for l in shown.split("\n"):
        if l.endswith(":") and l[:-1] in srcs:
            curf = l[:-1]
            per_file[curf] = {}
            continue
        m = re.match(r"^\s*(\d+)\|\s*([0-9.]+[kMGTE]?)?\|", l)
        if m and curf:
            if m.group(2):
                c = m.group(2)
                per_file[curf][int(m.group(1))] = 0 if re.fullmatch(r"0(\.0+)?", c) else 1
    if len(srcs) == 1 and not per_file:
        curf = srcs[0]
        per_file[curf] = {}
        for l in shown.split("\n"):
            m = re.match(r"^\s*(\d+)\|\s*([0-9.]+[kMGTE]?)?\|", l)
            if m and m.group(2):
                per_file[curf][int(m.group(1))] = 0 if re.fullmatch(r"0(\.0+)?", m.group(2)) else 1
    for f in data["data"][0]["files"]:
        rel = os.path.relpath(f["filename"], REPO)
        lines = per_file.get(f["filename"], {})
        fns = []
        for name, a, b, public in fn_ranges(f["filename"]):
            body = [lines[l] for l in range(a, b + 1) if l in lines]
            if not body:
                continue
            hit = sum(1 for c in body if c > 0)
            rec = {"fn": name, "lines": [a, b], "pub": public, "code_lines": len(body), "hit_lines": hit}
            fns.append(rec)
            if name.startswith("test_") or "tests" in name:
                continue
            if hit == 0:
                never.append((rel, name, a, public, len(body)))
            elif hit < len(body):
                miss = [l for l in range(a, b + 1) if l in lines and lines[l] == 0]
                partly.append((rel, name, a, public, len(body), hit, miss))
        s = f["summary"]
        report["files"][rel] = {"line_percent": round(s["lines"]["percent"], 1), "lines": s["lines"]["count"],
                                "region_percent": round(s["regions"]["percent"], 1), "functions": fns}
    os.makedirs(os.path.join(ROOT, "coverage"), exist_ok=True)
    json.dump(report, open(os.path.join(ROOT, "coverage", pid + ".json"), "w"), indent=1)
    print(f"== {pid} tier={tier} cases={len(cases)} obs={nobs}")
    for rel, d in report["files"].items():
        print(f"  {rel}: lines {d['line_percent']}% of {d['lines']}, regions {d['region_percent']}%")
    print("  -- never reached (non-test fns):")
    for rel, name, a, public, n in never:
        print(f"     {'pub ' if public else '    '}{rel}:{a} {name} ({n} lines)")
    print("  -- partly reached (missed lines):")
    for rel, name, a, public, n, hit, miss in partly:
        if n - hit >= 2:
            print(f"     {'pub ' if public else '    '}{rel}:{a} {name} {hit}/{n}  missed {compact(miss)}")


def compact(ls):
    out, i = [], 0
    while i < len(ls):
        j = i
        while j + 1 < len(ls) and ls[j + 1] == ls[j] + 1:
            j += 1
        out.append(str(ls[i]) if i == j else f"{ls[i]}-{ls[j]}")
        i = j + 1
    return ",".join(out[:40])


if __name__ == "__main__":
    main()
