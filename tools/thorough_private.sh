#!/bin/sh
# tools/thorough_private.sh [props…] — run the thorough tier of the given (default: all) checks in a private copy of
# /verif and /repo under /root/thor, so that /repo can be used for other things meanwhile. Results: /root/thor.log
T="${THOR_DIR:-/root/thor}"; mkdir -p $T
rsync -a --delete --exclude .git --exclude work --exclude replays --exclude harness/target --exclude lean/.lake /verif/ $T/verif/
rsync -a --delete --exclude target /repo/ $T/repo/
git -C $T/repo checkout -q -- .
export RRE_REPO=$T/repo
cd $T/verif && ./setup.sh >/dev/null 2>&1
PROPS="${*:-C01 C02 C03 C04 C05 C06 C07 C08 C09 C10 C11 C12 C13 C14 C15 C16 C17 C18 C19 C20}"
for p in $PROPS; do
  ./check.py $p --tier thorough 2>&1 | grep -E "^VIOLATION|tier=thorough"
done
