#!/bin/sh
# tools/integrate.sh Cxx [/root/work/Cyy]  — copy one property's deliverables from a worker's workspace into /verif
set -e
ID="$1"; W="${2:-/root/work/$ID}"; low=$(echo "$ID" | tr 'C' 'c')
V=/verif
for f in check.py harness/src/lib.rs lean/RreModel/Proto.lean lean/lakefile.toml harness/Cargo.toml.in setup.sh; do
  if ! cmp -s "$W/verif/$f" "$V/$f"; then echo "WARNING: shared file differs in workspace: $f"; fi
done
mkdir -p "$V/lean/RreModel/$ID" "$V/corpus/$ID"
rsync -a --delete "$W/verif/lean/RreModel/$ID/" "$V/lean/RreModel/$ID/"
cp "$W/verif/lean/Driver/$ID.lean" "$V/lean/Driver/$ID.lean"
cp "$W/verif/harness/src/bin/$low.rs" "$V/harness/src/bin/$low.rs"
for extra in "$W"/verif/harness/src/bin/${low}_*.rs; do [ -f "$extra" ] && cp "$extra" "$V/harness/src/bin/"; done
cp "$W/verif/props/$low.py" "$V/props/$low.py"
[ -d "$W/verif/corpus/$ID" ] && rsync -a "$W/verif/corpus/$ID/" "$V/corpus/$ID/"
ls "$W"/*.patch 2>/dev/null || true
echo "integrated $ID from $W"
