#!/bin/sh
# tools/seed_sweep.sh "<seeds>" [props…] — quick tier of the given (default all) checks on the UNCHANGED tree under several
# seeds, in a private copy (/root/seedsweep); prints one line per run; any rc != 0 is a false alarm or a new genuine defect.
SEEDS="$1"; shift
T=/root/seedsweep; mkdir -p $T
rsync -a --delete --exclude .git --exclude work --exclude replays --exclude harness/target --exclude harness/Cargo.toml --exclude harness/Cargo.lock --exclude lean/.lake /verif/ $T/verif/
rsync -a --delete --exclude target /repo/ $T/repo/
git -C $T/repo checkout -q -- .
export RRE_REPO=$T/repo
cd $T/verif && ./setup.sh >/dev/null 2>&1
PROPS="${*:-C01 C02 C03 C04 C05 C06 C07 C08 C09 C10 C11 C12 C13 C14 C15 C16 C17 C18 C19 C20}"
for s in $SEEDS; do for p in $PROPS; do
  VERIF_SEED=$s ./check.py $p > out.txt 2> err.txt; rc=$?
  echo "seed=$s $p rc=$rc $(grep -c '^KNOWN' out.txt) known; $(grep '^VIOLATION' out.txt | head -1) $(tail -1 err.txt | sed 's/.*cases=/cases=/')"
done; done
echo SWEEP-DONE
