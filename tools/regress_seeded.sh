#!/bin/sh
# regress.sh <lane-dir> props... : re-run every stored seeded change of the given properties (private copy), print rc
export SEEDRUN="$1"; shift
for p in "$@"; do
  for d in /verif/seeded/$p-*; do
    n=$(basename $d)
    if grep -q scope_note $d/meta.json; then echo "$n scope"; continue; fi
    out=$(/verif/tools/run_seeded.sh $p $d 2>&1 | tail -3 | tr '\n' ' ')
    echo "$n $(echo "$out" | grep -o 'rc=[0-9]*') $(echo "$out" | grep -o 'oracle_fail=[0-9]* diff=[0-9]*')"
  done
done
echo REGRESS-DONE
