#!/usr/bin/env python3
"""tools/sweep_seeded.py [--seeds 1,2] [names…] — run the quick check of every seeded change under several seeds, in a
private copy of /verif and /repo (so /repo itself is never touched and the sweep can run while work goes on).
Writes /root/sweep/results.json and prints one line per (change, seed)."""
import json, os, subprocess, sys, glob
args = sys.argv[1:]
seeds = ["1", "2"]
if args and args[0] == "--seeds":
    seeds = args[1].split(","); args = args[2:]
S = "/root/sweep"
os.makedirs(S, exist_ok=True)
subprocess.run(["rsync", "-a", "--delete", "--exclude", ".git", "--exclude", "work", "--exclude", "replays",
                "--exclude", "harness/target", "--exclude", "lean/.lake", "/verif/", f"{S}/verif/"], check=True)
subprocess.run(["rsync", "-a", "--delete", "--exclude", "target", "/repo/", f"{S}/repo/"], check=True)
subprocess.run(["git", "-C", f"{S}/repo", "checkout", "-q", "--", "."], check=True)
env = dict(os.environ, RRE_REPO=f"{S}/repo")
subprocess.run(["./setup.sh"], cwd=f"{S}/verif", env=env, capture_output=True)
names = args or sorted(os.path.basename(d) for d in glob.glob("/verif/seeded/*"))
res = {}
rp = f"{S}/results.json"
if os.path.exists(rp):
    res = json.load(open(rp))
for n in names:
    prop = n.split("-")[0]
    patch = f"/verif/seeded/{n}/patch.diff"
    a = subprocess.run(["git", "-C", f"{S}/repo", "apply", patch], capture_output=True, text=True)
    if a.returncode != 0:
        print(n, "APPLY-FAIL", a.stderr.strip()[:100], flush=True); res[n] = {"apply": "fail"}; continue
    for sd in seeds:
        e = dict(env, VERIF_SEED=sd)
        r = subprocess.run(["./check.py", prop], cwd=f"{S}/verif", env=e, capture_output=True, text=True)
        vio = [l for l in r.stdout.splitlines() if l.startswith("VIOLATION")]
        summ = [l for l in r.stderr.splitlines() if "tier=" in l]
        res.setdefault(n, {})[sd] = {"rc": r.returncode, "violation": vio[:1], "summary": summ[-1:] }
        print(n, "seed", sd, "rc", r.returncode, (vio[0][:120] if vio else "NO-VIOLATION"), (summ[-1].split("cases=")[1][:70] if summ else ""), flush=True)
    subprocess.run(["git", "-C", f"{S}/repo", "checkout", "-q", "--", "."], check=True)
    json.dump(res, open(rp, "w"), indent=1)
# finally the unchanged tree under the same seeds (must be quiet)
for prop in sorted({n.split("-")[0] for n in names}):
    for sd in seeds:
        e = dict(env, VERIF_SEED=sd)
        r = subprocess.run(["./check.py", prop], cwd=f"{S}/verif", env=e, capture_output=True, text=True)
        print("UNCHANGED", prop, "seed", sd, "rc", r.returncode, flush=True)
        res.setdefault("unchanged-" + prop, {})[sd] = r.returncode
json.dump(res, open(rp, "w"), indent=1)
