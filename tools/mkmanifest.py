#!/usr/bin/env python3
"""Regenerate MANIFEST.json from props/*.py (claimed checks) and properties.jsonl (the fixed list)."""
import importlib.util, json, os
ROOT = os.path.dirname(os.path.dirname(os.path.abspath(__file__)))
props = [json.loads(l) for l in open(os.path.join(ROOT, "properties.jsonl"))]
claimed = {}
for f in sorted(os.listdir(os.path.join(ROOT, "props"))):
    if f.endswith(".py"):
        spec = importlib.util.spec_from_file_location(f[:-3], os.path.join(ROOT, "props", f))
        m = importlib.util.module_from_spec(spec); spec.loader.exec_module(m)
        claimed[m.ID] = m
hooks_commits = []
hp = os.path.join(ROOT, "hooks_commits.txt")
if os.path.exists(hp):
    hooks_commits = [l.split()[0] for l in open(hp) if l.strip() and not l.startswith("#")]
TECH = "Lean 4 machine-checked proof over a hand-written executable model + model/implementation correspondence check"
m = {"version": 1, "setup_cmd": "./setup.sh",
     "hooks": {"guard": "rre_verif",
               "enable": "RUSTFLAGS='--cfg rre_verif' (set in /verif/harness/.cargo/config.toml; the harness crate links /repo by path with features streaming,backward-chaining)",
               "baseline_off_cmd": "cd /repo && cargo test --workspace --no-fail-fast --offline",
               "source_commits": hooks_commits, "add_only": True},
     "engines": [
         {"name": "lean-model", "path": "lean", "serves_properties": sorted(claimed),
          "kind_free_text": "Lean 4 models, specs and theorems (lake project RreModel) + compiled line-protocol drivers drv_cXX"},
         {"name": "rust-harness", "path": "harness", "serves_properties": sorted(claimed),
          "kind_free_text": "Rust crate linking /repo in-process: case generators, executors, shrinkers (one binary per property)"}],
     "checks": [],
     "notes": "Single entry point check.py (see DESIGN.md §2). known_findings.json lists recorded findings and fixed defects.",
     "not_applicable": []}
for p in props:
    i = p["id"]
    if i in claimed:
        c = claimed[i]
        m["checks"].append({
            "property_id": i, "quick_cmd": f"./check.py {i} --tier quick", "thorough_cmd": f"./check.py {i} --tier thorough",
            "evidence_file": f"evidence/{i}.json", "replay_cmd_template": f"./check.py {i} --replay {{path}}",
            "engine": "lean-model",
            "level_claimed": {"category": getattr(c, "LEVEL", "proof"), "text": c.LEVEL_TEXT, "design_ref": getattr(c, "DESIGN_REF", "§6 " + i)},
            "level_note": c.LEVEL_NOTE, "technique": getattr(c, "TECHNIQUE", TECH)})
    else:
        m["not_applicable"].append({"property_id": i, "reason": "check not built yet (work in progress; the Lean-proof technique applies — see DESIGN.md §6)"})
json.dump(m, open(os.path.join(ROOT, "MANIFEST.json"), "w"), indent=1)
print("claimed:", sorted(claimed), "unclaimed:", [x["property_id"] for x in m["not_applicable"]])
