#!/bin/sh
# Offline build of the whole framework from files on disk (MANIFEST.setup_cmd).
set -e
cd "$(dirname "$0")"
REPO="${RRE_REPO:-/repo}"
export CARGO_NET_OFFLINE=true
sed "s#@REPO@#$REPO#" harness/Cargo.toml.in > harness/Cargo.toml
cp "$REPO/Cargo.lock" harness/Cargo.lock
(cd harness && cargo build --offline --bins 2>&1 | tail -3)
cd lean
targets=""
for f in Driver/C*.lean; do
  id=$(basename "$f" .lean)
  low=$(echo "$id" | tr 'C' 'c')
  targets="$targets drv_$low"
  [ -f "RreModel/$id/Theorems.lean" ] && targets="$targets RreModel.$id.Theorems"
done
lake build $targets 2>&1 | tail -3
